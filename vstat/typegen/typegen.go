// Package typegen draws pools of Go types (as source text spread over several packages, plus
// one-attribute "near-miss" mutants of each) and type-checks them with go/types.  It is shared by
// the C07a / C08a / C14a property tests injected into /repo packages.
package typegen

import (
	"fmt"
	"go/ast"
	"go/importer"
	"go/parser"
	"go/token"
	"go/types"
	"sort"
	"strings"

	"pgregory.net/rapid"
)

// Ty is a small AST of a type expression, printable in the context of any generated package.
type Ty struct {
	K        string // basic ptr slice array map chan func struct iface named inst
	Name     string // basic name, or named ref "pkg.Name" ("" pkg for universe such as error)
	N        int    // array length
	Dir      int    // 0 chan, 1 chan<-, 2 <-chan
	Elems    []*Ty  // ptr/slice/array/chan: [elem]; map: [key, elem]; func: params then results; inst: type args
	NParams  int
	Variadic bool
	Fields   []Field
	Methods  []Method
	Embeds   []string // iface: embedded named interfaces ("pkg.Name")
}

type Field struct {
	Name     string
	T        *Ty
	Tag      string
	Embedded bool
}

type Method struct {
	Name string
	Sig  *Ty // K == "func"
}

func (t *Ty) clone() *Ty {
	if t == nil {
		return nil
	}
	c := *t
	c.Elems = make([]*Ty, len(t.Elems))
	for i, e := range t.Elems {
		c.Elems[i] = e.clone()
	}
	c.Fields = make([]Field, len(t.Fields))
	for i, f := range t.Fields {
		c.Fields[i] = f
		c.Fields[i].T = f.T.clone()
	}
	c.Methods = make([]Method, len(t.Methods))
	for i, m := range t.Methods {
		c.Methods[i] = Method{m.Name, m.Sig.clone()}
	}
	c.Embeds = append([]string(nil), t.Embeds...)
	return &c
}

// Print renders t as Go source inside package pkg; imports collects packages referenced.
func (t *Ty) Print(pkg string, imports map[string]bool) string {
	q := func(ref string) string {
		p, n, _ := strings.Cut(ref, ".")
		if p == "" || p == pkg {
			return n
		}
		imports[p] = true
		return p + "." + n
	}
	switch t.K {
	case "basic":
		if t.Name == "unsafe.Pointer" {
			imports["unsafe"] = true
		}
		return t.Name
	case "named":
		return q(t.Name)
	case "inst":
		var as []string
		for _, e := range t.Elems {
			as = append(as, e.Print(pkg, imports))
		}
		return q(t.Name) + "[" + strings.Join(as, ", ") + "]"
	case "ptr":
		return "*" + t.Elems[0].Print(pkg, imports)
	case "slice":
		return "[]" + t.Elems[0].Print(pkg, imports)
	case "array":
		return fmt.Sprintf("[%d]%s", t.N, t.Elems[0].Print(pkg, imports))
	case "map":
		return "map[" + t.Elems[0].Print(pkg, imports) + "]" + t.Elems[1].Print(pkg, imports)
	case "chan":
		e := t.Elems[0].Print(pkg, imports)
		switch t.Dir {
		case 1:
			return "chan<- " + e
		case 2:
			return "<-chan " + e
		}
		if t.Elems[0].K == "chan" && t.Elems[0].Dir == 2 {
			return "chan (" + e + ")"
		}
		return "chan " + e
	case "func":
		return "func" + t.sig(pkg, imports)
	case "struct":
		var b strings.Builder
		b.WriteString("struct{")
		for i, f := range t.Fields {
			if i > 0 {
				b.WriteString("; ")
			}
			if f.Embedded {
				b.WriteString(f.T.Print(pkg, imports))
			} else {
				b.WriteString(f.Name + " " + f.T.Print(pkg, imports))
			}
			if f.Tag != "" {
				b.WriteString(" " + fmt.Sprintf("%q", f.Tag))
			}
		}
		b.WriteString("}")
		return b.String()
	case "iface":
		var parts []string
		for _, e := range t.Embeds {
			parts = append(parts, q(e))
		}
		for _, m := range t.Methods {
			parts = append(parts, m.Name+m.Sig.sig(pkg, imports))
		}
		return "interface{" + strings.Join(parts, "; ") + "}"
	}
	panic("typegen: bad kind " + t.K)
}

func (t *Ty) sig(pkg string, imports map[string]bool) string {
	var ps, rs []string
	for i, e := range t.Elems {
		s := e.Print(pkg, imports)
		if i < t.NParams {
			if t.Variadic && i == t.NParams-1 {
				s = "..." + e.Elems[0].Print(pkg, imports) // stored as slice
			}
			ps = append(ps, s)
		} else {
			rs = append(rs, s)
		}
	}
	out := "(" + strings.Join(ps, ", ") + ")"
	switch len(rs) {
	case 0:
	case 1:
		out += " " + rs[0]
	default:
		out += " (" + strings.Join(rs, ", ") + ")"
	}
	return out
}

// ---- generation ----

var basics = []string{"bool", "int", "int8", "int16", "int32", "int64", "uint", "uint8", "uint16", "uint32", "uint64", "uintptr",
	"float32", "float64", "complex64", "complex128", "string", "unsafe.Pointer", "byte", "rune", "error", "any"}
var keyBasics = []string{"bool", "int", "int8", "uint16", "int64", "uintptr", "float64", "complex64", "string", "unsafe.Pointer", "byte"}

// Decl is one named type declared in a generated package.
type Decl struct {
	Pkg, Name string
	TParams   int // >0: generic with that many type parameters (constraint any)
	Under     *Ty
	IsAlias   bool
	IsIface   bool
	Methods   []string // method declarations (source), receiver spelled R / *R
}

type Gen struct {
	t      *rapid.T
	Pkgs   []string
	Decls  []*Decl // all packages
	byPkg  map[string][]*Decl
	maxDep int
}

func (g *Gen) pick(n int, label string) int { return rapid.IntRange(0, n-1).Draw(g.t, label) }

// namedRefs: non-generic, non-interface named types visible (all packages; import graph is a DAG by index)
func (g *Gen) visible(pkg string, want func(*Decl) bool) []*Decl {
	var out []*Decl
	pi := indexOf(g.Pkgs, pkg)
	for _, d := range g.Decls {
		if indexOf(g.Pkgs, d.Pkg) <= pi && want(d) && (d.Pkg == pkg || isExported(d.Name)) {
			out = append(out, d)
		}
	}
	return out
}

func indexOf(l []string, s string) int {
	for i, x := range l {
		if x == s {
			return i
		}
	}
	return -1
}

func isExported(n string) bool { return n != "" && n[0] >= 'A' && n[0] <= 'Z' }

// Type draws a type expression usable in package pkg (tparams: names of type parameters in scope).
func (g *Gen) Type(pkg string, depth int, tparams []string) *Ty {
	k := 0
	if depth >= g.maxDep {
		k = g.pick(3, "leafkind")
	} else {
		k = g.pick(14, "kind")
	}
	switch k {
	case 0, 3:
		return &Ty{K: "basic", Name: rapid.SampledFrom(basics).Draw(g.t, "basic")}
	case 1, 4:
		if len(tparams) > 0 && g.pick(2, "usetp") == 0 {
			return &Ty{K: "named", Name: "." + rapid.SampledFrom(tparams).Draw(g.t, "tp")}
		}
		ds := g.visible(pkg, func(d *Decl) bool { return d.TParams == 0 })
		if len(ds) == 0 {
			return &Ty{K: "basic", Name: "int"}
		}
		d := ds[g.pick(len(ds), "named")]
		return &Ty{K: "named", Name: d.Pkg + "." + d.Name}
	case 2, 5:
		ds := g.visible(pkg, func(d *Decl) bool { return d.TParams > 0 })
		if len(ds) == 0 || depth >= g.maxDep {
			return &Ty{K: "basic", Name: "string"}
		}
		d := ds[g.pick(len(ds), "generic")]
		t := &Ty{K: "inst", Name: d.Pkg + "." + d.Name}
		for i := 0; i < d.TParams; i++ {
			t.Elems = append(t.Elems, g.Type(pkg, depth+1, tparams))
		}
		return t
	case 6:
		return &Ty{K: "ptr", Elems: []*Ty{g.Type(pkg, depth+1, tparams)}}
	case 7:
		return &Ty{K: "slice", Elems: []*Ty{g.Type(pkg, depth+1, tparams)}}
	case 8:
		return &Ty{K: "array", N: rapid.SampledFrom([]int{0, 1, 2, 3, 7}).Draw(g.t, "alen"), Elems: []*Ty{g.Type(pkg, depth+1, tparams)}}
	case 9:
		return &Ty{K: "map", Elems: []*Ty{g.keyType(pkg), g.Type(pkg, depth+1, tparams)}}
	case 10:
		return &Ty{K: "chan", Dir: g.pick(3, "dir"), Elems: []*Ty{g.Type(pkg, depth+1, tparams)}}
	case 11:
		return g.funcType(pkg, depth, tparams)
	case 12:
		return g.structType(pkg, depth, tparams)
	default:
		return g.ifaceType(pkg, depth, tparams)
	}
}

func (g *Gen) keyType(pkg string) *Ty {
	switch g.pick(4, "keykind") {
	case 0:
		return &Ty{K: "ptr", Elems: []*Ty{{K: "basic", Name: "int"}}}
	case 1:
		return &Ty{K: "array", N: 2, Elems: []*Ty{{K: "basic", Name: rapid.SampledFrom(keyBasics).Draw(g.t, "kb")}}}
	}
	return &Ty{K: "basic", Name: rapid.SampledFrom(keyBasics).Draw(g.t, "kb")}
}

func (g *Gen) funcType(pkg string, depth int, tparams []string) *Ty {
	t := &Ty{K: "func"}
	t.NParams = g.pick(4, "nparams")
	nres := g.pick(3, "nres")
	for i := 0; i < t.NParams+nres; i++ {
		t.Elems = append(t.Elems, g.Type(pkg, depth+1, tparams))
	}
	if t.NParams > 0 && g.pick(3, "variadic") == 0 {
		t.Variadic = true
		last := t.Elems[t.NParams-1]
		if last.K != "slice" {
			t.Elems[t.NParams-1] = &Ty{K: "slice", Elems: []*Ty{last}}
		}
	}
	return t
}

var fieldNames = []string{"A", "B", "C", "a", "b", "x", "Next", "_", "X1"}
var tags = []string{"", "", `json:"a"`, `json:"b"`, `k:"1"`}

func (g *Gen) structType(pkg string, depth int, tparams []string) *Ty {
	t := &Ty{K: "struct"}
	n := g.pick(5, "nfields")
	used := map[string]bool{}
	for i := 0; i < n; i++ {
		if g.pick(4, "embed") == 0 { // embedded field: named type or pointer to named non-interface, non-pointer type
			ds := g.visible(pkg, func(d *Decl) bool { return d.TParams == 0 })
			if len(ds) > 0 {
				d := ds[g.pick(len(ds), "embedded")]
				okKind := map[string]bool{"struct": true, "iface": true, "slice": true, "map": true, "array": true, "func": true, "chan": true, "basic": true}
				if !used[d.Name] && okKind[d.Under.K] && d.Under.Name != "unsafe.Pointer" {
					used[d.Name] = true
					ft := &Ty{K: "named", Name: d.Pkg + "." + d.Name}
					if !d.IsIface && d.Under.K != "iface" && g.pick(2, "embedptr") == 0 {
						ft = &Ty{K: "ptr", Elems: []*Ty{ft}}
					}
					t.Fields = append(t.Fields, Field{Name: d.Name, T: ft, Embedded: true, Tag: rapid.SampledFrom(tags).Draw(g.t, "tag")})
					continue
				}
			}
		}
		if g.pick(7, "embedbasic") == 0 { // embedded predeclared type: the field is named after it (unexported!)
			bn := rapid.SampledFrom([]string{"int", "string", "byte", "uint8", "uint16", "rune", "int32", "float64", "error", "bool"}).Draw(g.t, "ebasic")
			if !used[bn] {
				used[bn] = true
				t.Fields = append(t.Fields, Field{Name: bn, T: &Ty{K: "basic", Name: bn}, Embedded: true, Tag: rapid.SampledFrom(tags).Draw(g.t, "tag")})
				continue
			}
		}
		name := rapid.SampledFrom(fieldNames).Draw(g.t, "fname")
		if used[name] && name != "_" {
			continue
		}
		used[name] = true
		t.Fields = append(t.Fields, Field{Name: name, T: g.Type(pkg, depth+1, tparams), Tag: rapid.SampledFrom(tags).Draw(g.t, "tag")})
	}
	return t
}

var methodNames = []string{"M", "N", "String", "m", "n", "Get"}

func (g *Gen) ifaceType(pkg string, depth int, tparams []string) *Ty {
	t := &Ty{K: "iface"}
	n := g.pick(4, "nmethods")
	used := map[string]bool{}
	if g.pick(3, "embediface") == 0 {
		ds := g.visible(pkg, func(d *Decl) bool { return d.IsIface && d.TParams == 0 && !d.IsAlias })
		if len(ds) > 0 {
			d := ds[g.pick(len(ds), "eiface")]
			t.Embeds = append(t.Embeds, d.Pkg+"."+d.Name)
			for _, m := range d.Under.Methods {
				used[m.Name] = true
			}
			for _, e := range d.Under.Embeds { // conservative: avoid clashes with inherited methods
				for _, dd := range g.Decls {
					if dd.Pkg+"."+dd.Name == e {
						for _, m := range dd.Under.Methods {
							used[m.Name] = true
						}
					}
				}
			}
			if len(d.Under.Embeds) > 0 {
				for _, mn := range methodNames {
					used[mn] = true
				}
			}
		}
	}
	for i := 0; i < n; i++ {
		name := rapid.SampledFrom(methodNames).Draw(g.t, "mname")
		if used[name] {
			continue
		}
		used[name] = true
		t.Methods = append(t.Methods, Method{name, g.funcType(pkg, depth+1, tparams)})
	}
	return t
}

// Pool is a type-checked set of generated types.
type Pool struct {
	Pkgs    map[string]*types.Package
	Fset    *token.FileSet
	Files   map[string]*ast.File
	Infos   map[string]*types.Info
	Source  map[string]string
	Entries []Entry
}

type Entry struct {
	Label string // where it came from: "p1.V3", "p0.N2", "p1.f0.L1", mutant description
	Type  types.Type
	Class string // base / mutant kind / local / named
}

type varDecl struct {
	pkg, name string
	t         *Ty
	class     string
}

// Generate draws 2-3 packages of declarations, variables of composite types and near-miss mutants,
// and type-checks everything. An error means the generated source was invalid Go (a generator
// limitation, e.g. a mutation produced an illegal embedded field): the caller skips and counts it.
func Generate(t *rapid.T, maxDepth int) (*Pool, error) {
	g := &Gen{t: t, byPkg: map[string][]*Decl{}, maxDep: maxDepth}
	npk := rapid.IntRange(2, 3).Draw(t, "npkgs")
	for i := 0; i < npk; i++ {
		g.Pkgs = append(g.Pkgs, fmt.Sprintf("p%d", i))
	}
	// named declarations
	for _, pkg := range g.Pkgs {
		nd := rapid.IntRange(2, 6).Draw(t, "ndecls")
		for i := 0; i < nd; i++ {
			name := fmt.Sprintf("N%d", i)
			if g.pick(4, "unexported") == 0 {
				name = fmt.Sprintf("n%d", i)
			}
			if g.pick(5, "samename") == 0 {
				name = "T" // the same name in several packages
				dup := false
				for _, d := range g.byPkg[pkg] {
					if d.Name == "T" {
						dup = true
					}
				}
				if dup {
					name = fmt.Sprintf("N%d", i)
				}
			}
			d := &Decl{Pkg: pkg, Name: name}
			switch g.pick(8, "declkind") {
			case 0: // generic
				d.TParams = rapid.IntRange(1, 2).Draw(t, "ntparams")
				tps := []string{"P", "Q"}[:d.TParams]
				d.Under = g.structType(pkg, 1, tps)
			case 1: // alias
				d.IsAlias = true
				d.Under = g.Type(pkg, 1, nil)
				if d.Under.K == "iface" {
					d.IsIface = true
				}
			case 2:
				d.Under = g.ifaceType(pkg, 1, nil)
				d.IsIface = true
			case 3, 4:
				d.Under = g.structType(pkg, 1, nil)
			default:
				d.Under = g.Type(pkg, 1, nil)
				if d.Under.K == "iface" {
					d.IsIface = true
				}
				if d.Under.K == "named" || d.Under.K == "inst" {
					// type N X where X may be an interface: find out
					for _, o := range g.Decls {
						if o.Pkg+"."+o.Name == d.Under.Name && o.IsIface {
							d.IsIface = true
						}
					}
				}
			}
			g.Decls = append(g.Decls, d)
			g.byPkg[pkg] = append(g.byPkg[pkg], d)
		}
	}
	// variables of drawn composite types, each with near-miss mutants (possibly placed in another package)
	var vars []varDecl
	nv := rapid.IntRange(3, 8).Draw(t, "nvars")
	for i := 0; i < nv; i++ {
		pkg := g.Pkgs[g.pick(len(g.Pkgs), "varpkg")]
		base := g.Type(pkg, 0, nil)
		vars = append(vars, varDecl{pkg, fmt.Sprintf("V%d", len(vars)), base, "base"})
		// identical copy written a second time, maybe in another package that can see the same names
		if cp := g.Pkgs[g.pick(len(g.Pkgs), "copypkg")]; indexOf(g.Pkgs, cp) >= indexOf(g.Pkgs, pkg) && exportedOnly(base, pkg, cp) {
			vars = append(vars, varDecl{cp, fmt.Sprintf("V%d", len(vars)), base.clone(), "copy"})
		}
		nm := rapid.IntRange(1, 3).Draw(t, "nmutants")
		for m := 0; m < nm; m++ {
			mt, kind := g.mutate(base.clone(), pkg)
			if mt != nil {
				vars = append(vars, varDecl{pkg, fmt.Sprintf("V%d", len(vars)), mt, "mutant:" + kind})
			}
		}
	}
	// function-local types: equal names in different functions / nested scopes
	type localFn struct {
		pkg  string
		body string
	}
	var locals []localFn
	nf := rapid.IntRange(0, 3).Draw(t, "nlocalfuncs")
	for i := 0; i < nf; i++ {
		pkg := g.Pkgs[g.pick(len(g.Pkgs), "lpkg")]
		imports := map[string]bool{}
		var b strings.Builder
		nl := rapid.IntRange(1, 3).Draw(t, "nlocals")
		usedTop := map[string]bool{}
		for j := 0; j < nl; j++ {
			lt := g.structType(pkg, 2, nil)
			name := rapid.SampledFrom([]string{"L", "L", "M"}).Draw(t, "lname")
			open, close := "", ""
			if g.pick(2, "nested") == 0 || usedTop[name] {
				open, close = "{ ", " }"
			} else {
				usedTop[name] = true
			}
			fmt.Fprintf(&b, "\t%stype %s %s; var v%d %s; _ = v%d%s\n", open, name, lt.Print(pkg, imports), j, name, j, close)
		}
		locals = append(locals, localFn{pkg, b.String()})
		_ = imports
	}

	// ---- emit source ----
	pool := &Pool{Pkgs: map[string]*types.Package{}, Fset: token.NewFileSet(), Files: map[string]*ast.File{}, Infos: map[string]*types.Info{}, Source: map[string]string{}}
	for _, pkg := range g.Pkgs {
		imports := map[string]bool{}
		var body strings.Builder
		for _, d := range g.byPkg[pkg] {
			tp := ""
			if d.TParams > 0 {
				tp = "[" + strings.Join([]string{"P", "Q"}[:d.TParams], ", ") + " any]"
			}
			eq := ""
			if d.IsAlias {
				eq = "= "
			}
			fmt.Fprintf(&body, "type %s%s %s%s\n", d.Name, tp, eq, d.Under.Print(pkg, imports))
		}
		for _, v := range vars {
			if v.pkg == pkg {
				fmt.Fprintf(&body, "var %s %s // %s\n", v.name, v.t.Print(pkg, imports), v.class)
			}
		}
		fi := 0
		for _, lf := range locals {
			if lf.pkg == pkg {
				imps := map[string]bool{}
				_ = imps
				fmt.Fprintf(&body, "func f%d() {\n%s}\n", fi, lf.body)
				fi++
			}
		}
		// re-scan local bodies for imports (Print registered them in a throw-away map): recompute simply
		src := body.String()
		var head strings.Builder
		fmt.Fprintf(&head, "package %s\n\n", pkg)
		for _, other := range append([]string{"unsafe"}, g.Pkgs...) {
			if other != pkg && (imports[other] || strings.Contains(src, other+".")) {
				if other == "unsafe" {
					fmt.Fprintf(&head, "import \"unsafe\"\n")
				} else {
					fmt.Fprintf(&head, "import %q\n", "example.com/m/"+other)
				}
			}
		}
		pool.Source[pkg] = head.String() + "\n" + src
	}
	// ---- type-check in dependency order ----
	std := importer.Default()
	imp := importerFunc(func(path string) (*types.Package, error) {
		if p, ok := pool.Pkgs[strings.TrimPrefix(path, "example.com/m/")]; ok {
			return p, nil
		}
		return std.Import(path)
	})
	for _, pkg := range g.Pkgs {
		f, err := parser.ParseFile(pool.Fset, pkg+".go", pool.Source[pkg], parser.ParseComments)
		if err != nil {
			return nil, fmt.Errorf("typegen: generated source does not parse: %v\n%s", err, pool.Source[pkg])
		}
		info := &types.Info{Defs: map[*ast.Ident]types.Object{}, Types: map[ast.Expr]types.TypeAndValue{}}
		conf := types.Config{Importer: imp}
		tp, err := conf.Check("example.com/m/"+pkg, pool.Fset, []*ast.File{f}, info)
		if err != nil {
			return nil, fmt.Errorf("typegen: generated source does not type-check: %v\n%s", err, pool.Source[pkg])
		}
		pool.Pkgs[pkg] = tp
		pool.Files[pkg] = f
		pool.Infos[pkg] = info
	}
	// ---- collect entries ----
	for _, v := range vars {
		obj := pool.Pkgs[v.pkg].Scope().Lookup(v.name)
		pool.Entries = append(pool.Entries, Entry{Label: v.pkg + "." + v.name + " " + v.t.Print(v.pkg, map[string]bool{}), Type: obj.Type(), Class: v.class})
	}
	for _, d := range g.Decls {
		if d.TParams > 0 {
			continue
		}
		obj := pool.Pkgs[d.Pkg].Scope().Lookup(d.Name)
		cls := "named"
		if d.IsAlias {
			cls = "alias"
		}
		pool.Entries = append(pool.Entries, Entry{Label: d.Pkg + "." + d.Name, Type: obj.Type(), Class: cls})
	}
	for _, pkg := range g.Pkgs {
		var ids []*ast.Ident
		for id, obj := range pool.Infos[pkg].Defs {
			if tn, ok := obj.(*types.TypeName); ok && tn.Parent() != pool.Pkgs[pkg].Scope() && tn.Parent() != nil {
				if _, isTP := tn.Type().(*types.TypeParam); !isTP {
					ids = append(ids, id)
				}
			}
		}
		sort.Slice(ids, func(i, j int) bool { return ids[i].Pos() < ids[j].Pos() })
		for _, id := range ids {
			obj := pool.Infos[pkg].Defs[id]
			pool.Entries = append(pool.Entries, Entry{Label: fmt.Sprintf("%s local %s @%v", pkg, id.Name, pool.Fset.Position(id.Pos())), Type: obj.Type(), Class: "local"})
		}
	}
	return pool, nil
}

type importerFunc func(path string) (*types.Package, error)

func (f importerFunc) Import(path string) (*types.Package, error) { return f(path) }

// exportedOnly: can the expression be written verbatim in package to (defined in from)?
func exportedOnly(t *Ty, from, to string) bool {
	if from == to {
		return true
	}
	ok := true
	var walk func(*Ty)
	walk = func(x *Ty) {
		if x == nil {
			return
		}
		if x.K == "named" || x.K == "inst" {
			_, n, _ := strings.Cut(x.Name, ".")
			if !isExported(n) {
				ok = false
			}
		}
		for _, e := range x.Embeds {
			_, n, _ := strings.Cut(e, ".")
			if !isExported(n) {
				ok = false
			}
		}
		for _, e := range x.Elems {
			walk(e)
		}
		for _, f := range x.Fields {
			walk(f.T)
		}
		for _, m := range x.Methods {
			walk(m.Sig)
		}
	}
	walk(t)
	return ok
}

// mutate applies one single-attribute edit somewhere in t; returns nil if nothing applicable was found.
func (g *Gen) mutate(t *Ty, pkg string) (*Ty, string) {
	var sites []*Ty
	var walk func(*Ty)
	walk = func(x *Ty) {
		if x == nil {
			return
		}
		sites = append(sites, x)
		for _, e := range x.Elems {
			walk(e)
		}
		for i := range x.Fields {
			walk(x.Fields[i].T)
		}
		for i := range x.Methods {
			walk(x.Methods[i].Sig)
		}
	}
	walk(t)
	for try := 0; try < 6; try++ {
		x := sites[g.pick(len(sites), "site")]
		switch x.K {
		case "array":
			x.N++
			return t, "array_len"
		case "chan":
			x.Dir = (x.Dir + 1 + g.pick(2, "dirstep")) % 3
			return t, "chan_dir"
		case "func":
			switch g.pick(4, "fmut") {
			case 0:
				if x.NParams > 0 && x.Elems[x.NParams-1].K == "slice" {
					x.Variadic = !x.Variadic
					return t, "variadic_vs_slice"
				}
			case 1:
				if x.NParams >= 2 {
					x.Elems[0], x.Elems[1] = x.Elems[1], x.Elems[0]
					if x.Variadic && x.NParams == 2 {
						x.Variadic = false
					}
					return t, "param_order"
				}
			case 2:
				x.Elems = append(x.Elems, &Ty{K: "basic", Name: "int"})
				return t, "result_count"
			case 3:
				if x.NParams < len(x.Elems) && !x.Variadic { // move first result to params
					x.NParams++
					return t, "result_to_param"
				}
			}
		case "struct":
			if len(x.Fields) == 0 {
				x.Fields = append(x.Fields, Field{Name: "_", T: &Ty{K: "struct"}})
				return t, "empty_vs_blank_field"
			}
			i := g.pick(len(x.Fields), "fidx")
			f := &x.Fields[i]
			switch g.pick(5, "smut") {
			case 0:
				if !f.Embedded {
					nn := f.Name + "z"
					if f.Name == "_" {
						nn = "Zz"
					}
					f.Name = nn
					return t, "field_name"
				}
			case 1:
				if f.Tag == "" {
					f.Tag = `json:"z"`
				} else {
					f.Tag = ""
				}
				return t, "field_tag"
			case 2:
				if f.Embedded {
					f.Embedded = false // same name, now an ordinary field
					return t, "embedded_vs_named_field"
				}
			case 3:
				if len(x.Fields) >= 2 {
					j := (i + 1) % len(x.Fields)
					x.Fields[i], x.Fields[j] = x.Fields[j], x.Fields[i]
					return t, "field_order"
				}
			case 4:
				if !f.Embedded && f.Name != "_" {
					if isExported(f.Name) {
						f.Name = strings.ToLower(f.Name[:1]) + f.Name[1:] + "q"
					} else {
						f.Name = strings.ToUpper(f.Name[:1]) + f.Name[1:] + "q"
					}
					return t, "field_exportedness"
				}
			}
		case "iface":
			if len(x.Methods) > 0 {
				i := g.pick(len(x.Methods), "midx")
				switch g.pick(2, "imut") {
				case 0:
					x.Methods[i].Name += "z"
					return t, "method_name"
				case 1:
					x.Methods[i].Sig.Elems = append(x.Methods[i].Sig.Elems, &Ty{K: "basic", Name: "bool"})
					return t, "method_result"
				}
			} else {
				x.Methods = append(x.Methods, Method{"Extra", &Ty{K: "func"}})
				return t, "method_added"
			}
		case "basic":
			alt := map[string]string{"int": "int64", "int32": "rune", "uint8": "byte", "byte": "uint8", "rune": "int32", "uint": "uintptr", "float32": "float64", "any": "error", "string": "bool"}
			if a, ok := alt[x.Name]; ok {
				x.Name = a
				return t, "basic_" + a
			}
		case "named":
			ds := g.visible(pkg, func(d *Decl) bool { return d.TParams == 0 })
			if len(ds) > 1 && !strings.HasPrefix(x.Name, ".") {
				d := ds[g.pick(len(ds), "othernamed")]
				if d.Pkg+"."+d.Name != x.Name {
					x.Name = d.Pkg + "." + d.Name
					return t, "other_named"
				}
			}
		case "inst":
			if len(x.Elems) > 0 {
				x.Elems[0] = &Ty{K: "ptr", Elems: []*Ty{x.Elems[0]}}
				return t, "type_argument"
			}
		case "ptr":
			*x = *x.Elems[0]
			return t, "pointer_removed"
		case "slice":
			x.K, x.N = "array", 1
			return t, "slice_vs_array"
		case "map":
			x.Elems[1] = &Ty{K: "ptr", Elems: []*Ty{x.Elems[1]}}
			return t, "map_elem"
		}
	}
	return nil, ""
}
