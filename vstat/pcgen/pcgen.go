// Package pcgen generates pkg-config style flag lists and renders them the way
// xtool/safesplit documents they are written (shared by the C17 tests injected into
// xtool/safesplit, xtool/env and internal/clang).
package pcgen

import (
	"strings"

	"pgregory.net/rapid"
)

var valAlphabet = []rune{' ', ' ', '\t', '\\', '-', '-', 'a', 'b', 'L', '/', '/', '.', '=', ',', '"', '\'', 'é', '世', '0', '_'}

// Flag draws "-" + letter + value. The value does not start with '-' (it would read as the next
// flag), does not end in a blank (not representable: the splitter trims) nor in a backslash (it
// would escape the separator), and holds no '$' (pkg-config output is later passed through os.Expand).
func Flag(t *rapid.T) string {
	letter := rapid.SampledFrom([]rune("ILlDWfgOmpx")).Draw(t, "letter")
	n := rapid.IntRange(0, 8).Draw(t, "vlen")
	rs := make([]rune, 0, n)
	for i := 0; i < n; i++ {
		rs = append(rs, rapid.SampledFrom(valAlphabet).Draw(t, "vr"))
	}
	for len(rs) > 0 && rs[0] == '-' {
		rs = rs[1:]
	}
	for len(rs) > 0 && (rs[len(rs)-1] == ' ' || rs[len(rs)-1] == '\t' || rs[len(rs)-1] == '\\') {
		rs = rs[:len(rs)-1]
	}
	return "-" + string(letter) + string(rs)
}

func Flags(t *rapid.T, max int) []string {
	n := rapid.IntRange(0, max).Draw(t, "nflags")
	var fs []string
	for i := 0; i < n; i++ {
		fs = append(fs, Flag(t))
	}
	return fs
}

func Nontrivial(flags []string) bool {
	for _, f := range flags {
		if strings.ContainsAny(f[2:], " \t\\") {
			return true
		}
	}
	return false
}

func blanks(t *rapid.T, min int) string {
	n := rapid.IntRange(min, 3).Draw(t, "nb")
	var b strings.Builder
	for i := 0; i < n; i++ {
		b.WriteString(rapid.SampledFrom([]string{" ", " ", "\t"}).Draw(t, "b"))
	}
	return b.String()
}

// Render writes flags as one line. Blanks inside a value are escaped with a backslash; a single
// space that is followed by neither a blank nor '-' may also be left as it is (the documented
// "spaces in path" form); flags are separated by 1..3 blanks; blanks may follow the flag letter.
// With plain=true the canonical form is produced (single space separators, everything escaped).
func Render(t *rapid.T, flags []string, plain bool) string {
	var b strings.Builder
	if !plain {
		b.WriteString(blanks(t, 0))
	}
	for i, f := range flags {
		if i > 0 {
			if plain {
				b.WriteByte(' ')
			} else {
				b.WriteString(blanks(t, 1))
			}
		}
		b.WriteString(f[:2])
		val := []rune(f[2:])
		if !plain && len(val) > 0 && val[0] != ' ' && val[0] != '\t' && rapid.IntRange(0, 3).Draw(t, "gap") == 0 {
			b.WriteString(blanks(t, 1)) // "-I /path": blanks after the flag letter are ignored
		}
		for j, r := range val {
			if r == ' ' || r == '\t' {
				bare := !plain && r == ' ' && j > 0 && val[j-1] != '\\' && j+1 < len(val) && val[j+1] != ' ' && val[j+1] != '\t' && val[j+1] != '-' &&
					rapid.IntRange(0, 2).Draw(t, "bare") == 0
				if !bare {
					b.WriteByte('\\')
				}
			}
			b.WriteRune(r)
		}
	}
	if !plain {
		b.WriteString(blanks(t, 0))
	}
	return b.String()
}
