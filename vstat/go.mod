module verifstat

go 1.23
