module verifstat

go 1.23

require pgregory.net/rapid v1.3.0
