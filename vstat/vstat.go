// Package verifstat is the dependency-free statistics / findings collector shared by every
// check (injected tests compiled inside /repo's module and harness tests alike).
// A test process writes one partial-stats JSON file ($VERIF_STATS); the driver merges them
// into /verif/evidence/<ID>.json.
package verifstat

import (
	"encoding/binary"
	"encoding/json"
	"fmt"
	"hash/fnv"
	"os"
	"path/filepath"
	"sort"
	"sync"
	"time"
)

// Finding is one entry of /verif/known_findings.json.
type Finding struct {
	Property string `json:"property"`
	Key      string `json:"key"`
	Status   string `json:"status"` // "known" or "fixed"
	Commit   string `json:"commit,omitempty"`
	What     string `json:"what_fails"`
	Witness  any    `json:"witness,omitempty"`
}

type Violation struct {
	Key    string `json:"key"`
	Msg    string `json:"msg"`
	Replay string `json:"replay"`
}

type Partial struct {
	Property    string         `json:"property"`
	Evaluations int64          `json:"evaluations"`
	Hashes      []uint64       `json:"hashes"` // distinct non-trivial case hashes (capped)
	HashesCap   bool           `json:"hashes_capped"`
	Nontrivial  int64          `json:"nontrivial_total"`
	Classes     map[string]int `json:"classes"`
	Skipped     map[string]int `json:"skipped"`
	Excluded    map[string]int `json:"excluded_known"`
	Known       map[string]int `json:"known_hits"`
	Samples     []any          `json:"samples"`
	Violations  []Violation    `json:"violations"`
	Notes       []string       `json:"notes"`
	Exhaustive  bool           `json:"exhaustive"`
	WallS       float64        `json:"wall_s"`
}

type Collector struct {
	mu      sync.Mutex
	p       Partial
	seen    map[uint64]struct{}
	start   time.Time
	maxSamp int
	sampCalls int
	known   map[string]Finding
}

const hashCap = 4 << 20

var (
	globalMu sync.Mutex
	global   = map[string]*Collector{}
)

// For returns the process-wide collector of a property (created on first use).
func For(property string) *Collector {
	globalMu.Lock()
	defer globalMu.Unlock()
	if c, ok := global[property]; ok {
		return c
	}
	c := &Collector{seen: map[uint64]struct{}{}, start: time.Now(), maxSamp: 24, known: map[string]Finding{}}
	c.p.Property = property
	c.p.Classes = map[string]int{}
	c.p.Skipped = map[string]int{}
	c.p.Excluded = map[string]int{}
	c.p.Known = map[string]int{}
	if f := os.Getenv("VERIF_FINDINGS"); f != "" {
		if b, err := os.ReadFile(f); err == nil {
			var fs []Finding
			if json.Unmarshal(b, &fs) == nil {
				for _, x := range fs {
					if x.Property == property && x.Status == "known" {
						c.known[x.Key] = x
					}
				}
			}
		}
	}
	global[property] = c
	return c
}

// Hash is a convenience FNV-1a over the fmt.Sprint of its arguments.
func Hash(parts ...any) uint64 {
	h := fnv.New64a()
	for _, p := range parts {
		switch v := p.(type) {
		case string:
			h.Write([]byte(v))
		case []byte:
			h.Write(v)
		case uint64:
			var b [8]byte
			binary.LittleEndian.PutUint64(b[:], v)
			h.Write(b[:])
		default:
			fmt.Fprint(h, v)
		}
		h.Write([]byte{0})
	}
	return h.Sum64()
}

// Case records one generated-and-executed case. hash identifies it (for the distinct count);
// nontrivial is the verdict of the property-specific rule; classes are generator-distribution labels.
func (c *Collector) Case(hash uint64, nontrivial bool, classes ...string) {
	c.mu.Lock()
	defer c.mu.Unlock()
	c.p.Evaluations++
	for _, k := range classes {
		c.p.Classes[k]++
	}
	if nontrivial {
		c.p.Nontrivial++
		if _, ok := c.seen[hash]; !ok {
			if len(c.seen) < hashCap {
				c.seen[hash] = struct{}{}
			} else {
				c.p.HashesCap = true
			}
		}
	}
}

// Bulk records n evaluations of which nt are distinct non-trivial cases enumerated without repetition
// (used by exhaustive enumerations where storing a hash per case is pointless). base seeds synthetic hashes.
func (c *Collector) Bulk(n, nt int64, class string) {
	c.mu.Lock()
	defer c.mu.Unlock()
	c.p.Evaluations += n
	c.p.Nontrivial += nt
	c.p.Classes[class] += int(n)
	c.p.Classes["bulk_distinct_nontrivial"] += int(nt)
}

func (c *Collector) Class(name string) { c.ClassN(name, 1) }
func (c *Collector) ClassN(name string, n int) {
	c.mu.Lock()
	c.p.Classes[name] += n
	c.mu.Unlock()
}
func (c *Collector) Skip(kind string) {
	c.mu.Lock()
	c.p.Skipped[kind]++
	c.mu.Unlock()
}
func (c *Collector) Exclude(key string) {
	c.mu.Lock()
	c.p.Excluded[key]++
	c.mu.Unlock()
}
func (c *Collector) Note(s string) {
	c.mu.Lock()
	if len(c.p.Notes) < 20 {
		c.p.Notes = append(c.p.Notes, s)
	}
	c.mu.Unlock()
}
func (c *Collector) SetExhaustive(b bool) { c.mu.Lock(); c.p.Exhaustive = b; c.mu.Unlock() }

// Sample keeps up to maxSamp example cases (first few, then reservoir-free: later ones are dropped).
func (c *Collector) Sample(v any) {
	c.mu.Lock()
	c.sampCalls++
	n := c.sampCalls
	if n >= 4 && n&(n-1) == 0 && len(c.p.Samples) < c.maxSamp { // calls 4, 8, 16, …: spread over the run
		c.p.Samples = append(c.p.Samples, v)
	}
	c.mu.Unlock()
}

// SampleNow keeps v unconditionally (for checks with few, expensive cases).
func (c *Collector) SampleNow(v any) {
	c.mu.Lock()
	if len(c.p.Samples) < c.maxSamp {
		c.p.Samples = append(c.p.Samples, v)
	}
	c.mu.Unlock()
}

// IsKnown reports whether key is listed as a known (unrepaired) finding of this property.
func (c *Collector) IsKnown(key string) bool {
	c.mu.Lock()
	defer c.mu.Unlock()
	_, ok := c.known[key]
	return ok
}

// KnownHit records that a listed finding was observed again.
func (c *Collector) KnownHit(key string) {
	c.mu.Lock()
	c.p.Known[key]++
	c.mu.Unlock()
}

// Report handles a violation with the given key: listed ⇒ counted as known hit, returns false;
// otherwise a replay file is written and true is returned (the caller should then fail the test).
func (c *Collector) Report(key, msg string, replay any) bool {
	if c.IsKnown(key) {
		c.KnownHit(key)
		return false
	}
	path := c.WriteReplay(key, replay)
	c.mu.Lock()
	if len(c.p.Violations) < 50 {
		c.p.Violations = append(c.p.Violations, Violation{Key: key, Msg: msg, Replay: path})
	}
	c.mu.Unlock()
	c.Flush()
	return true
}

func (c *Collector) WriteReplay(key string, replay any) string {
	dir := os.Getenv("VERIF_REPLAY_DIR")
	if dir == "" {
		dir = os.TempDir()
	}
	os.MkdirAll(dir, 0o755)
	b, _ := json.MarshalIndent(map[string]any{"property": c.p.Property, "key": key, "case": replay}, "", " ")
	path := filepath.Join(dir, fmt.Sprintf("%s-%016x.json", c.p.Property, Hash(string(b))))
	os.WriteFile(path, b, 0o644)
	return path
}

// Flush writes the partial stats to $VERIF_STATS (no-op when unset). Safe to call repeatedly.
func (c *Collector) Flush() {
	out := os.Getenv("VERIF_STATS")
	if out == "" {
		return
	}
	c.mu.Lock()
	defer c.mu.Unlock()
	c.p.Hashes = c.p.Hashes[:0]
	for h := range c.seen {
		c.p.Hashes = append(c.p.Hashes, h)
	}
	sort.Slice(c.p.Hashes, func(i, j int) bool { return c.p.Hashes[i] < c.p.Hashes[j] })
	c.p.WallS = time.Since(c.start).Seconds()
	b, err := json.Marshal(&c.p)
	if err != nil {
		fmt.Fprintln(os.Stderr, "vstat: marshal:", err)
		return
	}
	tmp := out + ".tmp"
	if err := os.WriteFile(tmp, b, 0o644); err == nil {
		os.Rename(tmp, out)
	}
}

// FlushAll flushes every collector; several properties in one process write <VERIF_STATS>.<prop>.
func FlushAll() {
	globalMu.Lock()
	cs := make([]*Collector, 0, len(global))
	for _, c := range global {
		cs = append(cs, c)
	}
	globalMu.Unlock()
	for _, c := range cs {
		c.Flush()
	}
}
