// Package verifsched is a deterministic cooperative scheduler. The runtime source files lifted from
// /repo (z_chan.go, sema_llgo.go) reach synchronisation only through stand-in packages that call into
// this scheduler, so the interleaving – including which waiter a Signal wakes and whether a Cond
// waiter wakes spuriously – is a pure function of a choice sequence (rapid draws, or a recorded list).
package verifsched

import "fmt"

// Chooser supplies every scheduling decision.
type Chooser interface {
	Choose(n int, label string) int // returns 0..n-1
}

type state int

const (
	runnable state = iota
	blockedMutex
	blockedCond
	blockedForever // select{} etc.
	done
)

type Thread struct {
	ID      int
	st      state
	resume  chan bool // true = abort
	on      any       // *Mutex or *Cond it is blocked on
	relock  *Mutex    // mutex to re-acquire after a cond wake-up
	Panic   any       // value the thread's function panicked with (nil if none)
	CurOp   any       // set by the script: description of the operation in progress
	prio    int
}

type Mutex struct {
	held  bool
	owner int
}

type Cond struct {
	waiters []*Thread
}

type Sched struct {
	ch        Chooser
	threads   []*Thread
	cur       *Thread
	yielded   chan struct{}
	Steps     int
	MaxSteps  int
	Spurious  int // remaining budget of spurious wake-ups
	Switches  int // context switches performed
	Violation string
	PCT       bool
	pctPoints map[int]bool
	Trace     []string
	KeepTrace bool
	signalReq *Cond // a Signal issued by the running thread; the scheduler chooses the waiter
}

var current *Sched

// Cur returns the scheduler of the running case (stand-ins call it).
func Cur() *Sched { return current }

type abortT struct{}

// Run executes fns as threads under ch until all are done or none is runnable.
func Run(ch Chooser, maxSteps, spurious int, pct bool, fns []func(t *Thread)) *Sched {
	s := &Sched{ch: ch, yielded: make(chan struct{}), MaxSteps: maxSteps, Spurious: spurious, PCT: pct, KeepTrace: true}
	current = s
	for i, fn := range fns {
		t := &Thread{ID: i, resume: make(chan bool)}
		s.threads = append(s.threads, t)
		go func(t *Thread, fn func(*Thread)) {
			if abort := <-t.resume; abort {
				t.st = done
				s.yielded <- struct{}{}
				return
			}
			defer func() {
				if r := recover(); r != nil {
					if _, ok := r.(abortT); !ok {
						t.Panic = r
					}
				}
				t.st = done
				s.yielded <- struct{}{}
			}()
			fn(t)
		}(t, fn)
	}
	if pct {
		s.pctPoints = map[int]bool{}
		for i := range s.threads {
			s.threads[i].prio = ch.Choose(1000, "prio")
		}
		for k := 0; k < 3; k++ {
			s.pctPoints[ch.Choose(200, "changepoint")] = true
		}
	}
	defer func() {
		// a panic of the chooser (rapid signalling invalid data while shrinking) must not strand threads
		if r := recover(); r != nil {
			s.Teardown()
			panic(r)
		}
	}()
	s.loop()
	return s
}

func (s *Sched) loop() {
	for {
		var run []*Thread
		for _, t := range s.threads {
			if t.st == runnable {
				run = append(run, t)
			}
		}
		// a spurious wake-up of a cond waiter is a scheduling choice too
		var sleepers []*Thread
		if s.Spurious > 0 {
			for _, t := range s.threads {
				if t.st == blockedCond {
					sleepers = append(sleepers, t)
				}
			}
		}
		if len(run) == 0 {
			return // finished or quiescent with blocked threads (no spurious rescue)
		}
		if s.Steps >= s.MaxSteps {
			s.Violation = "overlong"
			return
		}
		s.Steps++
		var next *Thread
		if s.PCT {
			if s.pctPoints[s.Steps] && s.cur != nil {
				s.cur.prio = -s.Steps
			}
			for _, t := range run {
				if next == nil || t.prio > next.prio {
					next = t
				}
			}
			if len(sleepers) > 0 && s.ch.Choose(20, "spurious?") == 0 {
				s.wakeCond(sleepers[s.ch.Choose(len(sleepers), "spurious")], true)
				continue
			}
		} else {
			k := s.ch.Choose(len(run)+len(sleepers), "next")
			if k >= len(run) {
				s.wakeCond(sleepers[k-len(run)], true)
				continue
			}
			next = run[k]
		}
		if s.cur != next {
			s.Switches++
		}
		s.cur = next
		next.resume <- false
		<-s.yielded
		if c := s.signalReq; c != nil {
			s.signalReq = nil
			if n := len(c.waiters); n > 0 {
				s.wakeCond(c.waiters[s.ch.Choose(n, "signal-which")], false) // POSIX: "at least one" – any one
			}
		}
	}
}

// Teardown releases every parked thread so that no goroutine outlives the case.
func (s *Sched) Teardown() {
	for _, t := range s.threads {
		if t.st != done {
			t.resume <- true
			<-s.yielded
		}
	}
	current = nil
}

func (s *Sched) Threads() []*Thread { return s.threads }
func (t *Thread) Done() bool        { return t.st == done }
func (t *Thread) Blocked() bool     { return t.st == blockedMutex || t.st == blockedCond || t.st == blockedForever }

func (s *Sched) tracef(f string, a ...any) {
	if s.KeepTrace && len(s.Trace) < 4000 {
		s.Trace = append(s.Trace, fmt.Sprintf(f, a...))
	}
}

// yield hands control back to the scheduler; the calling thread continues when chosen again.
func (s *Sched) yield() {
	t := s.cur
	s.yielded <- struct{}{}
	if abort := <-t.resume; abort {
		panic(abortT{})
	}
}

// Yield is a plain scheduling point (operation boundaries, atomics).
func Yield(label string) {
	if s := current; s != nil && s.cur != nil {
		s.tracef("T%d yield %s", s.cur.ID, label)
		s.yield()
	}
}

// BlockForever parks the calling thread for good (e.g. an operation on a nil channel).
func BlockForever() {
	s := current
	s.cur.st = blockedForever
	s.yield()
}

func (s *Sched) fail(msg string) {
	if s.Violation == "" {
		s.Violation = msg
	}
}

// ---- pthread mutex / condition variable semantics ----

func (m *Mutex) Lock() {
	s := current
	t := s.cur
	s.tracef("T%d lock %p", t.ID, m)
	s.yield()
	for m.held {
		if m.owner == t.ID {
			s.fail(fmt.Sprintf("thread %d locks a mutex it already holds (self-deadlock)", t.ID))
		}
		t.st, t.on = blockedMutex, m
		s.yield()
	}
	m.held, m.owner = true, t.ID
}

func (m *Mutex) TryLock() bool {
	s := current
	s.yield()
	if m.held {
		return false
	}
	m.held, m.owner = true, s.cur.ID
	return true
}

func (m *Mutex) Unlock() {
	s := current
	t := s.cur
	s.tracef("T%d unlock %p", t.ID, m)
	if !m.held || m.owner != t.ID {
		s.fail(fmt.Sprintf("thread %d unlocks a mutex it does not hold (undefined behaviour under pthreads)", t.ID))
	}
	m.held = false
	for _, o := range s.threads { // every waiter re-contends; which one wins is a scheduling choice
		if o.st == blockedMutex && o.on == m {
			o.st, o.on = runnable, nil
		}
	}
	s.yield()
}

func (c *Cond) Wait(m *Mutex) {
	s := current
	t := s.cur
	s.tracef("T%d cond.wait %p", t.ID, c)
	if !m.held || m.owner != t.ID {
		s.fail(fmt.Sprintf("thread %d waits on a condition variable without holding the mutex", t.ID))
	}
	// atomically: release the mutex and enqueue
	m.held = false
	for _, o := range s.threads {
		if o.st == blockedMutex && o.on == m {
			o.st, o.on = runnable, nil
		}
	}
	c.waiters = append(c.waiters, t)
	t.st, t.on, t.relock = blockedCond, c, m
	s.yield()
	// woken: re-acquire the mutex
	for m.held {
		t.st, t.on = blockedMutex, m
		s.yield()
	}
	m.held, m.owner = true, t.ID
}

func (s *Sched) wakeCond(t *Thread, spurious bool) {
	c := t.on.(*Cond)
	for i, w := range c.waiters {
		if w == t {
			c.waiters = append(c.waiters[:i], c.waiters[i+1:]...)
			break
		}
	}
	if spurious {
		s.Spurious--
		s.tracef("T%d spurious wake-up", t.ID)
	}
	t.st, t.on = runnable, nil
}

func (c *Cond) Signal() {
	s := current
	s.tracef("T%d cond.signal %p (%d waiters)", s.cur.ID, c, len(c.waiters))
	s.signalReq = c // takes effect at this scheduling point; the scheduler picks the waiter
	s.yield()
}

func (c *Cond) Broadcast() {
	s := current
	s.tracef("T%d cond.broadcast %p (%d waiters)", s.cur.ID, c, len(c.waiters))
	s.yield()
	for len(c.waiters) > 0 {
		s.wakeCond(c.waiters[0], false)
	}
}

// NumWaiters is used by monitors.
func (c *Cond) NumWaiters() int { return len(c.waiters) }
