module verifstandins

go 1.24
