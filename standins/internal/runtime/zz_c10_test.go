package runtime

// C10a: the channel implementation (z_chan.go, copied verbatim from the working tree) is driven by
// generated thread scripts under the deterministic scheduler of verifsched. A monitor evaluates Go's
// channel semantics over the history, and at quiescence checks that no blocked operation is enabled in
// the reference model (lost wake-up).

import (
	"fmt"
	"os"
	"strings"
	"testing"
	"unsafe"

	"github.com/goplus/llgo/runtime/verifsched"
	"pgregory.net/rapid"
	"verifstat"
)

type rapidChooser struct{ t *rapid.T }

func (r rapidChooser) Choose(n int, label string) int {
	if n <= 1 {
		return 0
	}
	return rapid.IntRange(0, n-1).Draw(r.t, label)
}

type opKind int

const (
	opSend opKind = iota
	opRecv
	opClose
	opLen
	opSelect
	opTrySelect
)

type caseSpec struct {
	Ch   int // channel index, -1 = nil channel
	Send bool
}

type op struct {
	Kind  opKind
	Ch    int
	Cases []caseSpec
}

func (o op) String() string {
	switch o.Kind {
	case opSend:
		return fmt.Sprintf("send(c%d)", o.Ch)
	case opRecv:
		return fmt.Sprintf("recv(c%d)", o.Ch)
	case opClose:
		return fmt.Sprintf("close(c%d)", o.Ch)
	case opLen:
		return fmt.Sprintf("len(c%d)", o.Ch)
	}
	var cs []string
	for _, c := range o.Cases {
		d := "recv"
		if c.Send {
			d = "send"
		}
		if c.Ch < 0 {
			cs = append(cs, d+"(nil)")
		} else {
			cs = append(cs, fmt.Sprintf("%s(c%d)", d, c.Ch))
		}
	}
	n := "select"
	if o.Kind == opTrySelect {
		n = "tryselect"
	}
	return n + "{" + strings.Join(cs, ",") + "}"
}

type event struct {
	Thread int
	OpIdx  int
	Start  bool
	Op     op
	// completion data
	Sel     int   // chosen case of a select (-1 = default)
	Tok     int64 // token sent or received
	OK      bool  // recvOK
	Panic   string
	Len     int
	Ch      int   // channel the effect applies to
	WasSend bool
	WasRecv bool
}

type script struct {
	Caps    []int
	Threads [][]op
}

func genScript(t *rapid.T) script {
	var s script
	nch := rapid.IntRange(1, 3).Draw(t, "nchans")
	for i := 0; i < nch; i++ {
		s.Caps = append(s.Caps, rapid.SampledFrom([]int{0, 0, 0, 1, 1, 2, 2, 3, 4}).Draw(t, "cap"))
	}
	nth := rapid.IntRange(2, 4).Draw(t, "nthreads")
	closer := map[int]bool{}
	for i := 0; i < nth; i++ {
		nops := rapid.SampledFrom([]int{1, 2, 2, 3, 3, 4, 4, 5, 7}).Draw(t, "nops")
		var ops []op
		for j := 0; j < nops; j++ {
			k := rapid.SampledFrom([]opKind{opSend, opSend, opSend, opRecv, opRecv, opRecv, opClose, opLen, opSelect, opSelect, opTrySelect}).Draw(t, "kind")
			o := op{Kind: k, Ch: rapid.IntRange(0, nch-1).Draw(t, "ch")}
			switch k {
			case opClose:
				if closer[o.Ch] { // at most one close per channel (a second close must panic: covered by C03)
					o.Kind = opRecv
				}
				closer[o.Ch] = true
			case opSelect, opTrySelect:
				nc := rapid.IntRange(1, 4).Draw(t, "ncases")
				for c := 0; c < nc; c++ {
					cs := caseSpec{Ch: rapid.IntRange(-1, nch-1).Draw(t, "casech"), Send: rapid.Bool().Draw(t, "casesend")}
					o.Cases = append(o.Cases, cs)
				}
			}
			ops = append(ops, o)
		}
		s.Threads = append(s.Threads, ops)
	}
	return s
}

type runResult struct {
	events []event
	sched  *verifsched.Sched
	chans  []*Chan
}

func execute(sc script, ch verifsched.Chooser, spurious int, pct bool, keepTrace bool) *runResult {
	r := &runResult{}
	for _, c := range sc.Caps {
		r.chans = append(r.chans, NewChan(8, c))
	}
	nextTok := int64(0)
	var fns []func(*verifsched.Thread)
	for ti, ops := range sc.Threads {
		ti, ops := ti, ops
		fns = append(fns, func(th *verifsched.Thread) {
			for oi, o := range ops {
				th.CurOp = o
				r.events = append(r.events, event{Thread: ti, OpIdx: oi, Start: true, Op: o})
				ev := event{Thread: ti, OpIdx: oi, Op: o, Sel: -2, Ch: o.Ch}
				func() {
					defer func() {
						if p := recover(); p != nil {
							if e, ok := p.(error); ok {
								ev.Panic = e.Error()
							} else if s, ok := p.(string); ok {
								ev.Panic = s
							} else {
								panic(p) // scheduler abort sentinel or something unexpected
							}
						}
					}()
					switch o.Kind {
					case opSend:
						nextTok++
						v := nextTok*100 + int64(ti)
						ev.Tok, ev.WasSend = v, true
						ChanSend(r.chans[o.Ch], unsafe.Pointer(&v), 8)
					case opRecv:
						var v int64
						ev.WasRecv = true
						ev.OK = ChanRecv(r.chans[o.Ch], unsafe.Pointer(&v), 8)
						ev.Tok = v
					case opClose:
						ChanClose(r.chans[o.Ch])
					case opLen:
						ev.Len = ChanLen(r.chans[o.Ch])
					case opSelect, opTrySelect:
						vals := make([]int64, len(o.Cases))
						var cops []ChanOp
						allNil := true
						for i, cs := range o.Cases {
							co := ChanOp{Val: unsafe.Pointer(&vals[i]), Size: 8, Send: cs.Send}
							if cs.Ch >= 0 {
								co.C = r.chans[cs.Ch]
								allNil = false
							}
							if cs.Send {
								nextTok++
								vals[i] = nextTok*100 + int64(ti)
							}
							cops = append(cops, co)
						}
						if o.Kind == opSelect {
							if allNil {
								verifsched.BlockForever() // select over nil channels only blocks forever
							}
							isel, ok := Select(cops...)
							ev.Sel, ev.OK = isel, ok
						} else {
							isel, ok, tryOK := TrySelect(cops...)
							ev.Sel, ev.OK = isel, ok
							if !tryOK {
								ev.Sel = -1
							}
						}
						if ev.Sel >= 0 {
							cs := o.Cases[ev.Sel]
							ev.Ch, ev.Tok = cs.Ch, vals[ev.Sel]
							ev.WasSend, ev.WasRecv = cs.Send, !cs.Send
						}
					}
				}()
				th.CurOp = nil
				r.events = append(r.events, ev)
				verifsched.Yield("op-boundary")
			}
		})
	}
	r.sched = verifsched.Run(ch, 3000, spurious, pct, fns)
	r.sched.KeepTrace = keepTrace
	return r
}

// check evaluates the history; returns a key and a description of the first violation.
func check(sc script, r *runResult) (key, msg string) {
	key, msg = check0(sc, r)
	// a listed finding concerns select cases on unbuffered channels: give violations of scripts that
	// contain such cases their own key, so that everything else is still reported under the plain key
	if key == "C10:lost-wakeup" || key == "C10:nonblocking-op-blocked" || key == "C10:received-unsent-token" || key == "C10:send-completed-without-room" {
		for _, ops := range sc.Threads {
			for _, o := range ops {
				if o.Kind != opSelect && o.Kind != opTrySelect {
					continue
				}
				for _, cs := range o.Cases {
					if cs.Ch >= 0 && sc.Caps[cs.Ch] == 0 {
						return key + ":unbuffered-select", msg
					}
				}
			}
		}
	}
	return
}

func check0(sc script, r *runResult) (key, msg string) {
	if v := r.sched.Violation; v != "" {
		if v == "overlong" {
			return "", ""
		}
		return "C10:sync-misuse", v
	}
	type tokInfo struct {
		sender, ch         int
		sendStart, sendEnd int // event indices (sendEnd = -1 while incomplete / panicked)
		recvBy, recvStart, recvEnd int
		received           bool
	}
	toks := map[int64]*tokInfo{}
	closeStart := map[int]int{}
	closeEnd := map[int]int{}
	for c := range sc.Caps {
		closeStart[c], closeEnd[c] = -1, -1
	}
	startIdx := map[[2]int]int{}
	completedSends := make([]int, len(sc.Caps))
	startedRecvs := make([]int, len(sc.Caps))
	startedSends := make([]int, len(sc.Caps))
	completedRecvOK := make([]int, len(sc.Caps))
	for i, e := range r.events {
		if e.Start {
			startIdx[[2]int{e.Thread, e.OpIdx}] = i
			switch e.Op.Kind {
			case opSend:
				startedSends[e.Op.Ch]++
			case opRecv:
				startedRecvs[e.Op.Ch]++
			case opClose:
				closeStart[e.Op.Ch] = i
			case opSelect, opTrySelect:
				seenS, seenR := map[int]bool{}, map[int]bool{}
				for _, cs := range e.Op.Cases {
					if cs.Ch < 0 {
						continue
					}
					if cs.Send && !seenS[cs.Ch] {
						seenS[cs.Ch] = true
						startedSends[cs.Ch]++
					}
					if !cs.Send && !seenR[cs.Ch] {
						seenR[cs.Ch] = true
						startedRecvs[cs.Ch]++
					}
				}
			}
			continue
		}
		st := startIdx[[2]int{e.Thread, e.OpIdx}]
		if e.Panic != "" {
			// the only legitimate panic: a send on a channel whose close had started before the send ended
			okPanic := strings.Contains(e.Panic, "send on closed channel") && (e.Op.Kind == opSend || e.Op.Kind == opSelect || e.Op.Kind == opTrySelect)
			chn := e.Ch
			if okPanic && e.Op.Kind != opSend {
				okPanic = false
				for _, cs := range e.Op.Cases {
					if cs.Send && cs.Ch >= 0 && closeStart[cs.Ch] >= 0 && closeStart[cs.Ch] < i {
						okPanic = true
					}
				}
			} else if okPanic {
				okPanic = closeStart[chn] >= 0 && closeStart[chn] < i
			}
			if !okPanic {
				return "C10:unexpected-panic", fmt.Sprintf("thread %d %v panicked: %s", e.Thread, e.Op, e.Panic)
			}
			continue
		}
		if e.Op.Kind == opClose {
			closeEnd[e.Op.Ch] = i
		}
		if e.Op.Kind == opLen && (e.Len < 0 || e.Len > sc.Caps[e.Op.Ch]) {
			return "C10:len-out-of-range", fmt.Sprintf("len(c%d) = %d with capacity %d", e.Op.Ch, e.Len, sc.Caps[e.Op.Ch])
		}
		if e.WasSend {
			c := e.Ch
			// a send may complete normally only if it started before the close completed
			if closeEnd[c] >= 0 && st > closeEnd[c] {
				return "C10:send-after-close-succeeded", fmt.Sprintf("thread %d %v completed normally although close(c%d) had completed before it started", e.Thread, e.Op, c)
			}
			toks[e.Tok] = &tokInfo{sender: e.Thread, ch: c, sendStart: st, sendEnd: i}
			completedSends[c]++
			if completedSends[c] > sc.Caps[c]+startedRecvs[c] {
				return "C10:send-completed-without-room", fmt.Sprintf("c%d (cap %d): %d sends completed but only %d receives have started", c, sc.Caps[c], completedSends[c], startedRecvs[c])
			}
		}
		if e.WasRecv {
			c := e.Ch
			if e.OK {
				completedRecvOK[c]++
				if completedRecvOK[c] > startedSends[c] {
					return "C10:recv-without-send", fmt.Sprintf("c%d: %d receives completed with ok=true but only %d sends have started", c, completedRecvOK[c], startedSends[c])
				}
			} else {
				if closeStart[c] < 0 || closeStart[c] > i {
					return "C10:closed-result-on-open-channel", fmt.Sprintf("thread %d %v returned ok=false but c%d was not being closed", e.Thread, e.Op, c)
				}
				if e.Tok != 0 {
					return "C10:nonzero-after-close", fmt.Sprintf("thread %d %v returned ok=false with value %d", e.Thread, e.Op, e.Tok)
				}
			}
		}
	}
	// second pass: token accounting (a receive may complete in the log before the matching send does)
	for i, e := range r.events {
		if e.Start || e.Panic != "" || !e.WasRecv || !e.OK {
			continue
		}
		ti := toks[e.Tok]
		if ti == nil {
			// the sender may be blocked past its hand-off (unbuffered rendezvous): look for a started send with that token
			return "C10:received-unsent-token", fmt.Sprintf("thread %d %v received %d, which no completed send carries", e.Thread, e.Op, e.Tok)
		}
		if ti.ch != e.Ch {
			return "C10:token-on-wrong-channel", fmt.Sprintf("token %d sent on c%d received from c%d", e.Tok, ti.ch, e.Ch)
		}
		if ti.received {
			return "C10:token-received-twice", fmt.Sprintf("token %d received twice (threads %d and %d)", e.Tok, ti.recvBy, e.Thread)
		}
		ti.received, ti.recvBy, ti.recvEnd = true, e.Thread, i
		ti.recvStart = startIdx[[2]int{e.Thread, e.OpIdx}]
		if ti.recvEnd < ti.sendStart {
			return "C10:received-before-sent", fmt.Sprintf("token %d received before its send started", e.Tok)
		}
	}
	// FIFO per (channel, sender, receiver)
	type key3 struct{ ch, s, r int }
	last := map[key3]int64{}
	for _, e := range r.events {
		if e.Start || !e.WasRecv || !e.OK || e.Panic != "" {
			continue
		}
		ti := toks[e.Tok]
		k := key3{e.Ch, ti.sender, e.Thread}
		if prev, ok := last[k]; ok && prev > e.Tok {
			return "C10:fifo", fmt.Sprintf("c%d: thread %d received token %d after %d, both sent by thread %d in the other order", e.Ch, e.Thread, e.Tok, prev, ti.sender)
		}
		last[k] = e.Tok
	}
	// ok=false must not overtake tokens whose send completed before the close started
	for i, e := range r.events {
		if e.Start || !e.WasRecv || e.OK || e.Panic != "" {
			continue
		}
		for tok, ti := range toks {
			if ti.ch == e.Ch && closeStart[e.Ch] >= 0 && ti.sendEnd < closeStart[e.Ch] {
				if !ti.received || ti.recvStart > i {
					return "C10:close-overtakes-buffer", fmt.Sprintf("thread %d %v returned ok=false while token %d (sent before the close) was still undelivered", e.Thread, e.Op, tok)
				}
			}
		}
	}
	// quiescence: blocked operations must be stuck in the Go channel model
	var blocked []*verifsched.Thread
	for _, th := range r.sched.Threads() {
		if !th.Done() {
			blocked = append(blocked, th)
		}
	}
	if len(blocked) == 0 {
		// everything finished: undelivered tokens must fit the buffers
		left := make([]int, len(sc.Caps))
		for _, ti := range toks {
			if !ti.received {
				left[ti.ch]++
			}
		}
		for c, n := range left {
			if n > sc.Caps[c] {
				return "C10:buffer-overflow", fmt.Sprintf("c%d (cap %d): %d completed sends were never received", c, sc.Caps[c], n)
			}
		}
		return "", ""
	}
	inBuf := make([]int, len(sc.Caps))
	for _, ti := range toks {
		if !ti.received {
			inBuf[ti.ch]++
		}
	}
	closed := func(c int) bool { return closeEnd[c] >= 0 }
	type pend struct {
		th    int
		cases []caseSpec
	}
	var pends []pend
	for _, th := range blocked {
		o, ok := th.CurOp.(op)
		if !ok {
			continue
		}
		switch o.Kind {
		case opSend:
			pends = append(pends, pend{th.ID, []caseSpec{{o.Ch, true}}})
		case opRecv:
			pends = append(pends, pend{th.ID, []caseSpec{{o.Ch, false}}})
		case opSelect:
			pends = append(pends, pend{th.ID, o.Cases})
		case opClose, opLen, opTrySelect:
			return "C10:nonblocking-op-blocked", fmt.Sprintf("thread %d is blocked forever inside %v, which never blocks in Go", th.ID, o)
		}
	}
	partner := func(self int, c int, wantSend bool) bool {
		for _, p := range pends {
			if p.th == self {
				continue
			}
			for _, cs := range p.cases {
				if cs.Ch == c && cs.Send == wantSend {
					return true
				}
			}
		}
		return false
	}
	for _, p := range pends {
		for _, cs := range p.cases {
			if cs.Ch < 0 {
				continue
			}
			c := cs.Ch
			enabled := false
			why := ""
			if cs.Send {
				switch {
				case closed(c):
					enabled, why = true, "the channel is closed (the send must panic)"
				case sc.Caps[c] > 0 && inBuf[c] < sc.Caps[c]:
					enabled, why = true, fmt.Sprintf("the buffer holds %d of %d", inBuf[c], sc.Caps[c])
				case sc.Caps[c] == 0 && partner(p.th, c, false):
					enabled, why = true, "a receiver is blocked on the same channel"
				}
			} else {
				switch {
				case inBuf[c] > 0 && sc.Caps[c] > 0:
					enabled, why = true, fmt.Sprintf("the buffer holds %d values", inBuf[c])
				case closed(c):
					enabled, why = true, "the channel is closed"
				case sc.Caps[c] == 0 && partner(p.th, c, true):
					enabled, why = true, "a sender is blocked on the same channel"
				}
			}
			if enabled {
				d := "recv"
				if cs.Send {
					d = "send"
				}
				return "C10:lost-wakeup", fmt.Sprintf("no thread can run, yet thread %d is blocked in %s(c%d) although %s", p.th, d, c, why)
			}
		}
	}
	return "", ""
}

func describe(sc script, r *runResult) string {
	var b strings.Builder
	fmt.Fprintf(&b, "channels (cap): %v\n", sc.Caps)
	for i, ops := range sc.Threads {
		fmt.Fprintf(&b, "  thread %d: %v\n", i, ops)
	}
	b.WriteString("history:\n")
	for _, e := range r.events {
		if e.Start {
			fmt.Fprintf(&b, "  T%d start %v\n", e.Thread, e.Op)
		} else {
			fmt.Fprintf(&b, "  T%d done  %v sel=%d tok=%d ok=%v len=%d panic=%q\n", e.Thread, e.Op, e.Sel, e.Tok, e.OK, e.Len, e.Panic)
		}
	}
	for _, th := range r.sched.Threads() {
		if !th.Done() {
			fmt.Fprintf(&b, "  T%d BLOCKED in %v\n", th.ID, th.CurOp)
		}
	}
	return b.String()
}

func TestVerifC10Schedules(t *testing.T) {
	c := verifstat.For("C10")
	defer c.Flush()
	rapid.Check(t, func(t *rapid.T) {
		sc := genScript(t)
		pct := rapid.IntRange(0, 3).Draw(t, "pct") == 0
		spurious := rapid.IntRange(0, 3).Draw(t, "spurious")
		r := execute(sc, rapidChooser{t}, spurious, pct, false)
		defer r.sched.Teardown()
		key, msg := check(sc, r)
		blockedAny := false
		for _, th := range r.sched.Threads() {
			if !th.Done() {
				blockedAny = true
			}
		}
		var cls []string
		hasSel, hasClose := false, false
		for _, ops := range sc.Threads {
			for _, o := range ops {
				if o.Kind == opSelect {
					hasSel = true
				}
				if o.Kind == opClose {
					hasClose = true
				}
			}
		}
		if hasSel {
			cls = append(cls, "with_select")
		}
		if hasClose {
			cls = append(cls, "with_close")
		}
		if blockedAny {
			cls = append(cls, "quiescent_with_blocked_threads")
		}
		if r.sched.Violation == "overlong" {
			cls = append(cls, "overlong_discarded")
		}
		if pct {
			cls = append(cls, "pct_schedule")
		}
		cls = append(cls, "schedules")
		c.Case(verifstat.Hash("c10", fmt.Sprint(sc), r.sched.Steps, r.sched.Switches, len(r.events)), r.sched.Switches >= 2, cls...)
		c.Sample(map[string]any{"caps": sc.Caps, "threads": fmt.Sprint(sc.Threads), "steps": r.sched.Steps, "switches": r.sched.Switches})
		if key != "" {
			if c.IsKnown(key) {
				c.KnownHit(key)
				return
			}
			t.Fatalf("[%s] %s\n%s", key, msg, describe(sc, r))
		}
	})
}

var _ = os.Getenv
