package runtime

// Stand-ins for the few runtime-internal names z_chan.go uses besides its imports.

import "unsafe"

const maxAlloc = uintptr(1) << 47

type plainError string

func (e plainError) RuntimeError() {}
func (e plainError) Error() string { return string(e) }

func AllocU(n uintptr) unsafe.Pointer {
	if n == 0 {
		n = 1
	}
	b := make([]byte, n)
	return unsafe.Pointer(&b[0])
}
