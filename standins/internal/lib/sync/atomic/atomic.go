// Package atomic stands in for runtime/internal/lib/sync/atomic: every operation is indivisible and a
// scheduling point of verifsched.
package atomic

import "github.com/goplus/llgo/runtime/verifsched"

func LoadUint32(addr *uint32) uint32 { verifsched.Yield("atomic.load"); return *addr }
func StoreUint32(addr *uint32, v uint32) {
	verifsched.Yield("atomic.store")
	*addr = v
}
func AddUint32(addr *uint32, delta uint32) uint32 {
	verifsched.Yield("atomic.add")
	*addr += delta
	return *addr
}
func CompareAndSwapUint32(addr *uint32, old, new uint32) bool {
	verifsched.Yield("atomic.cas")
	if *addr == old {
		*addr = new
		return true
	}
	return false
}
