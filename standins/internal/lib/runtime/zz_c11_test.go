package runtime

// C11a: the semaphore and notify-list primitives underneath sync (sema_llgo.go, copied from the working
// tree without its //go:linkname lines) under the deterministic scheduler: counting invariants over the
// history and no lost wake-up at quiescence.

import (
	"fmt"
	"testing"

	"github.com/goplus/llgo/runtime/verifsched"
	"pgregory.net/rapid"
	"verifstat"
)

type rapidChooser struct{ t *rapid.T }

func (r rapidChooser) Choose(n int, label string) int {
	if n <= 1 {
		return 0
	}
	return rapid.IntRange(0, n-1).Draw(r.t, label)
}

func resetGlobals() {
	semaOnce, semaMu, semaMap = psyncOnceZero(), psyncMutexZero(), nil
	notifyOnce, notifyMu, notifyMap = psyncOnceZero(), psyncMutexZero(), nil
}

type semEvent struct {
	Thread, Addr int
	Acquire      bool
	Start        bool
}

func TestVerifC11Semaphore(t *testing.T) {
	c := verifstat.For("C11")
	defer c.Flush()
	rapid.Check(t, func(t *rapid.T) {
		resetGlobals()
		naddr := rapid.IntRange(1, 2).Draw(t, "naddr")
		sems := make([]uint32, naddr)
		init := make([]int, naddr)
		for i := range sems {
			init[i] = rapid.IntRange(0, 2).Draw(t, "initial")
			sems[i] = uint32(init[i])
		}
		nth := rapid.IntRange(2, 4).Draw(t, "nthreads")
		type sop struct {
			Acquire bool
			Addr    int
		}
		scripts := make([][]sop, nth)
		for i := range scripts {
			n := rapid.IntRange(1, 4).Draw(t, "nops")
			for j := 0; j < n; j++ {
				scripts[i] = append(scripts[i], sop{rapid.Bool().Draw(t, "acquire"), rapid.IntRange(0, naddr-1).Draw(t, "addr")})
			}
		}
		var events []semEvent
		var fns []func(*verifsched.Thread)
		for ti, ops := range scripts {
			ti, ops := ti, ops
			fns = append(fns, func(th *verifsched.Thread) {
				for _, o := range ops {
					th.CurOp = o
					events = append(events, semEvent{ti, o.Addr, o.Acquire, true})
					if o.Acquire {
						semaAcquire(&sems[o.Addr])
					} else {
						semaRelease(&sems[o.Addr])
					}
					th.CurOp = nil
					events = append(events, semEvent{ti, o.Addr, o.Acquire, false})
					verifsched.Yield("op-boundary")
				}
			})
		}
		s := verifsched.Run(rapidChooser{t}, 4000, rapid.IntRange(0, 3).Draw(t, "spurious"), rapid.IntRange(0, 3).Draw(t, "pct") == 0, fns)
		defer s.Teardown()
		acq := make([]int, naddr)
		relStarted := make([]int, naddr)
		maxBlocked := 0
		key, msg := "", ""
		if s.Violation != "" && s.Violation != "overlong" {
			key, msg = "C11:sema:sync-misuse", s.Violation
		}
		for _, e := range events {
			if key != "" {
				break
			}
			switch {
			case !e.Acquire && e.Start:
				relStarted[e.Addr]++
			case e.Acquire && !e.Start:
				acq[e.Addr]++
				if acq[e.Addr] > init[e.Addr]+relStarted[e.Addr] {
					key, msg = "C11:sema:acquire-without-release", fmt.Sprintf("address %d: %d acquires completed with initial count %d and only %d releases started", e.Addr, acq[e.Addr], init[e.Addr], relStarted[e.Addr])
				}
			}
		}
		blockedAcq := 0
		if key == "" && s.Violation == "" {
			for _, th := range s.Threads() {
				if th.Done() {
					continue
				}
				o, ok := th.CurOp.(sop)
				if !ok {
					continue
				}
				if !o.Acquire {
					key, msg = "C11:sema:release-blocked", fmt.Sprintf("thread %d is blocked forever in semaRelease", th.ID)
					break
				}
				blockedAcq++
				// from the history alone: permits = initial + completed releases - completed acquires
				relDone := 0
				for _, e := range events {
					if e.Addr == o.Addr && !e.Acquire && !e.Start {
						relDone++
					}
				}
				if permits := init[o.Addr] + relDone - acq[o.Addr]; permits > 0 {
					key, msg = "C11:sema:lost-wakeup", fmt.Sprintf("no thread can run, thread %d is blocked in semaAcquire(address %d) although %d permit(s) are outstanding (initial %d + %d completed releases - %d completed acquires)", th.ID, o.Addr, permits, init[o.Addr], relDone, acq[o.Addr])
					break
				}
				if sems[o.Addr] > 0 {
					key, msg = "C11:sema:lost-wakeup", fmt.Sprintf("no thread can run, thread %d is blocked in semaAcquire(address %d) although the count is %d", th.ID, o.Addr, sems[o.Addr])
					break
				}
			}
		}
		if blockedAcq > maxBlocked {
			maxBlocked = blockedAcq
		}
		cls := []string{"sema_schedules"}
		if blockedAcq > 0 {
			cls = append(cls, "sema_quiescent_blocked")
		}
		c.Case(verifstat.Hash("sema", fmt.Sprint(init, scripts), s.Steps, s.Switches), s.Switches >= 2, cls...)
		c.Sample(map[string]any{"kind": "semaphore", "initial": init, "scripts": fmt.Sprint(scripts), "steps": s.Steps})
		if key != "" {
			if c.IsKnown(key) {
				c.KnownHit(key)
				return
			}
			t.Fatalf("[%s] %s\ninitial %v scripts %+v\nevents %+v", key, msg, init, scripts, events)
		}
	})
}

type nlEvent struct {
	Thread int
	Kind   string // add, wait, one, all
	Start  bool
	Ticket uint32
}

func TestVerifC11NotifyList(t *testing.T) {
	c := verifstat.For("C11")
	defer c.Flush()
	rapid.Check(t, func(t *rapid.T) {
		resetGlobals()
		var l notifyList
		nth := rapid.IntRange(2, 4).Draw(t, "nthreads")
		type nop struct{ Kind string }
		scripts := make([][]nop, nth)
		for i := range scripts {
			n := rapid.IntRange(1, 4).Draw(t, "nops")
			for j := 0; j < n; j++ {
				scripts[i] = append(scripts[i], nop{rapid.SampledFrom([]string{"wait", "wait", "one", "one", "all"}).Draw(t, "kind")})
			}
		}
		var events []nlEvent
		var fns []func(*verifsched.Thread)
		for ti, ops := range scripts {
			ti, ops := ti, ops
			fns = append(fns, func(th *verifsched.Thread) {
				for _, o := range ops {
					switch o.Kind {
					case "wait":
						// the shape of sync.Cond.Wait: take a ticket, (unlock L), wait for it
						events = append(events, nlEvent{ti, "add", true, 0})
						tk := sync_runtime_notifyListAdd(&l)
						events = append(events, nlEvent{ti, "add", false, tk})
						verifsched.Yield("between-add-and-wait")
						th.CurOp = tk
						events = append(events, nlEvent{ti, "wait", true, tk})
						sync_runtime_notifyListWait(&l, tk)
						th.CurOp = nil
						events = append(events, nlEvent{ti, "wait", false, tk})
					case "one":
						events = append(events, nlEvent{ti, "one", true, 0})
						sync_runtime_notifyListNotifyOne(&l)
						events = append(events, nlEvent{ti, "one", false, 0})
					case "all":
						events = append(events, nlEvent{ti, "all", true, 0})
						sync_runtime_notifyListNotifyAll(&l)
						events = append(events, nlEvent{ti, "all", false, 0})
					}
					verifsched.Yield("op-boundary")
				}
			})
		}
		s := verifsched.Run(rapidChooser{t}, 4000, rapid.IntRange(0, 3).Draw(t, "spurious"), rapid.IntRange(0, 3).Draw(t, "pct") == 0, fns)
		defer s.Teardown()
		key, msg := "", ""
		if s.Violation != "" && s.Violation != "overlong" {
			key, msg = "C11:notify:sync-misuse", s.Violation
		}
		// upper bound on the number of released tickets at each point of the history:
		// (largest number of tickets a started NotifyAll can cover) + (NotifyOne calls started)
		addsStarted, ones, allCover := 0, 0, 0
		allPending := map[int]bool{} // threads inside NotifyAll
		for _, e := range events {
			if key != "" {
				break
			}
			switch {
			case e.Kind == "add" && e.Start:
				addsStarted++
				_ = allPending
			case e.Kind == "all" && e.Start:
				allPending[e.Thread] = true
			case e.Kind == "all" && !e.Start:
				delete(allPending, e.Thread)
				if addsStarted > allCover {
					allCover = addsStarted
				}
			case e.Kind == "one" && e.Start:
				ones++
			case e.Kind == "wait" && !e.Start:
				cover := allCover
				if len(allPending) > 0 && addsStarted > cover { // a NotifyAll in flight may already have taken effect
					cover = addsStarted
				}
				if int(e.Ticket) >= cover+ones {
					key = "C11:notify:wait-returned-without-notification"
					msg = fmt.Sprintf("thread %d: Wait(ticket %d) returned although at most %d tickets can have been released (NotifyAll coverage %d + %d NotifyOne calls started)", e.Thread, e.Ticket, cover+ones, cover, ones)
				}
			}
		}
		// lower bound, from the history alone, on the number of tickets that must have been released: a NotifyOne that
		// started after k Adds had returned releases the oldest unreleased ticket if one of those k is unreleased; a
		// NotifyAll releases all of them.  (The implementation's own counters are not consulted.)
		mustReleased, addsDone := 0, 0
		startAdds := map[int]int{}
		for _, e := range events {
			switch {
			case e.Kind == "add" && !e.Start:
				addsDone++
			case (e.Kind == "one" || e.Kind == "all") && e.Start:
				startAdds[e.Thread] = addsDone
			case e.Kind == "one" && !e.Start:
				if startAdds[e.Thread] > mustReleased {
					mustReleased++
				}
			case e.Kind == "all" && !e.Start:
				if startAdds[e.Thread] > mustReleased {
					mustReleased = startAdds[e.Thread]
				}
			}
		}
		waiters := 0
		if key == "" && s.Violation == "" {
			for _, th := range s.Threads() {
				if th.Done() {
					continue
				}
				tk, ok := th.CurOp.(uint32)
				if !ok {
					key, msg = "C11:notify:nonblocking-op-blocked", fmt.Sprintf("thread %d is blocked forever outside Wait", th.ID)
					break
				}
				waiters++
				if int(tk) < mustReleased {
					key, msg = "C11:notify:lost-wakeup", fmt.Sprintf("no thread can run, thread %d is blocked in Wait(ticket %d) although the Signal/Broadcast calls that completed after the ticket was taken must have released tickets 0..%d", th.ID, tk, mustReleased-1)
					break
				}
				if int32(l.notify-tk) > 0 {
					key, msg = "C11:notify:lost-wakeup", fmt.Sprintf("no thread can run, thread %d is blocked in Wait(ticket %d) although notify=%d already covers it (wait=%d)", th.ID, tk, l.notify, l.wait)
					break
				}
			}
		}
		cls := []string{"notify_schedules"}
		if waiters >= 2 {
			cls = append(cls, "notify_two_waiters_blocked")
		}
		c.Case(verifstat.Hash("notify", fmt.Sprint(scripts), s.Steps, s.Switches), s.Switches >= 2, cls...)
		c.Sample(map[string]any{"kind": "notifylist", "scripts": fmt.Sprint(scripts), "steps": s.Steps})
		if key != "" {
			if c.IsKnown(key) {
				c.KnownHit(key)
				return
			}
			t.Fatalf("[%s] %s\nscripts %+v\nevents %+v", key, msg, scripts, events)
		}
	})
}
