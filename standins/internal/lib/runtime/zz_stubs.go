package runtime

// Stand-ins for names sema_llgo.go takes from sibling files of its package.

func throw(s string)     { panic("throw: " + s) }
func fatal(s string)     { panic("fatal: " + s) }
func runtimeNano() int64 { return 0 }
