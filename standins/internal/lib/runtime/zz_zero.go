package runtime

import psync "github.com/goplus/llgo/runtime/internal/clite/pthread/sync"

func psyncOnceZero() psync.Once   { return psync.Once{} }
func psyncMutexZero() psync.Mutex { return psync.Mutex{} }
