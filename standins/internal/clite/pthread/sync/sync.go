// Package sync stands in for runtime/internal/clite/pthread/sync: same method sets, semantics of POSIX
// mutexes and condition variables, every operation a scheduling point of verifsched.
package sync

import "github.com/goplus/llgo/runtime/verifsched"

type MutexAttr struct{}
type CondAttr struct{}

type Mutex struct{ m verifsched.Mutex }

func (m *Mutex) Init(attr *MutexAttr) {}
func (m *Mutex) Destroy()             {}
func (m *Mutex) Lock()                { m.m.Lock() }
func (m *Mutex) TryLock() bool        { return m.m.TryLock() }
func (m *Mutex) Unlock()              { m.m.Unlock() }

type Cond struct{ c verifsched.Cond }

func (c *Cond) Init(attr *CondAttr) {}
func (c *Cond) Destroy()            {}
func (c *Cond) Signal()             { c.c.Signal() }
func (c *Cond) Broadcast()          { c.c.Broadcast() }
func (c *Cond) Wait(m *Mutex)       { c.c.Wait(&m.m) }

// Once: the body runs exactly once; callers arriving while it runs wait for it (pthread_once).
type Once struct {
	done    bool
	running bool
	m       verifsched.Mutex
	c       verifsched.Cond
}

func (o *Once) Do(f func()) {
	o.m.Lock()
	for o.running {
		o.c.Wait(&o.m)
	}
	if o.done {
		o.m.Unlock()
		return
	}
	o.running = true
	o.m.Unlock()
	f()
	o.m.Lock()
	o.running, o.done = false, true
	o.m.Unlock()
	o.c.Broadcast()
}
