// Package c stands in for runtime/internal/clite (only what the lifted files use).
package c

import "unsafe"

type Pointer = unsafe.Pointer
type Int = int32

func Memcpy(dst, src unsafe.Pointer, n uintptr) unsafe.Pointer {
	copy(unsafe.Slice((*byte)(dst), n), unsafe.Slice((*byte)(src), n))
	return dst
}

func Memset(p unsafe.Pointer, c Int, n uintptr) unsafe.Pointer {
	b := unsafe.Slice((*byte)(p), n)
	for i := range b {
		b[i] = byte(c)
	}
	return p
}

// Advance: the lifted files only advance unsafe.Pointer values by a byte offset.
func Advance[PtrT any, I ~int | ~uintptr | ~int64 | ~int32](ptr PtrT, offset I) PtrT {
	p := any(ptr).(unsafe.Pointer)
	return any(unsafe.Add(p, int(offset))).(PtrT)
}
