package abi

// C07a: the link-level name of a type's run-time descriptor (Builder.TypeName) must coincide for two
// types exactly when the types are identical under the Go spec (go/types.Identical): equal names for
// different types merge their dynamic identity, different names for identical types split it.

import (
	"fmt"
	"go/types"
	"strings"
	"testing"

	"pgregory.net/rapid"
	"verifstat"
	"verifstat/typegen"
)

func verifTypeName(b *Builder, t types.Type) (name string, err error) {
	defer func() {
		if r := recover(); r != nil {
			err = fmt.Errorf("TypeName panicked: %v", r)
		}
	}()
	name, _ = b.TypeName(t)
	return
}

func TestVerifC07TypeNameIdentity(t *testing.T) {
	c := verifstat.For("C07")
	defer c.Flush()
	rapid.Check(t, func(t *rapid.T) {
		pool, err := typegen.Generate(t, 3)
		if err != nil {
			c.Skip("generator_produced_invalid_source")
			c.Note(strings.SplitN(err.Error(), "\n", 2)[0])
			return
		}
		b := New(8, types.SizesFor("gc", "amd64"))
		names := make([]string, len(pool.Entries))
		for i, e := range pool.Entries {
			n, err := verifTypeName(b, e.Type)
			if err != nil {
				t.Fatalf("[C07:typename-panic] %s: %v\n%s", e.Label, err, verifSrc(pool))
			}
			names[i] = n
		}
		for i := range pool.Entries {
			for j := i + 1; j < len(pool.Entries); j++ {
				ei, ej := pool.Entries[i], pool.Entries[j]
				ident := types.Identical(ei.Type, ej.Type)
				same := names[i] == names[j]
				nearMiss := strings.HasPrefix(ei.Class, "mutant") || strings.HasPrefix(ej.Class, "mutant") || ei.Class == "copy" || ej.Class == "copy" || (ei.Class == "local" && ej.Class == "local") || ei.Class == "alias" || ej.Class == "alias"
				cls := "pair"
				if ident {
					cls = "pair_identical"
				}
				c.Case(verifstat.Hash("pair", types.TypeString(ei.Type, nil), types.TypeString(ej.Type, nil), ei.Label, ej.Label), nearMiss, cls)
				if ident == same {
					continue
				}
				kind := ei.Class + "|" + ej.Class
				key := "C07:split"
				if !same && verifAliasSpellingInTypeArg(ei.Type, ej.Type, false) {
					// identical types whose spelling of byte/rune differs inside a type-argument list
					key = "C07:split:typearg-alias-spelling"
				}
				if same {
					key = "C07:merge:" + strings.ReplaceAll(verifMergeKind(ei.Type, ej.Type), "typearg:typearg:", "typearg:")
				}
				msg := fmt.Sprintf("[%s] %s\n   vs %s (%s)\n   Identical=%v but TypeName %q vs %q", key, ei.Label, ej.Label, kind, ident, names[i], names[j])
				if c.IsKnown(key) {
					c.KnownHit(key)
					continue
				}
				t.Fatalf("%s\n%s", msg, verifSrc(pool))
			}
		}
		if len(pool.Entries) > 0 {
			e := pool.Entries[len(pool.Entries)/2]
			c.Sample(map[string]any{"entries": len(pool.Entries), "example": e.Label, "class": e.Class, "name": names[len(pool.Entries)/2]})
		}
	})
}

// verifAliasSpellingInTypeArg walks two identical types in parallel and reports whether, somewhere
// inside a type-argument list, one spells a basic type byte/rune where the other spells uint8/int32.
func verifAliasSpellingInTypeArg(a, b types.Type, inArg bool) bool {
	a, b = types.Unalias(a), types.Unalias(b)
	switch x := a.(type) {
	case *types.Basic:
		y, ok := b.(*types.Basic)
		return ok && inArg && x.Name() != y.Name()
	case *types.Named:
		y, ok := b.(*types.Named)
		if !ok || x.TypeArgs().Len() != y.TypeArgs().Len() {
			return false
		}
		for i := 0; i < x.TypeArgs().Len(); i++ {
			xa, ya := x.TypeArgs().At(i), y.TypeArgs().At(i)
			// identical arguments written with different alias names (byte/uint8, rune/int32, type A = B)
			if types.Identical(xa, ya) && types.TypeString(xa, nil) != types.TypeString(ya, nil) {
				return true
			}
			if verifAliasSpellingInTypeArg(xa, ya, true) {
				return true
			}
		}
	case *types.Pointer:
		if y, ok := b.(*types.Pointer); ok {
			return verifAliasSpellingInTypeArg(x.Elem(), y.Elem(), inArg)
		}
	case *types.Slice:
		if y, ok := b.(*types.Slice); ok {
			return verifAliasSpellingInTypeArg(x.Elem(), y.Elem(), inArg)
		}
	case *types.Array:
		if y, ok := b.(*types.Array); ok {
			return verifAliasSpellingInTypeArg(x.Elem(), y.Elem(), inArg)
		}
	case *types.Chan:
		if y, ok := b.(*types.Chan); ok {
			return verifAliasSpellingInTypeArg(x.Elem(), y.Elem(), inArg)
		}
	case *types.Map:
		if y, ok := b.(*types.Map); ok {
			return verifAliasSpellingInTypeArg(x.Key(), y.Key(), inArg) || verifAliasSpellingInTypeArg(x.Elem(), y.Elem(), inArg)
		}
	case *types.Struct:
		if y, ok := b.(*types.Struct); ok && x.NumFields() == y.NumFields() {
			for i := 0; i < x.NumFields(); i++ {
				if verifAliasSpellingInTypeArg(x.Field(i).Type(), y.Field(i).Type(), inArg) {
					return true
				}
			}
		}
	case *types.Tuple:
		if y, ok := b.(*types.Tuple); ok && x.Len() == y.Len() {
			for i := 0; i < x.Len(); i++ {
				if verifAliasSpellingInTypeArg(x.At(i).Type(), y.At(i).Type(), inArg) {
					return true
				}
			}
		}
	case *types.Signature:
		if y, ok := b.(*types.Signature); ok {
			return verifAliasSpellingInTypeArg(x.Params(), y.Params(), inArg) || verifAliasSpellingInTypeArg(x.Results(), y.Results(), inArg)
		}
	case *types.Interface:
		if y, ok := b.(*types.Interface); ok && x.NumMethods() == y.NumMethods() {
			for i := 0; i < x.NumMethods(); i++ {
				if verifAliasSpellingInTypeArg(x.Method(i).Type(), y.Method(i).Type(), inArg) {
					return true
				}
			}
		}
	}
	return false
}

func verifSrc(p *typegen.Pool) string {
	var b strings.Builder
	for k, s := range p.Source {
		fmt.Fprintf(&b, "---- %s ----\n%s\n", k, s)
	}
	return b.String()
}

// verifMergeKind names the single attribute in which two non-identical types with equal names differ
// (used as the key of a finding): walks both types in parallel to the first difference.
func verifMergeKind(a, b types.Type) string {
	a, b = types.Unalias(a), types.Unalias(b)
	switch x := a.(type) {
	case *types.Struct:
		y, ok := b.(*types.Struct)
		if !ok || x.NumFields() != y.NumFields() {
			return "struct-shape"
		}
		for i := 0; i < x.NumFields(); i++ {
			fx, fy := x.Field(i), y.Field(i)
			if fx.Embedded() != fy.Embedded() {
				return "struct-embeddedness"
			}
			if fx.Name() != fy.Name() {
				if fx.Embedded() {
					return "struct-embedded-alias-name"
				}
				return "struct-field-name"
			}
			if !fx.Exported() && fx.Pkg() != fy.Pkg() {
				return "struct-field-pkg"
			}
			if !types.Identical(fx.Type(), fy.Type()) {
				return verifMergeKind(fx.Type(), fy.Type())
			}
			if x.Tag(i) != y.Tag(i) {
				return "struct-tag"
			}
		}
		return "struct-other"
	case *types.Pointer:
		if y, ok := b.(*types.Pointer); ok {
			return verifMergeKind(x.Elem(), y.Elem())
		}
	case *types.Slice:
		if y, ok := b.(*types.Slice); ok {
			return verifMergeKind(x.Elem(), y.Elem())
		}
	case *types.Array:
		if y, ok := b.(*types.Array); ok && x.Len() == y.Len() {
			return verifMergeKind(x.Elem(), y.Elem())
		}
	case *types.Chan:
		if y, ok := b.(*types.Chan); ok && x.Dir() == y.Dir() {
			return verifMergeKind(x.Elem(), y.Elem())
		}
	case *types.Map:
		if y, ok := b.(*types.Map); ok {
			if !types.Identical(x.Key(), y.Key()) {
				return verifMergeKind(x.Key(), y.Key())
			}
			return verifMergeKind(x.Elem(), y.Elem())
		}
	case *types.Signature:
		if y, ok := b.(*types.Signature); ok && x.Params().Len() == y.Params().Len() && x.Results().Len() == y.Results().Len() && x.Variadic() == y.Variadic() {
			for i := 0; i < x.Params().Len(); i++ {
				if !types.Identical(x.Params().At(i).Type(), y.Params().At(i).Type()) {
					return verifMergeKind(x.Params().At(i).Type(), y.Params().At(i).Type())
				}
			}
			for i := 0; i < x.Results().Len(); i++ {
				if !types.Identical(x.Results().At(i).Type(), y.Results().At(i).Type()) {
					return verifMergeKind(x.Results().At(i).Type(), y.Results().At(i).Type())
				}
			}
		}
		return "func-shape"
	case *types.Interface:
		if y, ok := b.(*types.Interface); ok && x.NumMethods() == y.NumMethods() {
			for i := 0; i < x.NumMethods(); i++ {
				mx, my := x.Method(i), y.Method(i)
				if mx.Name() != my.Name() {
					return "iface-method-name"
				}
				if !mx.Exported() && mx.Pkg() != my.Pkg() {
					return "iface-method-pkg"
				}
				if !types.Identical(mx.Type(), my.Type()) {
					return verifMergeKind(mx.Type(), my.Type())
				}
			}
		}
		return "iface-shape"
	case *types.Named:
		if y, ok := b.(*types.Named); ok {
			if x.Obj().Name() == y.Obj().Name() && x.Obj().Pkg() == y.Obj().Pkg() {
				if x.TypeArgs().Len() > 0 && x.TypeArgs().Len() == y.TypeArgs().Len() {
					for i := 0; i < x.TypeArgs().Len(); i++ {
						if !types.Identical(x.TypeArgs().At(i), y.TypeArgs().At(i)) {
							return "typearg:" + verifMergeKind(x.TypeArgs().At(i), y.TypeArgs().At(i))
						}
					}
				}
				return "named-same-name-different-scope"
			}
			return "named"
		}
	}
	return fmt.Sprintf("%T-vs-%T", a, b)
}
