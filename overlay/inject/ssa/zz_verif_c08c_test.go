//go:build !llgo

package ssa

// C08 (C agreement): for structs made only of C-compatible fields, the size, alignment and field offsets
// llgo computes (folded unsafe.Sizeof/Offsetof, LLVM layout of generated code, run-time descriptor) must
// equal the layout a C compiler gives the corresponding C struct.  rapid generates batches of struct
// shapes (every integer width, float, double, _Bool, pointers, uintptr, arrays incl. nested arrays, nested
// structs to depth 3) as a go/types type and as a C declaration; clang (the host C compiler; other targets
// through -target, which only needs clang's built-in target description) prints sizeof, _Alignof and
// __builtin_offsetof of every field as constants of an LLVM global, one invocation per batch and target.

import (
	"fmt"
	"go/types"
	"os"
	"os/exec"
	"path/filepath"
	"regexp"
	"strconv"
	"strings"
	"sync"
	"testing"

	"pgregory.net/rapid"
	"verifstat"
)

var verifCTriples = map[string]string{"amd64": "x86_64-unknown-linux-gnu", "arm64": "aarch64-unknown-linux-gnu", "riscv64": "riscv64-unknown-linux-gnu",
	"386": "i386-unknown-linux-gnu", "arm": "armv7-unknown-linux-gnueabihf", "wasm": "wasm32-unknown-wasi"}

type verifCScalar struct {
	kind types.BasicKind
	c    string
}

var verifCScalars = []verifCScalar{{types.Int8, "signed char"}, {types.Uint8, "unsigned char"}, {types.Int16, "short"}, {types.Uint16, "unsigned short"},
	{types.Int32, "int"}, {types.Uint32, "unsigned int"}, {types.Int64, "long long"}, {types.Uint64, "unsigned long long"}, {types.Float32, "float"},
	{types.Float64, "double"}, {types.Bool, "_Bool"}, {types.Uintptr, "unsigned long"}, {types.UnsafePointer, "void *"}}

type verifCType struct {
	goT    types.Type
	cbase  string // C type before the declarator
	dims   string // array suffix after the declarator
	desc   string
	nested bool
}

type verifCGen struct {
	t     *rapid.T
	defs  strings.Builder // C struct definitions, dependencies first
	nseq  int
	named bool
}

func (g *verifCGen) field(depth int) verifCType {
	k := rapid.IntRange(0, 9).Draw(g.t, "fkind")
	switch {
	case k <= 5 || depth >= 3:
		s := verifCScalars[rapid.IntRange(0, len(verifCScalars)-1).Draw(g.t, "scalar")]
		if s.kind == types.UnsafePointer && rapid.Bool().Draw(g.t, "typedptr") {
			return verifCType{goT: types.NewPointer(types.Typ[types.Int32]), cbase: "int *", desc: "*int32"}
		}
		return verifCType{goT: types.Typ[s.kind], cbase: s.c, desc: types.Typ[s.kind].Name()}
	case k <= 7:
		e := g.field(depth + 1)
		n := rapid.IntRange(1, 5).Draw(g.t, "alen")
		return verifCType{goT: types.NewArray(e.goT, int64(n)), cbase: e.cbase, dims: fmt.Sprintf("[%d]", n) + e.dims, desc: fmt.Sprintf("[%d]%s", n, e.desc), nested: e.nested}
	default:
		id, T, d := g.strukt(depth + 1)
		return verifCType{goT: T, cbase: fmt.Sprintf("struct N%d", id), desc: d, nested: true}
	}
}

// strukt emits the C definition of a fresh struct and returns its id, its Go type and a description.
func (g *verifCGen) strukt(depth int) (int, types.Type, string) {
	nf := rapid.IntRange(1, 7).Draw(g.t, "nfields")
	var fields []*types.Var
	var cdef, desc strings.Builder
	desc.WriteString("struct{")
	for i := 0; i < nf; i++ {
		f := g.field(depth)
		fields = append(fields, types.NewField(0, verifPkg, fmt.Sprintf("F%d", i), f.goT, false))
		fmt.Fprintf(&cdef, "  %s f%d%s;\n", f.cbase, i, f.dims)
		if i > 0 {
			desc.WriteString("; ")
		}
		desc.WriteString(f.desc)
	}
	desc.WriteString("}")
	g.nseq++
	id := g.nseq
	fmt.Fprintf(&g.defs, "struct N%d {\n%s};\n", id, cdef.String())
	var T types.Type = types.NewStruct(fields, nil)
	if rapid.Bool().Draw(g.t, "named") {
		verifNamedSeq++
		T = types.NewNamed(types.NewTypeName(0, verifPkg, fmt.Sprintf("C%d", verifNamedSeq), nil), T, nil)
	}
	return id, T, desc.String()
}

var verifCLine = regexp.MustCompile(`@v_N(\d+) = [^\[]*\[\d+ x i(?:32|64)\] \[([^\]]*)\]`)

func verifClangLayout(dir, triple, src string) (map[int][]int64, error) {
	f := filepath.Join(dir, "l.c")
	if err := os.WriteFile(f, []byte(src), 0o644); err != nil {
		return nil, err
	}
	clang := "/usr/lib/llvm-14/bin/clang"
	if _, err := os.Stat(clang); err != nil {
		clang = "clang"
	}
	out, err := exec.Command(clang, "-target", triple, "-S", "-emit-llvm", "-o", "-", f).CombinedOutput()
	if err != nil {
		return nil, fmt.Errorf("%v: %s", err, out)
	}
	res := map[int][]int64{}
	for _, m := range verifCLine.FindAllStringSubmatch(string(out), -1) {
		id, _ := strconv.Atoi(m[1])
		var vals []int64
		for _, p := range strings.Split(m[2], ",") {
			fs := strings.Fields(p)
			v, _ := strconv.ParseInt(fs[len(fs)-1], 10, 64)
			vals = append(vals, v)
		}
		res[id] = vals
	}
	return res, nil
}

func TestVerifC08CLayout(t *testing.T) {
	c := verifstat.For("C08")
	defer c.Flush()
	verifPrograms(t)
	dir := t.TempDir()
	rapid.Check(t, func(t *rapid.T) {
		g := &verifCGen{t: t}
		type top struct {
			id   int
			T    types.Type
			desc string
		}
		var tops []top
		nb := rapid.IntRange(1, 10).Draw(t, "batch")
		var tab strings.Builder
		for b := 0; b < nb; b++ {
			id, T, d := g.strukt(0)
			tops = append(tops, top{id, T, d})
			st := verifStruct(T)
			fmt.Fprintf(&tab, "const unsigned long v_N%d[] = { sizeof(struct N%d), _Alignof(struct N%d)", id, id, id)
			for j := 0; j < st.NumFields(); j++ {
				fmt.Fprintf(&tab, ", __builtin_offsetof(struct N%d, f%d)", id, j)
			}
			tab.WriteString(" };\n")
		}
		src := g.defs.String() + tab.String()
		// one clang invocation per target, all six at once
		type clRes struct {
			m   map[int][]int64
			err error
		}
		cls := make([]clRes, len(verifTargets))
		var wg sync.WaitGroup
		for i := range verifTargets {
			wg.Add(1)
			go func(i int) {
				defer wg.Done()
				d := filepath.Join(dir, verifTargets[i].goarch)
				os.MkdirAll(d, 0o755)
				cls[i].m, cls[i].err = verifClangLayout(d, verifCTriples[verifTargets[i].goarch], src)
			}(i)
		}
		wg.Wait()
		for i, prog := range verifProgs {
			tg := verifTargets[i]
			S := verifSizes[i]
			cl, err := cls[i].m, cls[i].err
			if err != nil {
				t.Fatalf("VERIF-INFRA clang: %v\n%s", err, src)
			}
			for _, tp := range tops {
				want := cl[tp.id]
				st := verifStruct(tp.T)
				if len(want) != 2+st.NumFields() {
					t.Fatalf("VERIF-INFRA clang output lacks struct N%d (%d values)\n%s", tp.id, len(want), src)
				}
				nested := strings.Contains(tp.desc[1:], "struct{")
				nt := nested || strings.Contains(tp.desc, "[")
				c.Case(verifstat.Hash("clayout", tp.desc, tg.goarch), nt, "c_layout", "c_target_"+tg.goarch)
				thirtyTwo := tg.goarch == "arm" || tg.goarch == "wasm" || tg.goarch == "386"
				if thirtyTwo && verifHas64(tp.T) {
					// the three computations already disagree with one another here (listed finding): there is no single number to compare with C
					c.Exclude("C08:size:64bit-scalar-on-32bit-target")
					continue
				}
				if tg.goarch == "wasm" && nested {
					c.Exclude("C08:size:wasm-struct-layout")
					continue
				}
				lt := prog.Type(tp.T, InGo)
				fail := func(what string, cv, a, b, d int64) {
					key := "C08:c-" + what
					if c.IsKnown(key) {
						c.KnownHit(key)
						return
					}
					t.Fatalf("[%s] %s/%s, Go %s: C compiler (%s) says %d; unsafe folds %d, LLVM layout %d, descriptor %d\n%s", key, tg.goos, tg.goarch, tp.desc, verifCTriples[tg.goarch], cv, a, b, d, src)
				}
				aSize, bSize, dSize := S.Sizeof(tp.T), int64(prog.SizeOf(lt)), int64(prog.abi.Size(lt.RawType()))
				if want[0] != aSize || want[0] != bSize || want[0] != dSize {
					fail("size", want[0], aSize, bSize, dSize)
					continue
				}
				aAl, bAl, dAl := S.Alignof(tp.T), int64(prog.td.ABITypeAlignment(lt.ll)), int64(prog.abi.Align(lt.RawType()))
				if want[1] != aAl || want[1] != bAl || want[1] != dAl {
					fail("align", want[1], aAl, bAl, dAl)
					continue
				}
				var fields []*types.Var
				for j := 0; j < st.NumFields(); j++ {
					fields = append(fields, st.Field(j))
				}
				aOffs := S.Offsetsof(fields)
				for j := range fields {
					bOff := int64(prog.OffsetOf(lt, j))
					if want[2+j] != aOffs[j] || want[2+j] != bOff {
						fail("offset", want[2+j], aOffs[j], bOff, bOff)
						break
					}
				}
				if nt && tg.goarch == "amd64" {
					c.Sample(map[string]any{"job": "clayout", "go": tp.desc, "c_sizeof_alignof_offsets_amd64": want})
				}
			}
		}
	})
}
