//go:build !llgo

package ssa

// C08a: for generated types and every supported pointer width, the size, alignment and field offsets
// (a) folded into unsafe.Sizeof/Alignof/Offsetof (Program.TypeSizes), (b) of the LLVM type that
// generated code allocates and addresses (target data layout) and (c) recorded in run-time type
// descriptors (abi.Builder.Size/Align + LLVM element offsets) must be the same numbers.

import (
	"fmt"
	"go/token"
	"go/types"
	"strings"
	"sync"
	"testing"

	"github.com/goplus/gogen/packages"
	"pgregory.net/rapid"
	"verifstat"
)

type verifTarget struct{ goos, goarch string }

var verifTargets = []verifTarget{{"linux", "amd64"}, {"linux", "arm64"}, {"linux", "riscv64"}, {"linux", "386"}, {"linux", "arm"}, {"wasip1", "wasm"}}

var (
	verifProgOnce sync.Once
	verifProgs    []Program
	verifSizes    []types.Sizes
	verifPkg      = types.NewPackage("example.com/v", "v")
)

func verifPrograms(t testing.TB) {
	verifProgOnce.Do(func() {
		Initialize(InitAll)
		fset := token.NewFileSet()
		imp := packages.NewImporter(fset)
		for _, tg := range verifTargets {
			prog := NewProgram(&Target{GOOS: tg.goos, GOARCH: tg.goarch})
			prog.SetRuntime(func() *types.Package {
				rt, err := imp.Import(PkgRuntime)
				if err != nil {
					panic("VERIF-INFRA load runtime: " + err.Error())
				}
				return rt
			})
			// exactly what internal/build.Do installs
			var base types.Sizes = types.SizesFor("gc", tg.goarch)
			if tg.goarch == "wasm" {
				base = &types.StdSizes{WordSize: 4, MaxAlign: 4}
			}
			verifProgs = append(verifProgs, prog)
			verifSizes = append(verifSizes, prog.TypeSizes(base))
		}
	})
}

var verifBasics = []types.BasicKind{types.Bool, types.Int8, types.Uint8, types.Int16, types.Uint16, types.Int32, types.Uint32, types.Int64, types.Uint64,
	types.Int, types.Uint, types.Uintptr, types.Float32, types.Float64, types.Complex64, types.Complex128, types.String, types.UnsafePointer}

var verifNamedSeq int

func verifGenType(t *rapid.T, depth int, desc *strings.Builder) types.Type {
	k := rapid.IntRange(0, 13).Draw(t, "kind")
	if depth >= 3 && k > 5 {
		k = k % 6
	}
	switch k {
	case 0, 1, 2:
		b := types.Typ[rapid.SampledFrom(verifBasics).Draw(t, "basic")]
		desc.WriteString(b.Name())
		return b
	case 3:
		desc.WriteString("*")
		return types.NewPointer(verifGenType(t, depth+1, desc))
	case 4:
		desc.WriteString("[]")
		return types.NewSlice(verifGenType(t, depth+1, desc))
	case 5:
		switch rapid.IntRange(0, 4).Draw(t, "ref") {
		case 0:
			desc.WriteString("map[int]string")
			return types.NewMap(types.Typ[types.Int], types.Typ[types.String])
		case 1:
			desc.WriteString("chan int8")
			return types.NewChan(types.SendRecv, types.Typ[types.Int8])
		case 2:
			desc.WriteString("func(int)")
			return types.NewSignatureType(nil, nil, nil, types.NewTuple(types.NewParam(0, nil, "", types.Typ[types.Int])), nil, false)
		case 3:
			desc.WriteString("any")
			return types.NewInterfaceType(nil, nil).Complete()
		}
		desc.WriteString("interface{M()}")
		m := types.NewFunc(0, verifPkg, "M", types.NewSignatureType(nil, nil, nil, nil, nil, false))
		return types.NewInterfaceType([]*types.Func{m}, nil).Complete()
	case 6, 7:
		n := rapid.SampledFrom([]int64{0, 1, 2, 3, 5}).Draw(t, "alen")
		fmt.Fprintf(desc, "[%d]", n)
		return types.NewArray(verifGenType(t, depth+1, desc), n)
	case 8:
		verifNamedSeq++
		desc.WriteString("named(")
		u := verifGenType(t, depth+1, desc)
		desc.WriteString(")")
		return types.NewNamed(types.NewTypeName(0, verifPkg, fmt.Sprintf("N%d", verifNamedSeq), nil), u.Underlying(), nil)
	default:
		n := rapid.IntRange(0, 6).Draw(t, "nfields")
		var fs []*types.Var
		desc.WriteString("struct{")
		for i := 0; i < n; i++ {
			name := fmt.Sprintf("f%d", i)
			if rapid.IntRange(0, 7).Draw(t, "blank") == 0 {
				name = "_"
			}
			if i > 0 {
				desc.WriteString("; ")
			}
			fs = append(fs, types.NewField(0, verifPkg, name, verifGenType(t, depth+1, desc), false))
		}
		desc.WriteString("}")
		return types.NewStruct(fs, nil)
	}
}

func verifStruct(T types.Type) *types.Struct {
	s, _ := T.Underlying().(*types.Struct)
	return s
}

func TestVerifC08Layout(t *testing.T) {
	c := verifstat.For("C08")
	defer c.Flush()
	verifPrograms(t)
	rapid.Check(t, func(t *rapid.T) {
		var desc strings.Builder
		T := verifGenType(t, 0, &desc)
		d := desc.String()
		nt := strings.Contains(d, "struct{") || strings.Contains(d, "func(") || strings.Contains(d, "[0]") || strings.Contains(d, "complex")
		for i, prog := range verifProgs {
			tg := verifTargets[i]
			S := verifSizes[i]
			c.Case(verifstat.Hash("layout", d, tg.goarch), nt, "layout", "target_"+tg.goarch)
			// (a) compile-time folding
			aSize, aAlign := S.Sizeof(T), S.Alignof(T)
			// (b) LLVM layout of the value llgo allocates
			lt := prog.Type(T, InGo)
			bSize := int64(prog.SizeOf(lt))
			bAlign := int64(prog.td.ABITypeAlignment(lt.ll))
			// (c) run-time descriptor
			// (queried on the converted type, as abiType does: a func value is described as its two-word closure)
			cSize, cAlign := int64(prog.abi.Size(lt.RawType())), int64(prog.abi.Align(lt.RawType()))
			key := func(what string) string {
				k := "C08:" + what
				if (tg.goarch == "arm" || tg.goarch == "wasm" || tg.goarch == "386") && verifHas64(T) {
					k += ":64bit-scalar-on-32bit-target"
				} else if tg.goarch == "wasm" && strings.Contains(d, "struct{") {
					k += ":wasm-struct-layout"
				} else if verifTrailingZero(T, S) {
					k += ":trailing-zero-size-field"
				}
				return k
			}
			report := func(k, msg string) {
				if c.IsKnown(k) {
					c.KnownHit(k)
					return
				}
				t.Fatalf("[%s] %s/%s, type %s: %s", k, tg.goos, tg.goarch, d, msg)
			}
			if aSize != bSize || aSize != cSize {
				report(key("size"), fmt.Sprintf("unsafe.Sizeof folds to %d, LLVM allocates %d, descriptor says %d", aSize, bSize, cSize))
				continue
			}
			if aAlign != bAlign || aAlign != cAlign {
				report(key("align"), fmt.Sprintf("unsafe.Alignof folds to %d, LLVM aligns to %d, descriptor says %d", aAlign, bAlign, cAlign))
				continue
			}
			if st := verifStruct(T); st != nil && st.NumFields() > 0 {
				var fields []*types.Var
				for j := 0; j < st.NumFields(); j++ {
					fields = append(fields, st.Field(j))
				}
				aOffs := S.Offsetsof(fields)
				for j := range fields {
					if bOff := int64(prog.OffsetOf(lt, j)); aOffs[j] != bOff {
						report(key("offset"), fmt.Sprintf("field %d: unsafe.Offsetof folds to %d, generated code and descriptors use %d", j, aOffs[j], bOff))
						break
					}
				}
			}
		}
		if nt {
			c.Sample(map[string]any{"type": d})
		}
	})
}

func verifHas64(T types.Type) bool {
	switch t := T.Underlying().(type) {
	case *types.Basic:
		switch t.Kind() {
		case types.Int64, types.Uint64, types.Float64, types.Complex128:
			return true
		}
	case *types.Array:
		return verifHas64(t.Elem())
	case *types.Struct:
		for i := 0; i < t.NumFields(); i++ {
			if verifHas64(t.Field(i).Type()) {
				return true
			}
		}
	}
	return false
}

// verifTrailingZero: does T contain (at any depth) a non-empty struct whose last field has size zero?
func verifTrailingZero(T types.Type, S types.Sizes) bool {
	switch t := T.Underlying().(type) {
	case *types.Array:
		return verifTrailingZero(t.Elem(), S)
	case *types.Struct:
		n := t.NumFields()
		for i := 0; i < n; i++ {
			if verifTrailingZero(t.Field(i).Type(), S) {
				return true
			}
		}
		if n > 1 && S.Sizeof(t.Field(n-1).Type()) == 0 {
			for i := 0; i < n-1; i++ {
				if S.Sizeof(t.Field(i).Type()) > 0 {
					return true
				}
			}
		}
	}
	return false
}
