//go:build !llgo

package ssa

// C08a: for generated types and every supported pointer width, the size, alignment and field offsets
// (a) folded into unsafe.Sizeof/Alignof/Offsetof (Program.TypeSizes), (b) of the LLVM type that
// generated code allocates and addresses (target data layout) and (c) recorded in run-time type
// descriptors (abi.Builder.Size/Align + LLVM element offsets) must be the same numbers.

import (
	"fmt"
	"go/token"
	"go/types"
	"strings"
	"sync"
	"testing"

	"github.com/goplus/gogen/packages"
	"pgregory.net/rapid"
	"verifstat"
)

type verifTarget struct{ goos, goarch string }

var verifTargets = []verifTarget{{"linux", "amd64"}, {"linux", "arm64"}, {"linux", "riscv64"}, {"linux", "386"}, {"linux", "arm"}, {"wasip1", "wasm"}}

var (
	verifProgOnce sync.Once
	verifProgs    []Program
	verifSizes    []types.Sizes
	verifPkg      = types.NewPackage("example.com/v", "v")
)

func verifPrograms(t testing.TB) {
	verifProgOnce.Do(func() {
		Initialize(InitAll)
		fset := token.NewFileSet()
		imp := packages.NewImporter(fset)
		for _, tg := range verifTargets {
			prog := NewProgram(&Target{GOOS: tg.goos, GOARCH: tg.goarch})
			prog.SetRuntime(func() *types.Package {
				rt, err := imp.Import(PkgRuntime)
				if err != nil {
					panic("VERIF-INFRA load runtime: " + err.Error())
				}
				// the export data of the runtime does not carry unexported functions; the map descriptor only
				// needs the address of this one
				if ab, err := imp.Import("github.com/goplus/llgo/runtime/abi"); err == nil {
					for lower, exported := range map[string]string{"_type": "Type", "arraytype": "ArrayType", "chantype": "ChanType", "functype": "FuncType", "interfacetype": "InterfaceType",
						"maptype": "MapType", "name": "Name", "ptrtype": "PtrType", "slicetype": "SliceType", "structfield": "StructField", "structtype": "StructType", "uncommonType": "UncommonType"} {
						if o := ab.Scope().Lookup(exported); o != nil && rt.Scope().Lookup(lower) == nil {
							rt.Scope().Insert(types.NewTypeName(0, rt, lower, o.Type()))
						}
					}
				}
				up := types.Typ[types.UnsafePointer]
				eqSig := types.NewSignatureType(nil, nil, nil, types.NewTuple(types.NewParam(0, nil, "p", up), types.NewParam(0, nil, "q", up)), types.NewTuple(types.NewParam(0, nil, "", types.Typ[types.Bool])), false)
				for _, fn := range []string{"typehash", "structequal", "arrayequal", "c128equal", "c64equal", "f32equal", "f64equal", "interequal", "memequal0", "memequal8", "memequal16", "memequal32", "memequal64", "memequal128", "memequalptr", "nilinterequal", "strequal"} {
					if rt.Scope().Lookup(fn) == nil {
						rt.Scope().Insert(types.NewFunc(0, rt, fn, eqSig))
					}
				}
				return rt
			})
			// exactly what internal/build.Do installs
			var base types.Sizes = types.SizesFor("gc", tg.goarch)
			if tg.goarch == "wasm" {
				base = &types.StdSizes{WordSize: 4, MaxAlign: 4}
			}
			verifProgs = append(verifProgs, prog)
			verifSizes = append(verifSizes, prog.TypeSizes(base))
		}
	})
}

var verifBasics = []types.BasicKind{types.Bool, types.Int8, types.Uint8, types.Int16, types.Uint16, types.Int32, types.Uint32, types.Int64, types.Uint64,
	types.Int, types.Uint, types.Uintptr, types.Float32, types.Float64, types.Complex64, types.Complex128, types.String, types.UnsafePointer}

var verifNamedSeq int

func verifGenType(t *rapid.T, depth int, desc *strings.Builder) types.Type {
	k := rapid.IntRange(0, 15).Draw(t, "kind")
	if depth >= 3 && k > 5 {
		k = k % 6
	}
	if k >= 14 {
		return verifGenericInstance(t, depth, desc)
	}
	switch k {
	case 0, 1, 2:
		b := types.Typ[rapid.SampledFrom(verifBasics).Draw(t, "basic")]
		desc.WriteString(b.Name())
		return b
	case 3:
		desc.WriteString("*")
		return types.NewPointer(verifGenType(t, depth+1, desc))
	case 4:
		desc.WriteString("[]")
		return types.NewSlice(verifGenType(t, depth+1, desc))
	case 5:
		switch rapid.IntRange(0, 4).Draw(t, "ref") {
		case 0:
			desc.WriteString("map[int]string")
			return types.NewMap(types.Typ[types.Int], types.Typ[types.String])
		case 1:
			desc.WriteString("chan int8")
			return types.NewChan(types.SendRecv, types.Typ[types.Int8])
		case 2:
			desc.WriteString("func(int)")
			return types.NewSignatureType(nil, nil, nil, types.NewTuple(types.NewParam(0, nil, "", types.Typ[types.Int])), nil, false)
		case 3:
			desc.WriteString("any")
			return types.NewInterfaceType(nil, nil).Complete()
		}
		desc.WriteString("interface{M()}")
		m := types.NewFunc(0, verifPkg, "M", types.NewSignatureType(nil, nil, nil, nil, nil, false))
		return types.NewInterfaceType([]*types.Func{m}, nil).Complete()
	case 6, 7:
		n := rapid.SampledFrom([]int64{0, 1, 2, 3, 5}).Draw(t, "alen")
		fmt.Fprintf(desc, "[%d]", n)
		return types.NewArray(verifGenType(t, depth+1, desc), n)
	case 8:
		verifNamedSeq++
		desc.WriteString("named(")
		u := verifGenType(t, depth+1, desc)
		desc.WriteString(")")
		return types.NewNamed(types.NewTypeName(0, verifPkg, fmt.Sprintf("N%d", verifNamedSeq), nil), u.Underlying(), nil)
	default:
		n := rapid.IntRange(0, 6).Draw(t, "nfields")
		var fs []*types.Var
		desc.WriteString("struct{")
		for i := 0; i < n; i++ {
			name := fmt.Sprintf("f%d", i)
			if rapid.IntRange(0, 7).Draw(t, "blank") == 0 {
				name = "_"
			}
			if i > 0 {
				desc.WriteString("; ")
			}
			fs = append(fs, types.NewField(0, verifPkg, name, verifGenType(t, depth+1, desc), false))
		}
		desc.WriteString("}")
		return types.NewStruct(fs, nil)
	}
}

// verifGenericInstance declares a generic named type whose layout depends on its type parameter by value
// (type G[T any] struct{ v T; n int32 }, [2]T, struct{ a int8; v T }, a struct nesting another instance) and
// instantiates it with a generated type argument.
func verifGenericInstance(t *rapid.T, depth int, desc *strings.Builder) types.Type {
	verifNamedSeq++
	anyT := types.Universe.Lookup("any").Type()
	mk := func(body func(tp *types.TypeParam) types.Type) *types.Named {
		verifNamedSeq++
		tp := types.NewTypeParam(types.NewTypeName(0, verifPkg, "T", nil), anyT)
		n := types.NewNamed(types.NewTypeName(0, verifPkg, fmt.Sprintf("G%d", verifNamedSeq), nil), nil, nil)
		n.SetTypeParams([]*types.TypeParam{tp})
		n.SetUnderlying(body(tp))
		return n
	}
	i32, i8 := types.Typ[types.Int32], types.Typ[types.Int8]
	form := rapid.IntRange(0, 3).Draw(t, "genericForm")
	var g *types.Named
	switch form {
	case 0:
		desc.WriteString("generic struct{v T; n int32}[")
		g = mk(func(tp *types.TypeParam) types.Type {
			return types.NewStruct([]*types.Var{types.NewField(0, verifPkg, "v", tp, false), types.NewField(0, verifPkg, "n", i32, false)}, nil)
		})
	case 1:
		desc.WriteString("generic [2]T[")
		g = mk(func(tp *types.TypeParam) types.Type { return types.NewArray(tp, 2) })
	case 2:
		desc.WriteString("generic struct{a int8; v T}[")
		g = mk(func(tp *types.TypeParam) types.Type {
			return types.NewStruct([]*types.Var{types.NewField(0, verifPkg, "a", i8, false), types.NewField(0, verifPkg, "v", tp, false)}, nil)
		})
	default:
		desc.WriteString("generic struct{in Inner[T]; tail int8}[")
		inner := mk(func(tp *types.TypeParam) types.Type {
			return types.NewStruct([]*types.Var{types.NewField(0, verifPkg, "v", tp, false), types.NewField(0, verifPkg, "n", i32, false)}, nil)
		})
		g = mk(func(tp *types.TypeParam) types.Type {
			in, err := types.Instantiate(nil, inner, []types.Type{tp}, false)
			if err != nil {
				panic("VERIF-INFRA instantiate: " + err.Error())
			}
			return types.NewStruct([]*types.Var{types.NewField(0, verifPkg, "in", in, false), types.NewField(0, verifPkg, "tail", i8, false)}, nil)
		})
	}
	arg := verifGenType(t, depth+1, desc)
	desc.WriteString("]")
	inst, err := types.Instantiate(types.NewContext(), g, []types.Type{arg}, false)
	if err != nil {
		panic("VERIF-INFRA instantiate: " + err.Error())
	}
	return inst
}

func verifStruct(T types.Type) *types.Struct {
	s, _ := T.Underlying().(*types.Struct)
	return s
}

func TestVerifC08Layout(t *testing.T) {
	c := verifstat.For("C08")
	defer c.Flush()
	verifPrograms(t)
	rapid.Check(t, func(t *rapid.T) {
		var desc strings.Builder
		T := verifGenType(t, 0, &desc)
		d := desc.String()
		nt := strings.Contains(d, "struct{") || strings.Contains(d, "func(") || strings.Contains(d, "[0]") || strings.Contains(d, "complex")
		if strings.Contains(d, "generic ") {
			c.Class("generic_instance")
			if strings.Contains(d[strings.Index(d, "generic "):], "func(") {
				c.Class("generic_instance_with_func_argument")
			}
		}
		for i, prog := range verifProgs {
			tg := verifTargets[i]
			S := verifSizes[i]
			c.Case(verifstat.Hash("layout", d, tg.goarch), nt, "layout", "target_"+tg.goarch)
			// (a) compile-time folding
			aSize, aAlign := S.Sizeof(T), S.Alignof(T)
			// (b) LLVM layout of the value llgo allocates
			lt := prog.Type(T, InGo)
			bSize := int64(prog.SizeOf(lt))
			bAlign := int64(prog.td.ABITypeAlignment(lt.ll))
			// (c) run-time descriptor
			// (queried on the converted type, as abiType does: a func value is described as its two-word closure)
			cSize, cAlign := int64(prog.abi.Size(lt.RawType())), int64(prog.abi.Align(lt.RawType()))
			key := func(what string) string {
				k := "C08:" + what
				if (tg.goarch == "arm" || tg.goarch == "wasm" || tg.goarch == "386") && verifHas64(T) {
					k += ":64bit-scalar-on-32bit-target"
				} else if tg.goarch == "wasm" && strings.Contains(d, "struct{") {
					k += ":wasm-struct-layout"
				} else if verifTrailingZero(T, S) {
					k += ":trailing-zero-size-field"
				}
				return k
			}
			report := func(k, msg string) {
				if c.IsKnown(k) {
					c.KnownHit(k)
					return
				}
				t.Fatalf("[%s] %s/%s, type %s: %s", k, tg.goos, tg.goarch, d, msg)
			}
			if aSize != bSize || aSize != cSize {
				report(key("size"), fmt.Sprintf("unsafe.Sizeof folds to %d, LLVM allocates %d, descriptor says %d", aSize, bSize, cSize))
				continue
			}
			if aAlign != bAlign || aAlign != cAlign {
				report(key("align"), fmt.Sprintf("unsafe.Alignof folds to %d, LLVM aligns to %d, descriptor says %d", aAlign, bAlign, cAlign))
				continue
			}
			if st := verifStruct(T); st != nil && st.NumFields() > 0 {
				var fields []*types.Var
				for j := 0; j < st.NumFields(); j++ {
					fields = append(fields, st.Field(j))
				}
				aOffs := S.Offsetsof(fields)
				for j := range fields {
					if bOff := int64(prog.OffsetOf(lt, j)); aOffs[j] != bOff {
						report(key("offset"), fmt.Sprintf("field %d: unsafe.Offsetof folds to %d, generated code and descriptors use %d", j, aOffs[j], bOff))
						break
					}
				}
			}
		}
		if nt {
			c.Sample(map[string]any{"type": d})
		}
	})
}

func verifHas64(T types.Type) bool {
	switch t := T.Underlying().(type) {
	case *types.Basic:
		switch t.Kind() {
		case types.Int64, types.Uint64, types.Float64, types.Complex128:
			return true
		}
	case *types.Array:
		return verifHas64(t.Elem())
	case *types.Struct:
		for i := 0; i < t.NumFields(); i++ {
			if verifHas64(t.Field(i).Type()) {
				return true
			}
		}
	}
	return false
}

// verifTrailingZero: does T contain (at any depth) a non-empty struct whose last field has size zero?
func verifTrailingZero(T types.Type, S types.Sizes) bool {
	switch t := T.Underlying().(type) {
	case *types.Array:
		return verifTrailingZero(t.Elem(), S)
	case *types.Struct:
		n := t.NumFields()
		for i := 0; i < n; i++ {
			if verifTrailingZero(t.Field(i).Type(), S) {
				return true
			}
		}
		if n > 1 && S.Sizeof(t.Field(n-1).Type()) == 0 {
			for i := 0; i < n-1; i++ {
				if S.Sizeof(t.Field(i).Type()) > 0 {
					return true
				}
			}
		}
	}
	return false
}

// TestVerifC08MapDescriptor: the numbers a map descriptor records (key slot size, elem slot size, bucket size,
// indirect-key / indirect-elem flags) must agree with the bucket struct whose layout generated code and the
// runtime address, on every target: a slot is a pointer exactly when the flag says indirect, the slot size is
// the size of the bucket's key (elem) array element, and the bucket size is the allocated size of the bucket.
func TestVerifC08MapDescriptor(t *testing.T) {
	c := verifstat.For("C08")
	defer c.Flush()
	verifPrograms(t)
	type bctx struct {
		b Builder
	}
	var ctxs []bctx
	for _, prog := range verifProgs {
		pkg := prog.NewPackage("verifmap", "verifmap")
		fn := pkg.NewFunc("f", types.NewSignatureType(nil, nil, nil, nil, nil, false), InGo)
		ctxs = append(ctxs, bctx{fn.MakeBody(1)})
	}
	sized := func(t *rapid.T, label string, comparable bool) (types.Type, string) {
		// sizes around the inline limit (128 bytes) are what the three sites must agree on
		n := rapid.SampledFrom([]int64{1, 8, 64, 120, 127, 128, 129, 136, 256}).Draw(t, label+"bytes")
		switch rapid.IntRange(0, 3).Draw(t, label+"form") {
		case 0:
			return types.NewArray(types.Typ[types.Uint8], n), fmt.Sprintf("[%d]uint8", n)
		case 1:
			if n%8 == 0 {
				return types.NewArray(types.Typ[types.Int64], n/8), fmt.Sprintf("[%d]int64", n/8)
			}
			return types.NewArray(types.Typ[types.Uint8], n), fmt.Sprintf("[%d]uint8", n)
		case 2:
			if n > 8 {
				st := types.NewStruct([]*types.Var{types.NewField(0, verifPkg, "a", types.NewArray(types.Typ[types.Uint8], n-8), false), types.NewField(0, verifPkg, "p", types.Typ[types.Uintptr], false)}, nil)
				return st, fmt.Sprintf("struct{a [%d]uint8; p uintptr}", n-8)
			}
			return types.Typ[types.String], "string"
		}
		if comparable {
			return types.NewPointer(types.NewArray(types.Typ[types.Uint8], n)), fmt.Sprintf("*[%d]uint8", n)
		}
		return types.NewSlice(types.NewArray(types.Typ[types.Uint8], n)), fmt.Sprintf("[][%d]uint8", n)
	}
	rapid.Check(t, func(t *rapid.T) {
		K, kd := sized(t, "key", true)
		E, ed := sized(t, "elem", false)
		M := types.NewMap(K, E)
		d := "map[" + kd + "]" + ed
		for i, prog := range verifProgs {
			tg := verifTargets[i]
			S := verifSizes[i]
			ks, es := S.Sizeof(K), S.Sizeof(E)
			atLimit := ks == 128 || es == 128 || ks == 129 || es == 129 || ks == 127 || es == 127
			c.Case(verifstat.Hash("mapdesc", d, tg.goarch), atLimit, "map_descriptor", "target_"+tg.goarch)
			if ks == 128 || es == 128 {
				c.Class("slot_exactly_at_inline_limit")
			}
			fields := ctxs[i].b.abiExtendedFields(M, "verif")
			if len(fields) != 8 {
				t.Fatalf("VERIF-INFRA map descriptor has %d extended fields", len(fields))
			}
			keySlot, elemSlot := int64(fields[4].ZExtValue()), int64(fields[5].ZExtValue())
			bucketSize, flags := int64(fields[6].ZExtValue()), int64(fields[7].ZExtValue())
			bucket := prog.abi.MapBucket(M)
			bst := bucket.Underlying().(*types.Struct)
			// fields: tophash, keys, elems, overflow
			keyArr, elemArr := bst.Field(1).Type().(*types.Array), bst.Field(2).Type().(*types.Array)
			_, keyPtr := keyArr.Elem().(*types.Pointer)
			_, elemPtr := elemArr.Elem().(*types.Pointer)
			keyIndirectInBucket := keyPtr && !types.Identical(keyArr.Elem(), K)
			elemIndirectInBucket := elemPtr && !types.Identical(elemArr.Elem(), E)
			lb := prog.Type(bucket, InGo)
			fail := func(msg string) {
				k := "C08:map-descriptor"
				if c.IsKnown(k) {
					c.KnownHit(k)
					return
				}
				t.Fatalf("[%s] %s/%s, %s: %s (descriptor: key slot %d, elem slot %d, bucket %d, flags %#x)", k, tg.goos, tg.goarch, d, msg, keySlot, elemSlot, bucketSize, flags)
			}
			switch {
			case (flags&1 != 0) != keyIndirectInBucket:
				fail(fmt.Sprintf("indirect-key flag disagrees with the bucket, whose key slots have type %s", keyArr.Elem()))
			case (flags&2 != 0) != elemIndirectInBucket:
				fail(fmt.Sprintf("indirect-elem flag disagrees with the bucket, whose elem slots have type %s", elemArr.Elem()))
			case keySlot != S.Sizeof(keyArr.Elem()):
				fail(fmt.Sprintf("key slot size disagrees with the bucket's key slots of %d bytes", S.Sizeof(keyArr.Elem())))
			case elemSlot != S.Sizeof(elemArr.Elem()):
				fail(fmt.Sprintf("elem slot size disagrees with the bucket's elem slots of %d bytes", S.Sizeof(elemArr.Elem())))
			case bucketSize != int64(prog.SizeOf(lb)):
				if verifHas64(bucket) && (tg.goarch == "arm" || tg.goarch == "386" || tg.goarch == "wasm") {
					k := "C08:size:64bit-scalar-on-32bit-target"
					if c.IsKnown(k) {
						c.KnownHit(k)
						continue
					}
				}
				fail(fmt.Sprintf("bucket size disagrees with the %d bytes generated code allocates for the bucket", prog.SizeOf(lb)))
			}
		}
		c.Sample(map[string]any{"map": d})
	})
}
