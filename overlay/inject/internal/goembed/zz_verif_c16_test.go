package goembed

// C16a: for generated package directory trees and //go:embed lines, the patterns, the embedded file
// set and the bytes computed by this package equal what `go list -e -json` (the reference toolchain)
// reports for the same directory, and a package the go tool rejects is rejected.

import (
	"bytes"
	"encoding/json"
	"fmt"
	"go/ast"
	"go/parser"
	"go/token"
	"os"
	"os/exec"
	"path/filepath"
	"sort"
	"strconv"
	"strings"
	"testing"

	"pgregory.net/rapid"
	"verifstat"
)

var verifNames = []string{"a", "b", "x.txt", "data.bin", ".hidden", "_under", "with space", "uni世.txt", "sub", "dir", "deep", ".git", "a:b", "READ ME", "z_", ".x", "_", "a.b.d", "CON", "é"}

type verifPkg struct {
	Dir      string   `json:"dir"`
	Tree     []string `json:"tree"` // relative paths; trailing / = directory; "->x" suffix = symlink
	Line     string   `json:"directive"`
	Patterns []string `json:"patterns"`
	Classes  []string `json:"classes"`
}

func verifGenTree(t *rapid.T, dir string, depth int, tree *[]string, rel string) {
	n := rapid.IntRange(0, 5).Draw(t, "nentries")
	if depth == 0 && n == 0 {
		n = 1
	}
	used := map[string]bool{"p.go": true}
	for i := 0; i < n; i++ {
		name := rapid.SampledFrom(verifNames).Draw(t, "name")
		if used[name] {
			continue
		}
		used[name] = true
		p := filepath.Join(dir, name)
		r := name
		if rel != "" {
			r = rel + "/" + name
		}
		kind := rapid.IntRange(0, 9).Draw(t, "kind")
		switch {
		case kind <= 4 || depth >= 3: // file
			sz := rapid.IntRange(0, 40).Draw(t, "size")
			os.WriteFile(p, bytes.Repeat([]byte{byte('a' + i)}, sz), 0o644)
			*tree = append(*tree, r)
		case kind <= 7: // directory (maybe empty, maybe a nested module)
			os.Mkdir(p, 0o755)
			*tree = append(*tree, r+"/")
			if rapid.IntRange(0, 7).Draw(t, "nestedmod") == 0 {
				os.WriteFile(filepath.Join(p, "go.mod"), []byte("module nested\n\ngo 1.21\n"), 0o644)
				*tree = append(*tree, r+"/go.mod")
			}
			verifGenTree(t, p, depth+1, tree, r)
		case kind == 8: // symlink to a file or directory of the same level
			tgt := rapid.SampledFrom(verifNames).Draw(t, "linktarget")
			os.Symlink(tgt, p)
			*tree = append(*tree, r+"->"+tgt)
		default: // file with fixed larger content
			os.WriteFile(p, []byte(strings.Repeat(r+"\n", 50)), 0o644)
			*tree = append(*tree, r)
		}
	}
}

func verifGlobify(t *rapid.T, s string) string {
	rs := []rune(s)
	if len(rs) == 0 {
		return s
	}
	switch rapid.IntRange(0, 4).Draw(t, "glob") {
	case 0:
		i := rapid.IntRange(0, len(rs)-1).Draw(t, "qpos")
		if rs[i] != '/' {
			rs[i] = '?'
		}
		return string(rs)
	case 1:
		i := rapid.IntRange(0, len(rs)).Draw(t, "spos")
		j := strings.LastIndex(string(rs[:i]), "/") + 1
		return string(rs[:j]) + "*"
	case 2:
		i := rapid.IntRange(0, len(rs)-1).Draw(t, "cpos")
		if rs[i] != '/' && rs[i] != '[' && rs[i] != ']' && rs[i] != '\\' && rs[i] != '-' && rs[i] != '^' {
			return string(rs[:i]) + "[" + string(rs[i]) + "z]" + string(rs[i+1:])
		}
		return s
	case 3:
		j := strings.LastIndex(s, "/") + 1
		return s[:j] + "*" + rapid.SampledFrom([]string{".txt", "", "a*", "_*", ".*"}).Draw(t, "suffix")
	}
	return s
}

func verifGenPatterns(t *rapid.T, tree []string) (pats []string, cls map[string]bool) {
	cls = map[string]bool{}
	n := rapid.IntRange(1, 4).Draw(t, "npat")
	var paths []string
	for _, e := range tree {
		if i := strings.Index(e, "->"); i >= 0 {
			paths = append(paths, e[:i])
			continue
		}
		paths = append(paths, strings.TrimSuffix(e, "/"))
	}
	for i := 0; i < n; i++ {
		var p string
		k := rapid.IntRange(0, 11).Draw(t, "patkind")
		switch {
		case k <= 4 && len(paths) > 0:
			p = rapid.SampledFrom(paths).Draw(t, "path")
		case k <= 7 && len(paths) > 0:
			p = verifGlobify(t, rapid.SampledFrom(paths).Draw(t, "gpath"))
			cls["glob"] = true
		case k == 8:
			p = rapid.SampledFrom([]string{"..", "../x", "/abs", "a/", ".", "", "[", "a/../b", "a//b", "./a", "nonexistent", "a\\b", "*", "*/*", "all:", "all:*"}).Draw(t, "special")
			cls["special_pattern"] = true
		case k == 9 && len(pats) > 0:
			p = pats[rapid.IntRange(0, len(pats)-1).Draw(t, "dup")]
			cls["duplicate_pattern"] = true
		default:
			p = rapid.SampledFrom(verifNames).Draw(t, "name")
		}
		if rapid.IntRange(0, 3).Draw(t, "all") == 0 && !strings.HasPrefix(p, "all:") {
			p = "all:" + p
			cls["all_prefix"] = true
		}
		pats = append(pats, p)
	}
	return
}

func verifRenderLine(t *rapid.T, pats []string, cls map[string]bool) string {
	var b strings.Builder
	prefix := rapid.SampledFrom([]string{"//go:embed", "//go:embed", "//go:embed", "//go:embed", "//go:embed", "//go:embed", "//go:embed", "//go:embed", "//go:embed", "//go:embed", "//go:embed", "//go:embed", "//go:embed", "//go:embed", "//go:embed", "//go:embed", "// go:embed", "//go:embedx", "//  go:embed", "//go:embed:"}).Draw(t, "prefix")
	if prefix != "//go:embed" {
		cls["odd_directive_prefix"] = true
	}
	b.WriteString(prefix)
	for _, p := range pats {
		sep := rapid.SampledFrom([]string{" ", " ", "\t", "  "}).Draw(t, "sep")
		if b.Len() == len(prefix) && sep == "\t" {
			sep = " " // "//go:embed<TAB>": go/build reads a directive, the gc compiler does not – not generated
		}
		b.WriteString(sep)
		needQuote := p == "" || strings.ContainsAny(p, " \t\"`")
		style := rapid.IntRange(0, 5).Draw(t, "quote")
		switch {
		case needQuote && !strings.Contains(p, "`") && style%2 == 0:
			b.WriteString("`" + p + "`")
			cls["quoted"] = true
		case needQuote || style == 0:
			b.WriteString(strconv.Quote(p))
			cls["quoted"] = true
		case style == 1 && !strings.Contains(p, "`"):
			b.WriteString("`" + p + "`")
			cls["quoted"] = true
		default:
			b.WriteString(p)
		}
	}
	if rapid.IntRange(0, 9).Draw(t, "trailing") == 0 {
		b.WriteString(rapid.SampledFrom([]string{" ", "\t", " \"unterminated", "\"x\"y", " `open"}).Draw(t, "junk"))
		cls["trailing_junk"] = true
	}
	return b.String()
}

type verifGoList struct {
	Dir           string
	ImportPath    string
	EmbedPatterns []string
	EmbedFiles    []string
	Error         *struct{ Err string }
	DepsErrors    []*struct{ Err string }
	Incomplete    bool
}

func TestVerifC16GoList(t *testing.T) {
	c := verifstat.For("C16")
	defer c.Flush()
	base := t.TempDir()
	seq := 0
	rapid.Check(t, func(t *rapid.T) {
		seq++
		mod := filepath.Join(base, fmt.Sprintf("m%d", seq%8))
		os.RemoveAll(mod)
		os.MkdirAll(mod, 0o755)
		os.WriteFile(filepath.Join(mod, "go.mod"), []byte("module verifembed\n\ngo 1.21\n"), 0o644)
		npk := rapid.IntRange(4, 12).Draw(t, "npkgs")
		pkgs := map[string]*verifPkg{}
		for i := 0; i < npk; i++ {
			name := fmt.Sprintf("p%d", i)
			dir := filepath.Join(mod, name)
			os.Mkdir(dir, 0o755)
			pk := &verifPkg{Dir: dir}
			verifGenTree(t, dir, 0, &pk.Tree, "")
			pats, cls := verifGenPatterns(t, pk.Tree)
			pk.Patterns = pats
			pk.Line = verifRenderLine(t, pats, cls)
			for _, e := range pk.Tree {
				switch {
				case strings.Contains(e, "->"):
					cls["symlink"] = true
				case strings.HasSuffix(e, "/go.mod"):
					cls["nested_module"] = true
				case strings.Contains(e, "/.") || strings.Contains(e, "/_") || strings.HasPrefix(e, ".") || strings.HasPrefix(e, "_"):
					cls["hidden_or_underscore"] = true
				case strings.Contains(e, ":") || strings.Contains(e, "CON") || strings.Contains(e, ".git"):
					cls["invalid_name"] = true
				}
			}
			for k := range cls {
				pk.Classes = append(pk.Classes, k)
			}
			sort.Strings(pk.Classes)
			src := "package " + name + "\n\nimport \"embed\"\n\n" + pk.Line + "\nvar X embed.FS\n"
			os.WriteFile(filepath.Join(dir, "p.go"), []byte(src), 0o644)
			pkgs["verifembed/"+name] = pk
		}
		cmd := exec.Command("go", "list", "-e", "-json=Dir,ImportPath,EmbedPatterns,EmbedFiles,Error,Incomplete", "./...")
		cmd.Dir = mod
		var stderr bytes.Buffer
		cmd.Stderr = &stderr
		out, err := cmd.Output()
		if err != nil && len(out) == 0 {
			t.Fatalf("VERIF-INFRA go list failed: %v\n%s", err, stderr.String())
		}
		dec := json.NewDecoder(bytes.NewReader(out))
		listed := 0
		for dec.More() {
			var gl verifGoList
			if err := dec.Decode(&gl); err != nil {
				t.Fatalf("VERIF-INFRA go list output: %v", err)
			}
			pk := pkgs[gl.ImportPath]
			if pk == nil {
				continue
			}
			listed++
			verifComparePkg(t, c, pk, &gl)
		}
		if listed != npk {
			t.Fatalf("VERIF-INFRA go list reported %d of %d packages\n%s", listed, npk, stderr.String())
		}
	})
}

func verifComparePkg(t *rapid.T, c *verifstat.Collector, pk *verifPkg, gl *verifGoList) {
	nt := len(pk.Classes) > 0
	c.Case(verifstat.Hash("embed", strings.Join(pk.Tree, "\x00"), pk.Line), nt, append([]string{"packages"}, pk.Classes...)...)
	if nt {
		c.Sample(pk)
	}
	fset := token.NewFileSet()
	f, perr := parser.ParseFile(fset, filepath.Join(pk.Dir, "p.go"), nil, parser.ParseComments)
	if perr != nil {
		t.Fatalf("VERIF-INFRA generated file does not parse: %v", perr)
	}
	vm, lerr := LoadDirectives(fset, []*ast.File{f})
	goErr := ""
	if gl.Error != nil {
		goErr = gl.Error.Err
	}
	desc := fmt.Sprintf("directive %q in a directory holding %q", pk.Line, pk.Tree)
	if goErr != "" {
		if lerr == nil {
			key := verifKey(pk, goErr, true)
			if c.IsKnown(key) {
				c.KnownHit(key)
				return
			}
			t.Fatalf("[%s] the go tool rejects the package (%s) but LoadDirectives accepted it: %v\n%s", key, goErr, verifVarNames(vm), desc)
		}
		c.Class("both_reject")
		return
	}
	// `go list -e` silently drops a //go:embed line it cannot parse and ignores comments that are not
	// directives; whether the go tool accepts such a package is decided by compiling it.
	goSeesNothing := len(gl.EmbedPatterns) == 0
	if lerr != nil {
		if goSeesNothing {
			if berr := verifGoBuild(pk.Dir); berr != "" {
				c.Class("both_reject_at_compile")
				return
			}
			key := "C16:not-a-directive-accepted"
			if c.IsKnown(key) {
				c.KnownHit(key)
				return
			}
			t.Fatalf("[%s] the go tool compiles the package and embeds nothing (the comment is not a directive), LoadDirectives fails: %v\n%s", key, lerr, desc)
		}
		key := verifKey(pk, lerr.Error(), false)
		if c.IsKnown(key) {
			c.KnownHit(key)
			return
		}
		t.Fatalf("[%s] the go tool accepts the package (EmbedFiles %q) but LoadDirectives fails: %v\n%s", key, gl.EmbedFiles, lerr, desc)
	}
	var got []string
	vd, has := vm["X"]
	for _, fd := range vd.Files {
		got = append(got, fd.Name)
	}
	if !has && !goSeesNothing {
		t.Fatalf("[C16:directive-ignored] go list sees patterns %q, LoadDirectives sees no directive\n%s", gl.EmbedPatterns, desc)
	}
	if has && goSeesNothing {
		if berr := verifGoBuild(pk.Dir); berr != "" {
			key := "C16:go-rejects-llgo-accepts:compile"
			if c.IsKnown(key) {
				c.KnownHit(key)
				return
			}
			t.Fatalf("[%s] the go tool rejects the package (%s), LoadDirectives embeds %q\n%s", key, berr, got, desc)
		}
		key := "C16:not-a-directive-accepted"
		if c.IsKnown(key) {
			c.KnownHit(key)
			return
		}
		t.Fatalf("[%s] the go tool sees no //go:embed directive, LoadDirectives embeds %q\n%s", key, got, desc)
	}
	if !has {
		c.Class("both_see_no_directive")
		return
	}
	if !sort.StringsAreSorted(got) {
		t.Fatalf("[C16:unsorted] embedded files not sorted: %q\n%s", got, desc)
	}
	if strings.Join(got, "\x00") != strings.Join(gl.EmbedFiles, "\x00") {
		t.Fatalf("[C16:file-set] embedded files %q; go list EmbedFiles %q\n%s", got, gl.EmbedFiles, desc)
	}
	for _, fd := range vd.Files {
		b, err := os.ReadFile(filepath.Join(pk.Dir, filepath.FromSlash(fd.Name)))
		if err != nil || !bytes.Equal(b, fd.Data) {
			t.Fatalf("[C16:bytes] %s: embedded %d bytes, file has %d (err=%v)\n%s", fd.Name, len(fd.Data), len(b), err, desc)
		}
	}
	// patterns as the go tool parsed them (sorted, de-duplicated)
	var doc *ast.CommentGroup
	for _, d := range f.Decls {
		if g, ok := d.(*ast.GenDecl); ok && g.Tok == token.VAR {
			doc = g.Doc
		}
	}
	pats, _, _ := ParsePatterns(doc)
	set := map[string]bool{}
	for _, p := range pats {
		set[p] = true
	}
	var uniq []string
	for p := range set {
		uniq = append(uniq, p)
	}
	sort.Strings(uniq)
	if has && strings.Join(uniq, "\x00") != strings.Join(gl.EmbedPatterns, "\x00") {
		t.Fatalf("[C16:patterns] ParsePatterns %q; go list EmbedPatterns %q\n%s", uniq, gl.EmbedPatterns, desc)
	}
	if len(got) > 0 {
		c.Class("both_accept_nonempty")
	}
}

// verifGoBuild compiles the package with the reference toolchain; returns "" or the first error line.
func verifGoBuild(dir string) string {
	cmd := exec.Command("go", "build", "-o", os.DevNull, ".")
	cmd.Dir = dir
	out, err := cmd.CombinedOutput()
	if err == nil {
		return ""
	}
	lines := strings.Split(strings.TrimSpace(string(out)), "\n")
	if len(lines) > 1 {
		return lines[1]
	}
	return lines[0]
}

func verifVarNames(vm VarMap) []string {
	var s []string
	for _, fd := range vm["X"].Files {
		s = append(s, fd.Name)
	}
	return s
}

// key of a disagreement: coarse category of the reference's (or llgo's) error message
func verifKey(pk *verifPkg, msg string, goRejects bool) string {
	cat := "other"
	for _, k := range []string{"invalid quoted string", "no matching files", "invalid pattern syntax", "invalid name", "in invalid directory", "irregular", "different module", "contains no embeddable files", "cannot embed"} {
		if strings.Contains(msg, k) {
			cat = strings.ReplaceAll(k, " ", "-")
			break
		}
	}
	if goRejects {
		return "C16:go-rejects-llgo-accepts:" + cat
	}
	return "C16:go-accepts-llgo-rejects:" + cat
}
