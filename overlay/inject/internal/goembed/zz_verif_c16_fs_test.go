package goembed

// C16 (embed.FS table): the file table BuildFSEntries produces for an embed.FS variable is consumed by
// the standard library's binary-search lookups. The oracle is the real embed.FS code: the table is
// installed into an embed.FS value (whose layout "the compiler knows") and every file and directory
// must then be found, listed and read back through Open / ReadFile / ReadDir / fs.WalkDir.

import (
	"embed"
	"io/fs"
	"path"
	"sort"
	"strings"
	"testing"
	"unsafe"

	"pgregory.net/rapid"
	"verifstat"
)

// mirrors of embed.FS / embed.file (layout fixed by cmd/compile/internal/staticdata.WriteEmbed)
type verifEmbedFile struct {
	name string
	data string
	hash [16]byte
}
type verifEmbedFS struct{ files *[]verifEmbedFile }

var verifFSNames = []string{"a", "b", "static", "static.css", "static-old", "static 2", "img", "img-small", "img.d", "x", "x!", "x#y", "z", "é", "A", "_", ".h", "a.b", "a+b", "a,b"}

func TestVerifC16FSTable(t *testing.T) {
	c := verifstat.For("C16")
	defer c.Flush()
	rapid.Check(t, func(t *rapid.T) {
		n := rapid.IntRange(1, 12).Draw(t, "nfiles")
		set := map[string]string{}
		isDir := map[string]bool{}
		for i := 0; i < n; i++ {
			depth := rapid.IntRange(1, 4).Draw(t, "depth")
			var parts []string
			for d := 0; d < depth; d++ {
				parts = append(parts, rapid.SampledFrom(verifFSNames).Draw(t, "comp"))
			}
			name := strings.Join(parts, "/")
			// a path cannot be both file and directory
			clash := isDir[name]
			for d := path.Dir(name); d != "."; d = path.Dir(d) {
				if _, isFile := set[d]; isFile {
					clash = true
				}
			}
			if clash {
				continue
			}
			set[name] = "data:" + name
			for d := path.Dir(name); d != "."; d = path.Dir(d) {
				isDir[d] = true
			}
		}
		if len(set) == 0 {
			return
		}
		var files []FileData
		var names []string
		for k, v := range set {
			files = append(files, FileData{Name: k, Data: []byte(v)})
			names = append(names, k)
		}
		sort.Strings(names)
		sort.Slice(files, func(i, j int) bool { return files[i].Name < files[j].Name })
		entries := BuildFSEntries(files)
		siblingPrefix := false
		for d := range isDir {
			for other := range set {
				if strings.HasPrefix(other, d) && len(other) > len(d) && other[len(d)] < '/' && path.Dir(other) == path.Dir(d) {
					siblingPrefix = true
				}
			}
			for other := range isDir {
				if strings.HasPrefix(other, d) && len(other) > len(d) && other[len(d)] < '/' && path.Dir(other) == path.Dir(d) {
					siblingPrefix = true
				}
			}
		}
		cls := []string{"fs_table"}
		if siblingPrefix {
			cls = append(cls, "fs_dir_with_sibling_sorting_before_slash")
		}
		c.Case(verifstat.Hash("fstable", strings.Join(names, "\x00")), len(isDir) > 0, cls...)
		if siblingPrefix {
			c.Sample(map[string]any{"kind": "fs_table", "files": names})
		}
		tab := make([]verifEmbedFile, len(entries))
		for i, e := range entries {
			tab[i] = verifEmbedFile{name: e.Name, data: string(e.Data)}
		}
		mirror := verifEmbedFS{files: &tab}
		efs := *(*embed.FS)(unsafe.Pointer(&mirror))
		for name, want := range set {
			b, err := efs.ReadFile(name)
			if err != nil || string(b) != want {
				t.Fatalf("[C16:fs-table] ReadFile(%q) through embed.FS = %q, %v; files %q, table %q", name, b, err, names, verifEntryNames(entries))
			}
		}
		for d := range isDir {
			ents, err := efs.ReadDir(d)
			if err != nil {
				t.Fatalf("[C16:fs-table] ReadDir(%q) through embed.FS: %v; files %q, table %q", d, err, names, verifEntryNames(entries))
			}
			want := map[string]bool{}
			for other := range set {
				if path.Dir(other) == d {
					want[path.Base(other)] = true
				}
			}
			for other := range isDir {
				if path.Dir(other) == d {
					want[path.Base(other)] = true
				}
			}
			if len(ents) != len(want) {
				t.Fatalf("[C16:fs-table] ReadDir(%q) lists %d entries, want %d; files %q, table %q", d, len(ents), len(want), names, verifEntryNames(entries))
			}
			for _, e := range ents {
				if !want[e.Name()] {
					t.Fatalf("[C16:fs-table] ReadDir(%q) lists %q; files %q, table %q", d, e.Name(), names, verifEntryNames(entries))
				}
			}
		}
		var walked []string
		err := fs.WalkDir(efs, ".", func(p string, d fs.DirEntry, err error) error {
			if err != nil {
				return err
			}
			if !d.IsDir() {
				walked = append(walked, p)
			}
			return nil
		})
		sort.Strings(walked)
		if err != nil || strings.Join(walked, "\x00") != strings.Join(names, "\x00") {
			t.Fatalf("[C16:fs-table] WalkDir yields %q (err %v); files %q, table %q", walked, err, names, verifEntryNames(entries))
		}
	})
}

func verifEntryNames(es []FileData) []string {
	var s []string
	for _, e := range es {
		s = append(s, e.Name)
	}
	return s
}
