package shellparse

// C17 (shell-style splitting): Parse(render(args)) == args for every argument list, where render
// is a quoter written from the rules Parse documents (whitespace separates; '…' is literal;
// inside "…" only \" and \\ are escapes; adjacent segments concatenate), and any command line
// with an unterminated quote is reported as an error.

import (
	"reflect"
	"strings"
	"testing"
	"unicode"

	"pgregory.net/rapid"
	"verifstat"
)

var verifAlphabet = []rune{' ', ' ', '\t', '\n', '"', '\'', '\\', '\\', '-', '$', 'a', 'b', 'Z', '0', '=', '/', 'é', '世', '😀', ' ', ' ', 0xa0}

func verifArg(t *rapid.T, label string) string {
	n := rapid.IntRange(0, 8).Draw(t, label+"len")
	rs := make([]rune, n)
	for i := range rs {
		rs[i] = rapid.SampledFrom(verifAlphabet).Draw(t, label+"r")
	}
	return string(rs)
}

// render one segment of an argument in the given style; returns ok=false if the style cannot carry it.
func verifRenderSeg(t *rapid.T, seg string, style int) (string, bool) {
	switch style {
	case 0: // bare
		if seg == "" {
			return "", false
		}
		for _, r := range seg {
			if unicode.IsSpace(r) || r == '"' || r == '\'' {
				return "", false
			}
		}
		return seg, true
	case 1: // single quotes: everything literal
		if strings.ContainsRune(seg, '\'') {
			return "", false
		}
		return "'" + seg + "'", true
	default: // double quotes
		var b strings.Builder
		b.WriteByte('"')
		rs := []rune(seg)
		for i, r := range rs {
			switch {
			case r == '"':
				b.WriteString(`\"`)
			case r == '\\':
				last := i == len(rs)-1
				if last || rs[i+1] == '"' || rs[i+1] == '\\' {
					b.WriteString(`\\`)
				} else if rapid.Bool().Draw(t, "dbl") {
					b.WriteString(`\\`)
				} else {
					b.WriteString(`\`) // a backslash before any other character is literal
				}
			default:
				b.WriteRune(r)
			}
		}
		b.WriteByte('"')
		return b.String(), true
	}
}

func verifRenderArg(t *rapid.T, arg string) string {
	rs := []rune(arg)
	// cut into 1..3 segments
	nseg := 1
	if len(rs) > 1 {
		nseg = rapid.IntRange(1, 3).Draw(t, "nseg")
	}
	cuts := []int{0}
	for i := 1; i < nseg; i++ {
		cuts = append(cuts, rapid.IntRange(0, len(rs)).Draw(t, "cut"))
	}
	cuts = append(cuts, len(rs))
	for i := 1; i < len(cuts); i++ { // sort
		for j := i; j > 0 && cuts[j] < cuts[j-1]; j-- {
			cuts[j], cuts[j-1] = cuts[j-1], cuts[j]
		}
	}
	var out strings.Builder
	wrote := false
	for i := 0; i+1 < len(cuts); i++ {
		seg := string(rs[cuts[i]:cuts[i+1]])
		if seg == "" && (wrote || i+2 < len(cuts)) && rapid.Bool().Draw(t, "dropempty") {
			continue
		}
		style := rapid.IntRange(0, 2).Draw(t, "style")
		s, ok := verifRenderSeg(t, seg, style)
		for !ok {
			style = (style + 1) % 3
			s, ok = verifRenderSeg(t, seg, style)
		}
		// a bare segment ending in a backslash is fine: outside quotes backslash is literal
		out.WriteString(s)
		wrote = true
	}
	if !wrote {
		out.WriteString(`""`)
	}
	return out.String()
}

func verifSep(t *rapid.T) string {
	n := rapid.IntRange(1, 3).Draw(t, "nsep")
	var b strings.Builder
	for i := 0; i < n; i++ {
		b.WriteString(rapid.SampledFrom([]string{" ", " ", "\t", "\n", " "}).Draw(t, "sep"))
	}
	return b.String()
}

func TestVerifC17ShellRoundTrip(t *testing.T) {
	c := verifstat.For("C17")
	defer c.Flush()
	rapid.Check(t, func(t *rapid.T) {
		n := rapid.IntRange(0, 6).Draw(t, "nargs")
		args := make([]string, n)
		for i := range args {
			args[i] = verifArg(t, "arg")
		}
		var line strings.Builder
		if rapid.Bool().Draw(t, "lead") {
			line.WriteString(verifSep(t))
		}
		for i, a := range args {
			if i > 0 {
				line.WriteString(verifSep(t))
			}
			line.WriteString(verifRenderArg(t, a))
		}
		if rapid.Bool().Draw(t, "trail") {
			line.WriteString(verifSep(t))
		}
		nt := false
		for _, a := range args {
			if a == "" || strings.ContainsAny(a, " \t\n\"'\\") {
				nt = true
			}
		}
		c.Case(verifstat.Hash("shell", line.String()), nt, "shell_roundtrip")
		c.Sample(map[string]any{"kind": "shell", "line": line.String(), "args": args})
		got, err := Parse(line.String())
		if err != nil {
			t.Fatalf("Parse(%q) error %v; want %q", line.String(), err, args)
		}
		if len(got) == 0 && len(args) == 0 {
			return
		}
		if !reflect.DeepEqual(got, args) {
			t.Fatalf("Parse(%q) = %q; want %q", line.String(), got, args)
		}
	})
}

// An input whose quoting is left open must be rejected, never silently altered.
func TestVerifC17ShellUnterminated(t *testing.T) {
	c := verifstat.For("C17")
	defer c.Flush()
	rapid.Check(t, func(t *rapid.T) {
		n := rapid.IntRange(0, 3).Draw(t, "nargs")
		var line strings.Builder
		for i := 0; i < n; i++ {
			line.WriteString(verifRenderArg(t, verifArg(t, "arg")))
			line.WriteString(verifSep(t))
		}
		// open a quote and never close it: the tail contains no unescaped closing quote
		q := rapid.SampledFrom([]rune{'"', '\''}).Draw(t, "q")
		line.WriteRune(q)
		tail := []rune(verifArg(t, "tail"))
		for i, r := range tail {
			if r == q {
				if q == '"' {
					line.WriteString(`\"`)
				} else {
					line.WriteRune('x')
				}
				continue
			}
			if q == '"' && r == '\\' {
				// keep escapes balanced so that the closing quote stays absent
				line.WriteString(`\\`)
				_ = i
				continue
			}
			line.WriteRune(r)
		}
		c.Case(verifstat.Hash("unterminated", line.String()), true, "shell_unterminated")
		if got, err := Parse(line.String()); err == nil {
			t.Fatalf("Parse(%q) = %q, nil; want an unterminated-quote error", line.String(), got)
		}
	})
}
