package buildtags

// C17 (build tags): CheckTags must mark exactly those "+build" expressions that the go tool's own
// constraint evaluator (go/build/constraint) accepts under the tag set the go command would use.

import (
	"go/build"
	"go/build/constraint"
	"strings"
	"testing"

	"pgregory.net/rapid"
	"verifstat"
)

var verifTagPool = []string{"a", "b", "c", "linux", "darwin", "windows", "amd64", "arm64", "cgo", "gc", "gccgo", "go1.20", "go1.24", "go1.99", "unix", "ignore", "llgo", "my_tag", "a.b"}

func verifGoToolTag(extra map[string]bool) func(string) bool {
	ctx := build.Default
	return func(tag string) bool {
		if extra[tag] {
			return true
		}
		if tag == ctx.GOOS || tag == ctx.GOARCH || tag == ctx.Compiler {
			return true
		}
		if tag == "cgo" {
			return ctx.CgoEnabled
		}
		if tag == "unix" {
			switch ctx.GOOS {
			case "aix", "android", "darwin", "dragonfly", "freebsd", "hurd", "illumos", "ios", "linux", "netbsd", "openbsd", "solaris":
				return true
			}
		}
		if ctx.GOOS == "android" && tag == "linux" || ctx.GOOS == "illumos" && tag == "solaris" || ctx.GOOS == "ios" && tag == "darwin" {
			return true
		}
		for _, t := range ctx.ToolTags {
			if t == tag {
				return true
			}
		}
		for _, t := range ctx.ReleaseTags {
			if t == tag {
				return true
			}
		}
		return false
	}
}

// one "+build" line body: space = OR, comma = AND, ! = NOT
func verifBuildExpr(t *rapid.T) string {
	nor := rapid.IntRange(1, 3).Draw(t, "nor")
	var ors []string
	for i := 0; i < nor; i++ {
		nand := rapid.IntRange(1, 3).Draw(t, "nand")
		var ands []string
		for j := 0; j < nand; j++ {
			tag := rapid.SampledFrom(verifTagPool).Draw(t, "tag")
			if rapid.IntRange(0, 2).Draw(t, "neg") == 0 {
				tag = "!" + tag
			}
			ands = append(ands, tag)
		}
		ors = append(ors, strings.Join(ands, ","))
	}
	return strings.Join(ors, " ")
}

func TestVerifC17BuildTags(t *testing.T) {
	c := verifstat.For("C17")
	defer c.Flush()
	rapid.Check(t, func(t *rapid.T) {
		// the -tags flag, in one of the spellings the go command accepts, among unrelated flags
		ntags := rapid.IntRange(0, 4).Draw(t, "ntags")
		set := map[string]bool{}
		var tags []string
		for i := 0; i < ntags; i++ {
			tg := rapid.SampledFrom(verifTagPool).Draw(t, "settag")
			tags = append(tags, tg)
			set[tg] = true
		}
		sep := rapid.SampledFrom([]string{",", " ", ", ", " ,"}).Draw(t, "sep")
		val := strings.Join(tags, sep)
		var flags []string
		pre := rapid.SliceOfN(rapid.SampledFrom([]string{"-v", "-x", "-race", "-ldflags=-s", "-o", "out", "-tagsx", "tags"}), 0, 2).Draw(t, "pre")
		flags = append(flags, pre...)
		if ntags > 0 || rapid.Bool().Draw(t, "emptyflag") {
			if rapid.Bool().Draw(t, "eqform") {
				flags = append(flags, "-tags="+val)
			} else {
				flags = append(flags, "-tags", val)
			}
		}
		flags = append(flags, rapid.SliceOfN(rapid.SampledFrom([]string{"-v", "-x", "-race", "-ldflags=-s"}), 0, 2).Draw(t, "post")...)
		for len(pre) > 0 && pre[len(pre)-1] == "-o" { // "-o -tags=…" would make -tags the output name for the go tool
			return
		}
		nexpr := rapid.IntRange(1, 6).Draw(t, "nexpr")
		test := map[string]bool{}
		for i := 0; i < nexpr; i++ {
			test[verifBuildExpr(t)] = false
		}
		CheckTags(flags, test)
		okTag := verifGoToolTag(set)
		for expr, got := range test {
			x, err := constraint.Parse("// +build " + expr)
			if err != nil {
				t.Fatalf("generator produced invalid expression %q: %v", expr, err)
			}
			want := x.Eval(okTag)
			nt := strings.Contains(expr, "!") || (strings.Contains(expr, ",") && strings.Contains(expr, " "))
			c.Case(verifstat.Hash("tags", strings.Join(flags, "\x00"), expr), nt, "buildtags")
			c.Sample(map[string]any{"kind": "buildtags", "flags": flags, "expr": expr, "want": want})
			if got != want {
				t.Fatalf("CheckTags(%q): +build %q = %v; go/build/constraint says %v", flags, expr, got, want)
			}
		}
	})
}
