package env

// C17 ({} / {key} templates used by flash and emulator command lines): every placeholder is replaced
// by exactly the referenced value in one pass (values free of '{', as every caller's are).

import (
	"fmt"
	"strings"
	"testing"

	"pgregory.net/rapid"
	"verifstat"
)

func TestVerifC17ExpandEnvWithDefault(t *testing.T) {
	c := verifstat.For("C17")
	defer c.Flush()
	lit := rapid.StringOfN(rapid.SampledFrom([]rune{' ', '-', 'a', '/', '.', '=', '}', '$', '"', 'é', '0'}), 0, 5, -1)
	val := rapid.StringOfN(rapid.SampledFrom([]rune{' ', '-', 'b', '/', '.', '=', '}', '$', '\\', '世', '1'}), 0, 6, -1)
	rapid.Check(t, func(t *rapid.T) {
		nkeys := rapid.IntRange(0, 4).Draw(t, "nkeys")
		envs := map[string]string{}
		keys := []string{}
		for i := 0; i < nkeys; i++ {
			k := fmt.Sprintf("k%d", i)
			if rapid.Bool().Draw(t, "prefixkey") && i > 0 {
				k = keys[i-1] + "x" // keys that are prefixes of one another
			}
			keys = append(keys, k)
			envs[k] = val.Draw(t, "val")
		}
		def := val.Draw(t, "def")
		hasDef := rapid.Bool().Draw(t, "hasdef")
		var tm, want strings.Builder
		n := rapid.IntRange(0, 6).Draw(t, "nparts")
		nexp := 0
		for i := 0; i < n; i++ {
			switch k := rapid.IntRange(0, 3).Draw(t, "kind"); {
			case k == 0:
				s := lit.Draw(t, "lit")
				tm.WriteString(s)
				want.WriteString(s)
			case k == 1:
				tm.WriteString("{}")
				if hasDef {
					want.WriteString(def)
				}
				nexp++
			case len(keys) > 0:
				key := rapid.SampledFrom(keys).Draw(t, "key")
				tm.WriteString("{" + key + "}")
				want.WriteString(envs[key])
				nexp++
			default: // unknown key stays as written
				tm.WriteString("{zz}")
				want.WriteString("{zz}")
			}
		}
		c.Case(verifstat.Hash("tmpl", tm.String(), fmt.Sprint(envs), def, hasDef), nexp >= 2, "expand_default")
		var got string
		if hasDef {
			got = ExpandEnvWithDefault(tm.String(), envs, def)
		} else {
			got = ExpandEnvWithDefault(tm.String(), envs)
		}
		if got != want.String() {
			t.Fatalf("ExpandEnvWithDefault(%q, %v, def=%q/%v) = %q; want %q", tm.String(), envs, def, hasDef, got, want.String())
		}
	})
}
