//go:build !llgo

package build

// C17 (-X importpath.name=value): the rewrite table receives exactly (importpath, name, value) –
// the import path may contain dots and slashes, the value may contain '=', '.', blanks and any
// text – and malformed arguments panic with the documented error instead of being altered.

import (
	"go/token"
	"strings"
	"testing"

	"pgregory.net/rapid"
	"verifstat"
)

func TestVerifC17XFlag(t *testing.T) {
	c := verifstat.For("C17")
	defer c.Flush()
	seg := rapid.StringMatching(`[a-z][a-z0-9_-]{0,5}(\.[a-z]{1,3})?`)
	ident := rapid.StringMatching(`[A-Za-z_][A-Za-z0-9_]{0,6}`)
	val := rapid.StringOfN(rapid.SampledFrom([]rune{' ', '=', '.', '/', 'a', 'Z', '0', '-', '"', '\\', '\n', 'é', '世', '$'}), 0, 10, -1)
	rapid.Check(t, func(t *rapid.T) {
		nseg := rapid.IntRange(1, 4).Draw(t, "nseg")
		var segs []string
		for i := 0; i < nseg; i++ {
			segs = append(segs, seg.Draw(t, "seg"))
		}
		pkg := strings.Join(segs, "/")
		name := ident.Draw(t, "name")
		if token.IsKeyword(name) { // a Go variable cannot be named by a keyword; those are rightly rejected
			name = "X" + name
		}
		value := val.Draw(t, "value")
		arg := pkg + "." + name + "=" + value
		conf := &Config{}
		mains := []string{"example.com/m/cmd"}
		nt := strings.ContainsAny(value, "=. ") || strings.Contains(pkg, ".")
		c.Case(verifstat.Hash("xflag", arg), nt, "xflag")
		c.Sample(map[string]any{"kind": "xflag", "arg": arg})
		if pre := rapid.Bool().Draw(t, "preexisting"); pre {
			// an earlier -X for the same variable: skipIfExists=false overrides, true keeps
			addGlobalStringWith(conf, pkg+"."+name+"=old", mains, false)
			addGlobalStringWith(conf, arg, mains, true)
			want := "old"
			wantPkg := pkg
			if pkg == "main" {
				wantPkg = mains[0]
			}
			if got := conf.GlobalRewrites[wantPkg][name]; got != want {
				t.Fatalf("skipIfExists: %q after %q gives %q; want %q", arg, "…=old", got, want)
			}
			addGlobalStringWith(conf, arg, mains, false)
			if got := conf.GlobalRewrites[wantPkg][name]; got != value {
				t.Fatalf("override: %q gives %q; want %q", arg, got, value)
			}
			return
		}
		addGlobalStringWith(conf, arg, mains, false)
		wantPkg := pkg
		if pkg == "main" {
			wantPkg = mains[0]
		}
		if len(conf.GlobalRewrites) != 1 || len(conf.GlobalRewrites[wantPkg]) != 1 {
			t.Fatalf("-X %q: table %v; want exactly {%q: {%q: %q}}", arg, conf.GlobalRewrites, wantPkg, name, value)
		}
		if got, ok := conf.GlobalRewrites[wantPkg][name]; !ok || got != value {
			t.Fatalf("-X %q: table %v; want {%q: {%q: %q}}", arg, conf.GlobalRewrites, wantPkg, name, value)
		}
	})
}

func TestVerifC17XFlagMalformed(t *testing.T) {
	c := verifstat.For("C17")
	defer c.Flush()
	rapid.Check(t, func(t *rapid.T) {
		kind := rapid.IntRange(0, 3).Draw(t, "kind")
		var arg string
		switch kind {
		case 0: // no '='
			arg = rapid.StringMatching(`[a-z/.]{0,8}`).Draw(t, "noeq")
		case 1: // no '.' before '='
			arg = rapid.StringMatching(`[a-z/]{0,6}=[a-z.=]{0,4}`).Draw(t, "nodot")
		case 2: // name is not an identifier
			arg = "p/q." + rapid.SampledFrom([]string{"", "1x", "a-b", "a b", "é-"}).Draw(t, "badname") + "=v"
		case 3: // empty or blank-containing package path
			arg = rapid.SampledFrom([]string{"", "a b", "a\tb"}).Draw(t, "badpkg") + ".X=v"
		}
		c.Case(verifstat.Hash("xflagbad", arg), true, "xflag_malformed")
		conf := &Config{}
		panicked := false
		func() {
			defer func() { panicked = recover() != nil }()
			addGlobalStringWith(conf, arg, []string{"m"}, false)
		}()
		if !panicked {
			t.Fatalf("-X %q accepted: table %v; want a panic with the -X usage error", arg, conf.GlobalRewrites)
		}
	})
}
