package clang

// C17 (C compiler / linker flag merging): flags given through CCFLAGS / CFLAGS / LDFLAGS in the
// environment (pkg-config style strings) come first, configuration flags follow, and no flag is
// lost, altered or reordered.

import (
	"os"
	"reflect"
	"strings"
	"testing"

	"pgregory.net/rapid"
	"verifstat"
)

var verifValAlphabet = []rune{' ', '\t', '\\', '-', 'a', 'L', '/', '.', '=', ',', 'é', '0'}

func verifFlag(t *rapid.T) string {
	letter := rapid.SampledFrom([]rune("ILlDWfO")).Draw(t, "letter")
	n := rapid.IntRange(0, 6).Draw(t, "vlen")
	rs := make([]rune, 0, n)
	for i := 0; i < n; i++ {
		rs = append(rs, rapid.SampledFrom(verifValAlphabet).Draw(t, "vr"))
	}
	for len(rs) > 0 && rs[0] == '-' {
		rs = rs[1:]
	}
	for len(rs) > 0 && (rs[len(rs)-1] == ' ' || rs[len(rs)-1] == '\t' || rs[len(rs)-1] == '\\') {
		rs = rs[:len(rs)-1]
	}
	return "-" + string(letter) + string(rs)
}

func verifFlags(t *rapid.T, label string) []string {
	n := rapid.IntRange(0, 3).Draw(t, label)
	var fs []string
	for i := 0; i < n; i++ {
		fs = append(fs, verifFlag(t))
	}
	return fs
}

func verifRender(flags []string) string {
	var b strings.Builder
	for i, f := range flags {
		if i > 0 {
			b.WriteString("  ")
		}
		b.WriteString(f[:2])
		for _, r := range f[2:] {
			if r == ' ' || r == '\t' {
				b.WriteByte('\\')
			}
			b.WriteRune(r)
		}
	}
	return b.String()
}

func TestVerifC17MergeFlags(t *testing.T) {
	c := verifstat.For("C17")
	defer c.Flush()
	for _, k := range []string{"CCFLAGS", "CFLAGS", "LDFLAGS"} {
		old, had := os.LookupEnv(k)
		defer func(k, old string, had bool) {
			if had {
				os.Setenv(k, old)
			} else {
				os.Unsetenv(k)
			}
		}(k, old, had)
	}
	rapid.Check(t, func(t *rapid.T) {
		eCC, eC, eLD := verifFlags(t, "eCC"), verifFlags(t, "eC"), verifFlags(t, "eLD")
		cCC, cC, cLD := verifFlags(t, "cCC"), verifFlags(t, "cC"), verifFlags(t, "cLD")
		os.Setenv("CCFLAGS", verifRender(eCC))
		os.Setenv("CFLAGS", verifRender(eC))
		os.Setenv("LDFLAGS", verifRender(eLD))
		cmd := New("clang", NewConfig("clang", cCC, cC, cLD, ""))
		wantC := append(append(append(append([]string{}, eCC...), eC...), cCC...), cC...)
		wantL := append(append(append([]string{}, eCC...), eLD...), cLD...)
		nt := len(eCC)+len(eC)+len(eLD) > 0 && len(cCC)+len(cC)+len(cLD) > 0
		c.Case(verifstat.Hash("merge", strings.Join(wantC, "\x00"), strings.Join(wantL, "\x00")), nt, "merge_flags")
		gotC, gotL := cmd.mergeCompilerFlags(), cmd.mergeLinkerFlags()
		if len(gotC)+len(wantC) > 0 && !reflect.DeepEqual(gotC, wantC) {
			t.Fatalf("mergeCompilerFlags = %q; want %q (env CCFLAGS=%q CFLAGS=%q)", gotC, wantC, os.Getenv("CCFLAGS"), os.Getenv("CFLAGS"))
		}
		if len(gotL)+len(wantL) > 0 && !reflect.DeepEqual(gotL, wantL) {
			t.Fatalf("mergeLinkerFlags = %q; want %q (env CCFLAGS=%q LDFLAGS=%q)", gotL, wantL, os.Getenv("CCFLAGS"), os.Getenv("LDFLAGS"))
		}
	})
}
