package clang

// C17 (C compiler / linker flag merging): flags given through CCFLAGS / CFLAGS / LDFLAGS in the
// environment (pkg-config style strings) come first, configuration flags follow, and no flag is
// lost, altered or reordered.

import (
	"os"
	"reflect"
	"strings"
	"testing"

	"pgregory.net/rapid"
	"verifstat"
	"verifstat/pcgen"
)

func TestVerifC17MergeFlags(t *testing.T) {
	c := verifstat.For("C17")
	defer c.Flush()
	for _, k := range []string{"CCFLAGS", "CFLAGS", "LDFLAGS"} {
		old, had := os.LookupEnv(k)
		defer func(k, old string, had bool) {
			if had {
				os.Setenv(k, old)
			} else {
				os.Unsetenv(k)
			}
		}(k, old, had)
	}
	rapid.Check(t, func(t *rapid.T) {
		eCC, eC, eLD := pcgen.Flags(t, 3), pcgen.Flags(t, 3), pcgen.Flags(t, 3)
		cCC, cC, cLD := pcgen.Flags(t, 3), pcgen.Flags(t, 3), pcgen.Flags(t, 3)
		os.Setenv("CCFLAGS", pcgen.Render(t, eCC, false))
		os.Setenv("CFLAGS", pcgen.Render(t, eC, false))
		os.Setenv("LDFLAGS", pcgen.Render(t, eLD, false))
		cmd := New("clang", NewConfig("clang", cCC, cC, cLD, ""))
		wantC := append(append(append(append([]string{}, eCC...), eC...), cCC...), cC...)
		wantL := append(append(append([]string{}, eCC...), eLD...), cLD...)
		nt := len(eCC)+len(eC)+len(eLD) > 0 && len(cCC)+len(cC)+len(cLD) > 0
		c.Case(verifstat.Hash("merge", strings.Join(wantC, "\x00"), strings.Join(wantL, "\x00")), nt, "merge_flags")
		gotC, gotL := cmd.mergeCompilerFlags(), cmd.mergeLinkerFlags()
		if len(gotC)+len(wantC) > 0 && !reflect.DeepEqual(gotC, wantC) {
			t.Fatalf("mergeCompilerFlags = %q; want %q (env CCFLAGS=%q CFLAGS=%q)", gotC, wantC, os.Getenv("CCFLAGS"), os.Getenv("CFLAGS"))
		}
		if len(gotL)+len(wantL) > 0 && !reflect.DeepEqual(gotL, wantL) {
			t.Fatalf("mergeLinkerFlags = %q; want %q (env CCFLAGS=%q LDFLAGS=%q)", gotL, wantL, os.Getenv("CCFLAGS"), os.Getenv("LDFLAGS"))
		}
	})
}
