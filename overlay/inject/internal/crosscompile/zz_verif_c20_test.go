package crosscompile

// C20: extraction of tar.gz / tar.xz / zip archives stays inside the destination whatever the entry
// names are, rejects escaping entries with an error, recreates well-formed archives byte for byte,
// and concurrent requests for one destination leave one complete copy.

import (
	"archive/tar"
	"archive/zip"
	"bytes"
	"compress/gzip"
	"crypto/sha256"
	"encoding/hex"
	"fmt"
	"io"
	"net/http"
	"net/http/httptest"
	"os"
	"os/exec"
	"path"
	"path/filepath"
	"sort"
	"strings"
	"sync"
	"testing"
	"time"

	"pgregory.net/rapid"
	"verifstat"
)

type verifEntry struct {
	Name string `json:"name"`
	Kind string `json:"kind"` // file, dir, symlink, hardlink
	Data []byte `json:"-"`
	Len  int    `json:"len"`
	Link string `json:"link,omitempty"`
}

var verifComps = []string{"a", "b", "c", "dir", "é世", "x y", ".hidden", "_u", "lib", "include", "d.e", "very-long-component-name-0123456789-0123456789-0123456789"}

func verifRelName(t *rapid.T, maxDepth int) string {
	n := rapid.IntRange(1, maxDepth).Draw(t, "depth")
	parts := make([]string, n)
	for i := range parts {
		parts[i] = rapid.SampledFrom(verifComps).Draw(t, "comp")
	}
	return strings.Join(parts, "/")
}

func verifData(t *rapid.T) []byte {
	var n int
	switch rapid.IntRange(0, 9).Draw(t, "sizeclass") {
	case 0:
		n = 0
	case 1:
		n = rapid.IntRange(4000, 66000).Draw(t, "big")
	default:
		n = rapid.IntRange(1, 300).Draw(t, "small")
	}
	seed := rapid.Byte().Draw(t, "fill")
	b := make([]byte, n)
	for i := range b {
		b[i] = seed + byte(i*7) + byte(i>>8)
	}
	return b
}

// does Join(dest, name) leave dest (is neither dest itself nor below it)?
func verifEscapes(name string) bool {
	p := filepath.Join("/root/dest", name)
	return p != "/root/dest" && !strings.HasPrefix(p, "/root/dest/")
}

type verifArchive struct {
	Format     string       `json:"format"`
	Entries    []verifEntry `json:"entries"`
	WellFormed bool         `json:"well_formed"`
	Escaping   bool         `json:"has_escaping_entry"`
	Classes    []string     `json:"classes"`
}

func verifGenArchive(t *rapid.T, root string) verifArchive {
	a := verifArchive{Format: rapid.SampledFrom([]string{"tar.gz", "tar.gz", "zip", "zip", "tar.xz"}).Draw(t, "format")}
	hostile := rapid.IntRange(0, 2).Draw(t, "hostile") > 0
	n := rapid.IntRange(1, 7).Draw(t, "nentries")
	cls := map[string]bool{}
	for i := 0; i < n; i++ {
		kind := 0
		if hostile {
			kind = rapid.IntRange(0, 13).Draw(t, "namekind")
		} else {
			kind = rapid.IntRange(0, 3).Draw(t, "namekind")
		}
		e := verifEntry{Kind: "file"}
		switch kind {
		case 0, 1: // plain / nested file
			e.Name = verifRelName(t, 4)
		case 2: // ./-prefixed
			e.Name = "./" + verifRelName(t, 3)
			cls["dotslash"] = true
		case 3: // explicit directory (optionally the ./ root entry)
			e.Kind = "dir"
			if rapid.IntRange(0, 3).Draw(t, "rootdir") == 0 {
				e.Name = "./"
				cls["rootdir_entry"] = true
			} else {
				e.Name = verifRelName(t, 3) + "/"
			}
		case 4: // .. at some depth, escaping
			up := rapid.IntRange(1, 4).Draw(t, "up")
			down := rapid.IntRange(0, up-1).Draw(t, "down")
			var parts []string
			for j := 0; j < down; j++ {
				parts = append(parts, rapid.SampledFrom(verifComps).Draw(t, "comp"))
			}
			for j := 0; j < up; j++ {
				parts = append(parts, "..")
			}
			parts = append(parts, rapid.SampledFrom([]string{"evil", "sentinel.txt", "outside/evil", "dest-evil/x", "destx"}).Draw(t, "tail"))
			e.Name = strings.Join(parts, "/")
			cls["dotdot_escape"] = true
		case 5: // .. that stays inside
			e.Name = verifRelName(t, 2) + "/../" + verifRelName(t, 2)
			cls["dotdot_inside"] = true
		case 6: // absolute (Join keeps it below dest); sometimes naming a path inside the watched root
			if rapid.Bool().Draw(t, "absroot") {
				e.Name = filepath.Join(root, "outside", "abs-evil")
			} else {
				e.Name = "/" + verifRelName(t, 3)
			}
			cls["absolute"] = true
		case 7: // degenerate names
			e.Name = rapid.SampledFrom([]string{"", ".", "./", "a/", "a//b", "a/./b", ".."}).Draw(t, "degenerate")
			if e.Name == "./" || e.Name == "a/" {
				e.Kind = rapid.SampledFrom([]string{"file", "dir"}).Draw(t, "degkind")
			}
			cls["degenerate"] = true
		case 8: // duplicate of an earlier name, different content
			if len(a.Entries) > 0 {
				e.Name = rapid.SampledFrom(a.Entries).Draw(t, "dupof").Name
				cls["duplicate"] = true
			} else {
				e.Name = verifRelName(t, 2)
			}
		case 9: // file-vs-directory clash with an earlier entry
			if len(a.Entries) > 0 {
				o := rapid.SampledFrom(a.Entries).Draw(t, "clashwith")
				if o.Kind == "file" {
					e.Name = strings.TrimSuffix(o.Name, "/") + "/below"
				} else {
					e.Name = strings.TrimSuffix(o.Name, "/")
				}
				cls["clash"] = true
			} else {
				e.Name = verifRelName(t, 2)
			}
		case 10, 11: // symlink (tar only) then an entry that writes through it
			e.Kind = "symlink"
			e.Name = "lnk" + fmt.Sprint(i)
			e.Link = rapid.SampledFrom([]string{"../outside", filepath.Join(root, "outside"), "a", "../sentinel.txt", ".."}).Draw(t, "target")
			a.Entries = append(a.Entries, e)
			e = verifEntry{Kind: "file", Name: "lnk" + fmt.Sprint(i) + rapid.SampledFrom([]string{"/through", "", "/x/y"}).Draw(t, "through")}
			cls["symlink"] = true
		case 12: // hard link to something outside, then an overwrite through it
			e.Kind = "hardlink"
			e.Name = "hl" + fmt.Sprint(i)
			e.Link = rapid.SampledFrom([]string{"../sentinel.txt", filepath.Join(root, "sentinel.txt"), "a"}).Draw(t, "target")
			a.Entries = append(a.Entries, e)
			e = verifEntry{Kind: "file", Name: "hl" + fmt.Sprint(i)}
			cls["hardlink"] = true
		case 13: // sibling whose name has the destination as a prefix
			e.Name = "../dest-evil/" + verifRelName(t, 2)
			cls["prefix_sibling"] = true
		}
		if e.Kind == "file" {
			e.Data = verifData(t)
			e.Len = len(e.Data)
		}
		a.Entries = append(a.Entries, e)
	}
	// classification
	a.WellFormed = true
	seen := map[string]string{}
	for _, e := range a.Entries {
		if verifEscapes(e.Name) {
			a.Escaping = true
		}
		nm := e.Name
		if e.Kind == "dir" {
			if nm == "./" {
				continue
			}
			nm = strings.TrimSuffix(nm, "/")
		}
		nm = strings.TrimPrefix(nm, "./")
		if (e.Kind != "file" && e.Kind != "dir") || nm == "" || nm == "." || nm != path.Clean(nm) || strings.HasPrefix(nm, "/") || nm == ".." || strings.HasPrefix(nm, "../") {
			a.WellFormed = false
			continue
		}
		if _, dup := seen[nm]; dup {
			a.WellFormed = false
		}
		seen[nm] = e.Kind
	}
	for nm := range seen { // a file used as a directory by another entry
		for d := path.Dir(nm); d != "." && d != "/"; d = path.Dir(d) {
			if seen[d] == "file" {
				a.WellFormed = false
			}
		}
	}
	missingParent := false
	for nm := range seen {
		if d := path.Dir(nm); d != "." {
			if _, ok := seen[d]; !ok {
				missingParent = true
			}
		}
	}
	if missingParent {
		cls["missing_parent_dir"] = true
	}
	if a.WellFormed {
		cls["well_formed"] = true
	}
	if a.Escaping {
		cls["escaping"] = true
	}
	cls["fmt_"+a.Format] = true
	for k := range cls {
		a.Classes = append(a.Classes, k)
	}
	sort.Strings(a.Classes)
	return a
}

// write the archive; ok=false when the container format cannot carry the entries (generator limit).
func verifWriteArchive(a verifArchive, file string) (ok bool, err error) {
	var buf bytes.Buffer
	switch a.Format {
	case "zip":
		zw := zip.NewWriter(&buf)
		for _, e := range a.Entries {
			switch e.Kind {
			case "file":
				w, err := zw.CreateHeader(&zip.FileHeader{Name: e.Name, Method: zip.Deflate})
				if err != nil {
					return false, nil
				}
				w.Write(e.Data)
			case "dir":
				nm := e.Name
				if !strings.HasSuffix(nm, "/") {
					nm += "/"
				}
				if _, err := zw.CreateHeader(&zip.FileHeader{Name: nm}); err != nil {
					return false, nil
				}
			default:
				return false, nil // no links in the generated zips
			}
		}
		if err := zw.Close(); err != nil {
			return false, nil
		}
	default:
		tw := tar.NewWriter(&buf)
		for _, e := range a.Entries {
			h := &tar.Header{Name: e.Name, Mode: 0o644, Format: tar.FormatPAX}
			switch e.Kind {
			case "file":
				h.Typeflag = tar.TypeReg
				h.Size = int64(len(e.Data))
			case "dir":
				h.Typeflag = tar.TypeDir
				h.Mode = 0o755
			case "symlink":
				h.Typeflag = tar.TypeSymlink
				h.Linkname = e.Link
			case "hardlink":
				h.Typeflag = tar.TypeLink
				h.Linkname = e.Link
			}
			if err := tw.WriteHeader(h); err != nil {
				return false, nil
			}
			if e.Kind == "file" {
				tw.Write(e.Data)
			}
		}
		if err := tw.Close(); err != nil {
			return false, nil
		}
		if a.Format == "tar.gz" {
			var z bytes.Buffer
			gw := gzip.NewWriter(&z)
			gw.Write(buf.Bytes())
			gw.Close()
			buf = z
		} else {
			cmd := exec.Command("xz", "-0", "-c")
			cmd.Stdin = bytes.NewReader(buf.Bytes())
			out, err := cmd.Output()
			if err != nil {
				return false, fmt.Errorf("VERIF-INFRA xz: %v", err)
			}
			buf = *bytes.NewBuffer(out)
		}
	}
	return true, os.WriteFile(file, buf.Bytes(), 0o644)
}

// snapshot of a tree: path -> description (type, content hash or link target); links are not followed.
func verifSnapshot(root string, skip string) map[string]string {
	m := map[string]string{}
	filepath.Walk(root, func(p string, info os.FileInfo, err error) error {
		if err != nil {
			m[p] = "ERR " + err.Error()
			return nil
		}
		if skip != "" && (p == skip || strings.HasPrefix(p, skip+string(os.PathSeparator))) {
			if info.IsDir() {
				return filepath.SkipDir
			}
			return nil
		}
		switch {
		case info.Mode()&os.ModeSymlink != 0:
			tgt, _ := os.Readlink(p)
			m[p] = "L " + tgt
		case info.IsDir():
			m[p] = "D"
		default:
			b, _ := os.ReadFile(p)
			h := sha256.Sum256(b)
			m[p] = fmt.Sprintf("F %d %s", len(b), hex.EncodeToString(h[:8]))
		}
		return nil
	})
	return m
}

func verifDiff(before, after map[string]string) string {
	var d []string
	for p, v := range after {
		if b, ok := before[p]; !ok {
			d = append(d, "created "+p+" ("+v+")")
		} else if b != v {
			d = append(d, "modified "+p+" ("+b+" -> "+v+")")
		}
	}
	for p := range before {
		if _, ok := after[p]; !ok {
			d = append(d, "removed "+p)
		}
	}
	sort.Strings(d)
	return strings.Join(d, "; ")
}

func verifExtract(format, file, dest string) error {
	switch format {
	case "zip":
		return extractZip(file, dest)
	case "tar.gz":
		return extractTarGz(file, dest)
	default:
		return extractTarXz(file, dest)
	}
}

func verifSetupRoot(base string, seq int) (root, dest, arch string) {
	root = filepath.Join(base, fmt.Sprintf("r%d", seq%32), "root")
	os.RemoveAll(filepath.Dir(root))
	dest = filepath.Join(root, "dest")
	os.MkdirAll(dest, 0o755)
	os.MkdirAll(filepath.Join(root, "outside"), 0o755)
	os.MkdirAll(filepath.Join(root, "dest-evil"), 0o755)
	os.WriteFile(filepath.Join(root, "sentinel.txt"), []byte("sentinel"), 0o644)
	os.WriteFile(filepath.Join(root, "outside", "keep"), []byte("keep"), 0o644)
	os.WriteFile(filepath.Join(root, "destx"), []byte("destx"), 0o644)
	arch = filepath.Join(filepath.Dir(root), "archive")
	return
}

func TestVerifC20Extract(t *testing.T) {
	c := verifstat.For("C20")
	defer c.Flush()
	base := t.TempDir()
	seq := 0
	rapid.Check(t, func(t *rapid.T) {
		seq++
		root, dest, archBase := verifSetupRoot(base, seq)
		a := verifGenArchive(t, root)
		file := archBase + "." + a.Format
		ok, err := verifWriteArchive(a, file)
		if err != nil {
			t.Fatalf("%v", err)
		}
		if !ok {
			c.Skip("container_cannot_carry_entries")
			return
		}
		nt := false
		for _, k := range a.Classes {
			switch k {
			case "escaping", "symlink", "hardlink", "clash", "missing_parent_dir", "duplicate", "prefix_sibling":
				nt = true
			}
		}
		c.Case(verifstat.Hash("archive", a.Format, fmt.Sprint(a.Entries)), nt, a.Classes...)
		if nt {
			c.Sample(a)
		}
		before := verifSnapshot(root, dest)
		xerr := verifExtract(a.Format, file, dest)
		after := verifSnapshot(root, dest)
		desc := fmt.Sprintf("%s archive %+v", a.Format, verifNames(a))
		// (1) confinement
		if d := verifDiff(before, after); d != "" {
			key := "C20:escape:" + a.Format
			if c.IsKnown(key) {
				c.KnownHit(key)
				return
			}
			t.Fatalf("[%s] extraction touched files outside the destination: %s\n%s (err=%v)", key, d, desc, xerr)
		}
		// (2) escaping entries are rejected with an error
		if a.Escaping && xerr == nil {
			t.Fatalf("[C20:escape-no-error:%s] an entry leaving the destination was not rejected (err=nil)\n%s", a.Format, desc)
		}
		// (3) fidelity for well-formed archives
		if a.WellFormed {
			if xerr != nil {
				t.Fatalf("[C20:wellformed-error:%s] well-formed archive failed to extract: %v\n%s", a.Format, xerr, desc)
			}
			wantFiles := map[string][]byte{}
			for _, e := range a.Entries {
				nm := strings.TrimSuffix(strings.TrimPrefix(e.Name, "./"), "/")
				p := filepath.Join(dest, nm)
				if e.Kind == "dir" {
					if st, err := os.Lstat(p); err != nil || !st.IsDir() {
						t.Fatalf("[C20:fidelity:%s] directory %q missing after extraction\n%s", a.Format, e.Name, desc)
					}
					continue
				}
				wantFiles[p] = e.Data
			}
			got := verifSnapshot(dest, "")
			for p, v := range got {
				if strings.HasPrefix(v, "F ") {
					if _, ok := wantFiles[p]; !ok {
						t.Fatalf("[C20:fidelity:%s] unexpected file %s in destination\n%s", a.Format, p, desc)
					}
				}
			}
			for p, data := range wantFiles {
				b, err := os.ReadFile(p)
				if err != nil || !bytes.Equal(b, data) {
					t.Fatalf("[C20:fidelity:%s] file %s: %d bytes (err=%v); archive has %d bytes\n%s", a.Format, p, len(b), err, len(data), desc)
				}
			}
			return
		}
		// (4) duplicates (otherwise well-formed): the file must be one of the archived contents in full
		if xerr == nil {
			byName := map[string][][]byte{}
			simple := true
			for _, e := range a.Entries {
				if e.Kind != "file" || verifEscapes(e.Name) {
					simple = false
					break
				}
				nm := path.Clean(strings.TrimPrefix(e.Name, "./"))
				if nm == "." || strings.HasPrefix(nm, "/") || nm != strings.TrimPrefix(e.Name, "./") {
					simple = false
					break
				}
				byName[nm] = append(byName[nm], e.Data)
			}
			if simple {
				for nm, datas := range byName {
					isDirOfOther := false
					for o := range byName {
						if strings.HasPrefix(o, nm+"/") {
							isDirOfOther = true
						}
					}
					if isDirOfOther || len(datas) < 2 {
						continue
					}
					b, err := os.ReadFile(filepath.Join(dest, nm))
					if err != nil {
						continue
					}
					match := false
					for _, d := range datas {
						if bytes.Equal(b, d) {
							match = true
						}
					}
					if !match {
						t.Fatalf("[C20:duplicate-mixture:%s] %q was archived %d times; extracted file (%d bytes) equals none of the archived contents\n%s", a.Format, nm, len(datas), len(b), desc)
					}
				}
			}
		}
	})
}

func verifNames(a verifArchive) []string {
	var s []string
	for _, e := range a.Entries {
		x := e.Kind + ":" + e.Name
		if e.Link != "" {
			x += "->" + e.Link
		}
		if e.Kind == "file" {
			x += fmt.Sprintf("(%d)", len(e.Data))
		}
		s = append(s, x)
	}
	return s
}

// Concurrent requests for one destination leave one complete copy and no residue.
func TestVerifC20Concurrent(t *testing.T) {
	c := verifstat.For("C20")
	defer c.Flush()
	base := t.TempDir()
	var mu sync.Mutex
	archives := map[string][]byte{}
	delays := map[string]time.Duration{}
	hits := map[string]int{}
	srv := httptest.NewServer(http.HandlerFunc(func(w http.ResponseWriter, r *http.Request) {
		mu.Lock()
		b, ok := archives[r.URL.Path]
		d := delays[r.URL.Path]
		hits[r.URL.Path]++
		mu.Unlock()
		if !ok {
			http.NotFound(w, r)
			return
		}
		time.Sleep(d)
		half := len(b) / 2
		w.Write(b[:half])
		if f, ok := w.(http.Flusher); ok {
			f.Flush()
		}
		time.Sleep(d)
		w.Write(b[half:])
	}))
	defer srv.Close()
	seq := 0
	rapid.Check(t, func(t *rapid.T) {
		seq++
		format := rapid.SampledFrom([]string{"tar.gz", "zip", "tar.xz"}).Draw(t, "format")
		inner := rapid.SampledFrom([]string{"", "pkg-1.0"}).Draw(t, "inner")
		nfiles := rapid.IntRange(1, 6).Draw(t, "nfiles")
		a := verifArchive{Format: format}
		want := map[string][]byte{}
		if inner != "" {
			a.Entries = append(a.Entries, verifEntry{Kind: "dir", Name: inner + "/"})
		}
		sub := map[string]bool{}
		for i := 0; i < nfiles; i++ {
			d := rapid.SampledFrom([]string{"", "src/", "include/sys/"}).Draw(t, "sub")
			if d != "" && !sub[d] {
				sub[d] = true
				for _, pd := range []string{"src/", "include/", "include/sys/"} {
					if strings.HasPrefix(d, pd) && !sub["mk"+pd] {
						sub["mk"+pd] = true
						a.Entries = append(a.Entries, verifEntry{Kind: "dir", Name: path.Join(inner, pd) + "/"})
					}
				}
			}
			nm := fmt.Sprintf("%sf%d.c", d, i)
			data := verifData(t)
			a.Entries = append(a.Entries, verifEntry{Kind: "file", Name: path.Join(inner, nm), Data: data})
			want[nm] = data
		}
		tmp := filepath.Join(base, fmt.Sprintf("dl%d.%s", seq, format))
		if ok, err := verifWriteArchive(a, tmp); !ok || err != nil {
			t.Fatalf("VERIF-INFRA cannot write archive: %v", err)
		}
		b, _ := os.ReadFile(tmp)
		os.Remove(tmp)
		urlPath := fmt.Sprintf("/dl/%d/lib.%s", seq, format)
		delay := time.Duration(rapid.IntRange(0, 3).Draw(t, "delay_ms")) * time.Millisecond
		mu.Lock()
		archives[urlPath] = b
		delays[urlPath] = delay
		mu.Unlock()
		dst := filepath.Join(base, fmt.Sprintf("cache%d", seq), "lib")
		nreq := rapid.IntRange(2, 4).Draw(t, "nreq")
		stagger := make([]int, nreq)
		for i := range stagger {
			stagger[i] = rapid.IntRange(0, 4).Draw(t, "stagger_ms")
		}
		c.Case(verifstat.Hash("concurrent", format, inner, nfiles, nreq, fmt.Sprint(stagger), seq), true, "concurrent_"+format)
		c.Sample(map[string]any{"kind": "concurrent", "format": format, "inner_dir": inner, "files": len(want), "requests": nreq, "stagger_ms": stagger})
		errs := make([]error, nreq)
		var wg sync.WaitGroup
		for i := 0; i < nreq; i++ {
			wg.Add(1)
			go func(i int) {
				defer wg.Done()
				time.Sleep(time.Duration(stagger[i]) * time.Millisecond)
				errs[i] = checkDownloadAndExtractLib(srv.URL+urlPath, dst, inner)
			}(i)
		}
		wg.Wait()
		for i, err := range errs {
			if err != nil {
				t.Fatalf("[C20:concurrent] request %d of %d failed: %v", i, nreq, err)
			}
		}
		got := verifSnapshot(dst, "")
		nf := 0
		for p, v := range got {
			if strings.HasPrefix(v, "F ") {
				nf++
				rel, _ := filepath.Rel(dst, p)
				if rel == "lib."+format { // the downloaded archive itself is kept beside the extracted files when no inner directory is selected
					continue
				}
				if _, ok := want[filepath.ToSlash(rel)]; !ok {
					t.Fatalf("[C20:concurrent] unexpected file %s in destination", rel)
				}
			}
		}
		for nm, data := range want {
			b, err := os.ReadFile(filepath.Join(dst, nm))
			if err != nil || !bytes.Equal(b, data) {
				t.Fatalf("[C20:concurrent] %s incomplete after %d concurrent requests: %d of %d bytes (err=%v)", nm, nreq, len(b), len(data), err)
			}
		}
		ents, _ := os.ReadDir(filepath.Dir(dst))
		for _, e := range ents {
			if e.Name() != "lib" {
				t.Fatalf("[C20:concurrent-residue] %q left beside the destination after all requests returned", e.Name())
			}
		}
		os.RemoveAll(filepath.Dir(dst))
		mu.Lock()
		delete(archives, urlPath)
		mu.Unlock()
	})
}

var _ = io.EOF
