package targets

// C18: every shipped target description, and every generated acyclic inheritance forest, resolves to
// the configuration an independent resolver computes from the raw JSON (scalars: nearest definition
// wins; lists: ancestors' lists in inheritance order, then own), independent of load order and cache
// state; a missing or cyclic parent yields an error – observed in a child process, because unbounded
// recursion is a fatal, unrecoverable crash.

import (
	"bufio"
	"encoding/json"
	"fmt"
	"io"
	"os"
	"os/exec"
	"path/filepath"
	"reflect"
	"runtime/debug"
	"sort"
	"strings"
	"testing"
	"time"

	"pgregory.net/rapid"
	"verifstat"
)

// ---- independent resolver over raw JSON ----

type verifRaw map[string]any

func verifReadRaw(dir, name string) (verifRaw, error) {
	b, err := os.ReadFile(filepath.Join(dir, name+".json"))
	if err != nil {
		return nil, err
	}
	var m verifRaw
	if err := json.Unmarshal(b, &m); err != nil {
		return nil, err
	}
	return m, nil
}

func verifMerge(dst, src verifRaw) {
	for k, v := range src {
		if k == "inherits" {
			continue
		}
		switch x := v.(type) {
		case string:
			if x != "" {
				dst[k] = x
			}
		case bool:
			if x {
				dst[k] = x
			}
		case []any:
			if len(x) > 0 {
				old, _ := dst[k].([]any)
				dst[k] = append(append([]any{}, old...), x...)
			}
		}
	}
}

func verifResolve(dir, name string, depth int) (verifRaw, error) {
	if depth > 64 {
		return nil, fmt.Errorf("cycle")
	}
	raw, err := verifReadRaw(dir, name)
	if err != nil {
		return nil, err
	}
	acc := verifRaw{}
	if inh, ok := raw["inherits"].([]any); ok {
		for _, p := range inh {
			pr, err := verifResolve(dir, p.(string), depth+1)
			if err != nil {
				return nil, err
			}
			verifMerge(acc, pr)
		}
	}
	verifMerge(acc, raw)
	return acc, nil
}

type verifField struct {
	idx  int
	tag  string
	kind reflect.Kind
}

func verifFields() []verifField {
	var fs []verifField
	ct := reflect.TypeOf(Config{})
	for i := 0; i < ct.NumField(); i++ {
		tag := strings.Split(ct.Field(i).Tag.Get("json"), ",")[0]
		if tag == "" || tag == "-" {
			continue
		}
		fs = append(fs, verifField{i, tag, ct.Field(i).Type.Kind()})
	}
	return fs
}

// compare a resolved Config with the oracle, field by field (fields enumerated by reflection so that
// a field added to Config later is covered too).
func verifCompare(cfg *Config, want verifRaw) string {
	cv := reflect.ValueOf(cfg).Elem()
	for _, f := range verifFields() {
		got := cv.Field(f.idx)
		switch f.kind {
		case reflect.String:
			w, _ := want[f.tag].(string)
			if got.String() != w {
				return fmt.Sprintf("field %q = %q; want %q", f.tag, got.String(), w)
			}
		case reflect.Bool:
			w, _ := want[f.tag].(bool)
			if got.Bool() != w {
				return fmt.Sprintf("field %q = %v; want %v", f.tag, got.Bool(), w)
			}
		case reflect.Slice:
			w, _ := want[f.tag].([]any)
			var ws []string
			for _, x := range w {
				ws = append(ws, fmt.Sprint(x))
			}
			gs, _ := got.Interface().([]string)
			if len(gs) != len(ws) {
				return fmt.Sprintf("field %q = %q; want %q", f.tag, gs, ws)
			}
			for i := range gs {
				if gs[i] != ws[i] {
					return fmt.Sprintf("field %q = %q; want %q", f.tag, gs, ws)
				}
			}
		default:
			return fmt.Sprintf("field %q has kind %v that the oracle does not model", f.tag, f.kind)
		}
	}
	return ""
}

func verifSnapshot(cfg *Config) string {
	b, _ := json.Marshal(cfg)
	return cfg.Name + string(b)
}

// ---- shipped targets ----

func verifShippedDir(t testing.TB) string {
	root := os.Getenv("VERIF_REPO")
	if root == "" {
		wd, _ := os.Getwd()
		root = filepath.Join(wd, "..", "..")
	}
	return filepath.Join(root, "targets")
}

func TestVerifC18Shipped(t *testing.T) {
	c := verifstat.For("C18")
	defer c.Flush()
	dir := verifShippedDir(t)
	names, err := NewLoader(dir).ListTargets()
	if err != nil || len(names) == 0 {
		t.Fatalf("no shipped targets in %s: %v", dir, err)
	}
	sort.Strings(names)
	snap := map[string]string{}
	for _, n := range names {
		want, err := verifResolve(dir, n, 0)
		if err != nil {
			t.Fatalf("oracle cannot resolve shipped target %s: %v", n, err)
		}
		cfg, err := NewLoader(dir).Load(n)
		if err != nil {
			t.Fatalf("shipped target %s does not resolve: %v", n, err)
		}
		if d := verifCompare(cfg, want); d != "" {
			t.Fatalf("shipped target %s (fresh loader): %s", n, d)
		}
		if cfg.Name != n {
			t.Fatalf("shipped target %s resolves with Name=%q", n, cfg.Name)
		}
		snap[n] = verifSnapshot(cfg)
		raw, _ := verifReadRaw(dir, n)
		_, inh := raw["inherits"]
		c.Case(verifstat.Hash("shipped", n), inh, "shipped_fresh")
		if inh {
			c.Sample(map[string]any{"kind": "shipped", "target": n, "inherits": raw["inherits"]})
		}
	}
	all, err := NewLoader(dir).LoadAll()
	if err != nil {
		t.Fatalf("LoadAll: %v", err)
	}
	if len(all) != len(names) {
		t.Fatalf("LoadAll returned %d targets; directory has %d", len(all), len(names))
	}
	for n, cfg := range all {
		if verifSnapshot(cfg) != snap[n] {
			t.Fatalf("LoadAll result for %s differs from a fresh load", n)
		}
	}
	// shared loader, random orders (the cache must not change any result)
	rapid.Check(t, func(t *rapid.T) {
		l := NewLoader(dir)
		perm := rapid.Permutation(names).Draw(t, "order")
		k := rapid.IntRange(1, 40).Draw(t, "k")
		for _, n := range perm[:k] {
			cfg, err := l.Load(n)
			if err != nil {
				t.Fatalf("shared loader: %s: %v", n, err)
			}
			if verifSnapshot(cfg) != snap[n] {
				t.Fatalf("shared loader after %v: result for %s differs from a fresh load", perm[:k], n)
			}
			c.Case(verifstat.Hash("shipped-shared", n, perm[0]), true, "shipped_shared_order")
		}
	})
	c.SetExhaustive(false)
}

// ---- generated forests ----

type verifNode struct {
	Name     string
	Inherits []string
	Fields   map[string]any
}

func verifGenForest(t *rapid.T) []verifNode {
	n := rapid.IntRange(1, 12).Draw(t, "n")
	fields := verifFields()
	nodes := make([]verifNode, n)
	depth := make([]int, n)
	for i := n - 1; i >= 0; i-- { // parents have larger indices ⇒ acyclic
		nd := verifNode{Name: fmt.Sprintf("n%d", i), Fields: map[string]any{}}
		if i < n-1 {
			np := rapid.IntRange(0, 3).Draw(t, "nparents")
			for p := 0; p < np; p++ {
				j := rapid.IntRange(i+1, n-1).Draw(t, "parent")
				if depth[j] >= 5 {
					continue
				}
				nd.Inherits = append(nd.Inherits, nodes[j].Name) // duplicates allowed: a parent listed twice
				if depth[j]+1 > depth[i] {
					depth[i] = depth[j] + 1
				}
			}
		}
		density := rapid.IntRange(0, 3).Draw(t, "density")
		for _, f := range fields {
			if rapid.IntRange(0, 3).Draw(t, "set") > density {
				continue
			}
			switch f.kind {
			case reflect.String:
				nd.Fields[f.tag] = nd.Name + "." + f.tag
			case reflect.Bool:
				nd.Fields[f.tag] = true
			case reflect.Slice:
				k := rapid.IntRange(1, 2).Draw(t, "listlen")
				var l []any
				for e := 0; e < k; e++ {
					l = append(l, fmt.Sprintf("%s.%s.%d", nd.Name, f.tag, e))
				}
				nd.Fields[f.tag] = l
			}
		}
		nodes[i] = nd
	}
	return nodes
}

func verifWriteForest(dir string, nodes []verifNode) error {
	for _, nd := range nodes {
		m := map[string]any{}
		for k, v := range nd.Fields {
			m[k] = v
		}
		if nd.Inherits != nil {
			m["inherits"] = nd.Inherits
		}
		b, _ := json.Marshal(m)
		if err := os.WriteFile(filepath.Join(dir, nd.Name+".json"), b, 0o644); err != nil {
			return err
		}
	}
	return nil
}

func verifForestShape(nodes []verifNode) (levels int, diamond bool, twoLevels bool) {
	idx := map[string]int{}
	for i, n := range nodes {
		idx[n.Name] = i
	}
	var depth func(i int) int
	depth = func(i int) int {
		d := 1
		for _, p := range nodes[i].Inherits {
			if x := depth(idx[p]) + 1; x > d {
				d = x
			}
		}
		return d
	}
	var anc func(i int, seen map[int]int)
	anc = func(i int, seen map[int]int) {
		for _, p := range nodes[i].Inherits {
			seen[idx[p]]++
			anc(idx[p], seen)
		}
	}
	for i := range nodes {
		if d := depth(i); d > levels {
			levels = d
		}
		seen := map[int]int{}
		anc(i, seen)
		for j, cnt := range seen {
			if cnt > 1 {
				diamond = true
			}
			for k := range nodes[i].Fields {
				if _, ok := nodes[j].Fields[k]; ok {
					twoLevels = true
				}
			}
		}
	}
	return
}

func TestVerifC18Forest(t *testing.T) {
	c := verifstat.For("C18")
	defer c.Flush()
	base := t.TempDir()
	seq := 0
	rapid.Check(t, func(t *rapid.T) {
		nodes := verifGenForest(t)
		seq++
		dir := filepath.Join(base, fmt.Sprintf("f%d", seq%64))
		os.RemoveAll(dir)
		os.MkdirAll(dir, 0o755)
		if err := verifWriteForest(dir, nodes); err != nil {
			t.Fatal(err)
		}
		levels, diamond, two := verifForestShape(nodes)
		var cls []string
		if diamond {
			cls = append(cls, "forest_diamond")
		}
		if levels >= 3 {
			cls = append(cls, "forest_3levels")
		}
		if levels >= 5 {
			cls = append(cls, "forest_5levels")
		}
		cls = append(cls, "forest")
		js, _ := json.Marshal(nodes)
		c.Case(verifstat.Hash("forest", string(js)), (diamond || levels >= 3) && two, cls...)
		if diamond && levels >= 3 {
			c.Sample(map[string]any{"kind": "forest", "levels": levels, "diamond": diamond, "nodes": nodes})
		}
		shared := NewLoader(dir)
		order := rapid.Permutation(nodes).Draw(t, "order")
		for _, nd := range order {
			want, err := verifResolve(dir, nd.Name, 0)
			if err != nil {
				t.Fatalf("oracle failed on acyclic forest: %v", err)
			}
			fresh, err := NewLoader(dir).Load(nd.Name)
			if err != nil {
				t.Fatalf("Load(%s) on a well-formed forest: %v", nd.Name, err)
			}
			if d := verifCompare(fresh, want); d != "" {
				t.Fatalf("Load(%s), fresh loader: %s\nforest: %s", nd.Name, d, js)
			}
			if fresh.Name != nd.Name {
				t.Fatalf("Load(%s).Name = %q", nd.Name, fresh.Name)
			}
			warm, err := shared.Load(nd.Name)
			if err != nil {
				t.Fatalf("Load(%s), warm loader: %v", nd.Name, err)
			}
			if d := verifCompare(warm, want); d != "" {
				t.Fatalf("Load(%s), warm loader (order %v): %s\nforest: %s", nd.Name, order, d, js)
			}
			// a second load from the same loader must give the same answer again
			again, err := shared.Load(nd.Name)
			if err != nil || verifSnapshot(again) != verifSnapshot(warm) {
				t.Fatalf("Load(%s) twice from one loader differs (err=%v)", nd.Name, err)
			}
		}
		all, err := NewLoader(dir).LoadAll()
		if err != nil || len(all) != len(nodes) {
			t.Fatalf("LoadAll: %d configs, err=%v; want %d", len(all), err, len(nodes))
		}
		for _, nd := range nodes {
			want, _ := verifResolve(dir, nd.Name, 0)
			if d := verifCompare(all[nd.Name], want); d != "" {
				t.Fatalf("LoadAll[%s]: %s", nd.Name, d)
			}
		}
	})
}

// ---- ill-formed forests: must end in an error, not a crash or hang ----

type verifChild struct {
	cmd *exec.Cmd
	in  io.WriteCloser
	out *bufio.Reader
}

func verifStartChild() (*verifChild, error) {
	cmd := exec.Command(os.Args[0], "-test.run", "^TestVerifC18ChildWorker$")
	cmd.Env = append(os.Environ(), "VERIF_C18_CHILD=1")
	in, _ := cmd.StdinPipe()
	out, _ := cmd.StdoutPipe()
	cmd.Stderr = nil
	if err := cmd.Start(); err != nil {
		return nil, err
	}
	return &verifChild{cmd, in, bufio.NewReader(out)}, nil
}

// returns the child's verdict line ("ERR …" / "NIL"), or crashed=true if it died / hung.
func (ch *verifChild) ask(dir, name string) (line string, crashed bool, why string) {
	fmt.Fprintf(ch.in, "%s\t%s\n", dir, name)
	type res struct {
		s   string
		err error
	}
	rc := make(chan res, 1)
	go func() {
		for {
			s, err := ch.out.ReadString('\n')
			if err != nil || strings.HasPrefix(s, "VERIFC18 ") {
				rc <- res{strings.TrimSpace(strings.TrimPrefix(s, "VERIFC18 ")), err}
				return
			}
		}
	}()
	select {
	case r := <-rc:
		if r.err != nil {
			ch.cmd.Wait()
			return "", true, "process died (unbounded recursion ends in a fatal stack overflow)"
		}
		return r.s, false, ""
	case <-time.After(60 * time.Second):
		ch.cmd.Process.Kill()
		ch.cmd.Wait()
		return "", true, "no answer within 60 s (hang)"
	}
}

func TestVerifC18ChildWorker(t *testing.T) {
	if os.Getenv("VERIF_C18_CHILD") == "" {
		t.Skip("helper process")
	}
	debug.SetMaxStack(32 << 20) // make runaway recursion fail fast instead of eating 1 GiB first
	sc := bufio.NewScanner(os.Stdin)
	for sc.Scan() {
		parts := strings.SplitN(sc.Text(), "\t", 2)
		if len(parts) != 2 {
			continue
		}
		// one loader, the failing description resolved repeatedly, then every other description of the
		// directory, then the failing one again: each call must return (a config or an error), and the
		// failing one must fail every time
		l := NewLoader(parts[0])
		_, err := l.Load(parts[1])
		verdict := "NIL"
		if err != nil {
			verdict = "ERR " + strings.ReplaceAll(err.Error(), "\n", " ")
			if cfg, err2 := l.Load(parts[1]); err2 == nil {
				verdict = fmt.Sprintf("SECOND-LOAD-NIL after an error, config=%v", cfg != nil)
			}
			names, _ := l.ListTargets()
			for _, n := range names {
				if cfg, e := l.Load(n); e == nil && (cfg == nil || cfg.Name != n) {
					verdict = "NIL-CONFIG-WITHOUT-ERROR for " + n
				}
			}
			if _, err3 := l.Load(parts[1]); err3 == nil {
				verdict = "THIRD-LOAD-NIL after an error"
			}
			if _, err4 := NewResolver(parts[0]).Resolve(parts[1]); err4 == nil {
				verdict = "RESOLVER-NIL"
			}
		}
		fmt.Printf("VERIFC18 %s\n", verdict)
	}
	os.Exit(0)
}

func TestVerifC18IllFormed(t *testing.T) {
	if os.Getenv("VERIF_C18_CHILD") != "" {
		t.Skip()
	}
	c := verifstat.For("C18")
	defer c.Flush()
	base := t.TempDir()
	var child *verifChild
	defer func() {
		if child != nil {
			child.in.Close()
			child.cmd.Wait()
		}
	}()
	seq := 0
	rapid.Check(t, func(t *rapid.T) {
		nodes := verifGenForest(t)
		n := len(nodes)
		seq++
		dir := filepath.Join(base, fmt.Sprintf("b%d", seq%64))
		os.RemoveAll(dir)
		os.MkdirAll(dir, 0o755)
		kind := rapid.SampledFrom([]string{"missing", "self", "cycle2", "cycle3", "cycle_second_parent", "malformed"}).Draw(t, "kind")
		start := rapid.IntRange(0, n-1).Draw(t, "start")
		victim := start // the node whose resolution must fail
		switch kind {
		case "missing":
			nodes[start].Inherits = append(nodes[start].Inherits, "does-not-exist")
		case "self":
			nodes[start].Inherits = append(nodes[start].Inherits, nodes[start].Name)
		case "cycle2", "cycle3", "cycle_second_parent":
			// add a back edge from an ancestor-side node to a descendant-side node: a -> ... -> b -> a
			a := rapid.IntRange(0, n-1).Draw(t, "a")
			b := rapid.IntRange(a, n-1).Draw(t, "b")
			// ensure a path a -> b exists (a inherits b directly), then close the cycle b -> a
			if a != b {
				nodes[a].Inherits = append(nodes[a].Inherits, nodes[b].Name)
			}
			if kind == "cycle3" && b+1 < n {
				nodes[b].Inherits = append(nodes[b].Inherits, nodes[b+1].Name)
				nodes[b+1].Inherits = append(nodes[b+1].Inherits, nodes[a].Name)
			} else if kind == "cycle_second_parent" && len(nodes[b].Inherits) > 0 {
				nodes[b].Inherits = append(nodes[b].Inherits, nodes[a].Name) // reached only after the first parent resolved
			} else {
				nodes[b].Inherits = append([]string{nodes[a].Name}, nodes[b].Inherits...)
			}
			victim = a
		}
		if err := verifWriteForest(dir, nodes); err != nil {
			t.Fatal(err)
		}
		if kind == "malformed" {
			os.WriteFile(filepath.Join(dir, nodes[start].Name+".json"), []byte(`{"inherits": ["x"`), 0o644)
		}
		js, _ := json.Marshal(nodes)
		c.Case(verifstat.Hash("ill", kind, string(js)), true, "illformed_"+kind)
		c.Sample(map[string]any{"kind": "illformed:" + kind, "victim": nodes[victim].Name, "nodes": nodes})
		if child == nil {
			var err error
			if child, err = verifStartChild(); err != nil {
				t.Fatalf("VERIF-INFRA cannot start helper: %v", err)
			}
		}
		line, crashed, why := child.ask(dir, nodes[victim].Name)
		if crashed {
			child = nil
			key := "C18:cycle-no-error"
			if !strings.HasPrefix(kind, "cycle") && kind != "self" {
				key = "C18:illformed-crash:" + kind
			}
			if c.IsKnown(key) {
				c.KnownHit(key)
				return
			}
			t.Fatalf("[%s] Load(%s) on an ill-formed forest (%s): %s; want an error\nforest: %s", key, nodes[victim].Name, kind, why, js)
		}
		if !strings.HasPrefix(line, "ERR") {
			t.Fatalf("Load(%s) on an ill-formed forest (%s) returned %q; want an error\nforest: %s", nodes[victim].Name, kind, line, js)
		}
	})
}
