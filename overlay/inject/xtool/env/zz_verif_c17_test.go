package env

// C17 (expansion in link directives): $NAME, ${NAME} and $(pkg-config …) / $(llvm-config …) in a
// template are replaced by exactly the referenced values; when a command was expanded the result is
// split as pkg-config flags, otherwise it is a single argument.

import (
	"fmt"
	"os"
	"path/filepath"
	"reflect"
	"strings"
	"testing"

	"pgregory.net/rapid"
	"verifstat"
	"verifstat/pcgen"
)

func TestVerifC17ExpandEnvToArgs(t *testing.T) {
	c := verifstat.For("C17")
	defer c.Flush()
	dir := t.TempDir()
	pc := filepath.Join(dir, "pc")
	os.MkdirAll(pc, 0o755)
	script := "#!/bin/sh\ncat \"" + pc + "/$2$1\"\n"
	for _, n := range []string{"pkg-config", "llvm-config"} {
		if err := os.WriteFile(filepath.Join(dir, n), []byte(script), 0o755); err != nil {
			t.Fatal(err)
		}
	}
	oldPath := os.Getenv("PATH")
	os.Setenv("PATH", dir+":"+oldPath)
	defer os.Setenv("PATH", oldPath)

	rapid.Check(t, func(t *rapid.T) {
		nparts := rapid.IntRange(1, 5).Draw(t, "nparts")
		var tmpl []string
		var want []string
		usedCmd := false
		dollars := false
		nexp := 0
		for i := 0; i < nparts; i++ {
			kind := rapid.IntRange(0, 3).Draw(t, "kind")
			flags := pcgen.Flags(t, 3)
			text := pcgen.Render(t, flags, true)
			switch kind {
			case 0: // literal
				if text == "" {
					continue
				}
				tmpl = append(tmpl, text)
			case 1, 2: // $NAME / ${NAME}; the value is substituted verbatim, whatever it contains
				if len(flags) > 0 && rapid.IntRange(0, 2).Draw(t, "dollar") == 0 {
					k := rapid.IntRange(0, len(flags)-1).Draw(t, "dollarflag")
					flags[k] += rapid.SampledFrom([]string{"$(arch)", "$", "$(pkg-config --libs zz)", "${X}", "$HOME", "$(x)y"}).Draw(t, "dollartext")
					text = pcgen.Render(t, flags, true)
					dollars = true
				}
				name := fmt.Sprintf("VERIF_C17_%d", i)
				os.Setenv(name, text)
				defer os.Unsetenv(name)
				if kind == 1 {
					tmpl = append(tmpl, "$"+name)
				} else {
					tmpl = append(tmpl, "${"+name+"}")
				}
				nexp++
			case 3: // $(pkg-config --libs X)
				op := rapid.SampledFrom([]string{"--libs", "--cflags"}).Draw(t, "op")
				tool := rapid.SampledFrom([]string{"pkg-config", "llvm-config"}).Draw(t, "tool")
				pkg := fmt.Sprintf("p%d", i)
				out := text
				if rapid.Bool().Draw(t, "multiline") && len(flags) > 1 {
					out = pcgen.Render(t, flags[:1], true) + "\n" + pcgen.Render(t, flags[1:], true)
				}
				os.WriteFile(filepath.Join(pc, pkg+op), []byte(out+"\n"), 0o644)
				sp := rapid.SampledFrom([]string{"", " "}).Draw(t, "sp")
				tmpl = append(tmpl, "$("+sp+tool+" "+op+" "+pkg+sp+")")
				usedCmd = true
				nexp++
			}
			want = append(want, flags...)
		}
		template := strings.Join(tmpl, " ")
		cls := []string{"expand_env"}
		if dollars {
			cls = append(cls, "expand_env_value_with_dollar")
		}
		c.Case(verifstat.Hash("expand", template, strings.Join(want, "\x00")), nexp >= 2 || dollars, cls...)
		c.Sample(map[string]any{"kind": "expand", "template": template, "want": want})
		got := ExpandEnvToArgs(template)
		if usedCmd {
			if len(got) == 0 && len(want) == 0 {
				return
			}
			if !reflect.DeepEqual(got, want) {
				t.Fatalf("ExpandEnvToArgs(%q) = %q; want %q", template, got, want)
			}
			return
		}
		// no command: one argument holding the substituted text
		wantS := strings.TrimSpace(strings.Join(func() []string {
			var ps []string
			for _, p := range tmpl {
				if strings.HasPrefix(p, "$") {
					p = os.Getenv(strings.Trim(p, "${}"))
				}
				ps = append(ps, p)
			}
			return ps
		}(), " "))
		if wantS == "" {
			if len(got) != 0 {
				t.Fatalf("ExpandEnvToArgs(%q) = %q; want none", template, got)
			}
			return
		}
		if len(got) != 1 || got[0] != wantS {
			t.Fatalf("ExpandEnvToArgs(%q) = %q; want [%q]", template, got, wantS)
		}
		if s := ExpandEnv(template); s != wantS {
			t.Fatalf("ExpandEnv(%q) = %q; want %q", template, s, wantS)
		}
	})
}
