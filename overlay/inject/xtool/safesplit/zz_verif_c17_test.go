package safesplit

// C17 (pkg-config flag strings): a list of flags "-" + letter + value, rendered the way pkg-config
// prints them (blanks inside a value escaped with a backslash, flags separated by blanks), is split
// back into exactly that list.

import (
	"reflect"
	"testing"

	"pgregory.net/rapid"
	"verifstat"
	"verifstat/pcgen"
)

func TestVerifC17PkgConfigRoundTrip(t *testing.T) {
	c := verifstat.For("C17")
	defer c.Flush()
	rapid.Check(t, func(t *rapid.T) {
		flags := pcgen.Flags(t, 6)
		nt := pcgen.Nontrivial(flags)
		line := pcgen.Render(t, flags, false)
		c.Case(verifstat.Hash("pkgconfig", line), nt, "pkgconfig_roundtrip")
		c.Sample(map[string]any{"kind": "pkgconfig", "line": line, "flags": flags})
		got := SplitPkgConfigFlags(line)
		if len(got) == 0 && len(flags) == 0 {
			return
		}
		if !reflect.DeepEqual(got, flags) {
			t.Fatalf("SplitPkgConfigFlags(%q) = %q; want %q", line, got, flags)
		}
	})
}
