package safesplit

// C17 (pkg-config flag strings): a list of flags "-" + letter + value, rendered the way pkg-config
// prints them (blanks inside a value escaped with a backslash, flags separated by blanks), is split
// back into exactly that list.

import (
	"reflect"
	"strings"
	"testing"

	"pgregory.net/rapid"
	"verifstat"
)

var verifValAlphabet = []rune{' ', ' ', '\t', '\\', '-', '-', 'a', 'b', 'L', '/', '.', '=', ',', '$', '"', '\'', 'é', '世', '0'}

// VerifFlag draws one flag: value does not start with '-' (would read as the next flag), does not end
// in a blank (trailing blanks are not representable) nor in a backslash (it would escape the separator).
func VerifFlag(t *rapid.T) string {
	letter := rapid.SampledFrom([]rune("ILlDWfgOmpx")).Draw(t, "letter")
	n := rapid.IntRange(0, 8).Draw(t, "vlen")
	rs := make([]rune, 0, n)
	for i := 0; i < n; i++ {
		rs = append(rs, rapid.SampledFrom(verifValAlphabet).Draw(t, "vr"))
	}
	for len(rs) > 0 && rs[0] == '-' {
		rs = rs[1:]
	}
	for len(rs) > 0 && (rs[len(rs)-1] == ' ' || rs[len(rs)-1] == '\t' || rs[len(rs)-1] == '\\') {
		rs = rs[:len(rs)-1]
	}
	return "-" + string(letter) + string(rs)
}

func verifBlanks(t *rapid.T, min int) string {
	n := rapid.IntRange(min, 3).Draw(t, "nb")
	var b strings.Builder
	for i := 0; i < n; i++ {
		b.WriteString(rapid.SampledFrom([]string{" ", " ", "\t"}).Draw(t, "b"))
	}
	return b.String()
}

// VerifRenderFlags renders flags as one pkg-config style line.
func VerifRenderFlags(t *rapid.T, flags []string) string {
	var b strings.Builder
	b.WriteString(verifBlanks(t, 0))
	for i, f := range flags {
		if i > 0 {
			b.WriteString(verifBlanks(t, 1))
		}
		b.WriteString(f[:2])
		val := f[2:]
		if val != "" && val[0] != ' ' && val[0] != '\t' && rapid.IntRange(0, 3).Draw(t, "gap") == 0 {
			b.WriteString(verifBlanks(t, 1)) // "-I /path": blanks after the flag letter are ignored
		}
		for _, r := range val {
			if r == ' ' || r == '\t' {
				b.WriteByte('\\')
			}
			b.WriteRune(r)
		}
	}
	b.WriteString(verifBlanks(t, 0))
	return b.String()
}

func TestVerifC17PkgConfigRoundTrip(t *testing.T) {
	c := verifstat.For("C17")
	defer c.Flush()
	rapid.Check(t, func(t *rapid.T) {
		n := rapid.IntRange(0, 6).Draw(t, "nflags")
		flags := make([]string, n)
		nt := false
		for i := range flags {
			flags[i] = VerifFlag(t)
			if strings.ContainsAny(flags[i][2:], " \t\\") {
				nt = true
			}
		}
		line := VerifRenderFlags(t, flags)
		c.Case(verifstat.Hash("pkgconfig", line), nt, "pkgconfig_roundtrip")
		c.Sample(map[string]any{"kind": "pkgconfig", "line": line, "flags": flags})
		got := SplitPkgConfigFlags(line)
		if len(got) == 0 && len(flags) == 0 {
			return
		}
		if !reflect.DeepEqual(got, flags) {
			t.Fatalf("SplitPkgConfigFlags(%q) = %q; want %q", line, got, flags)
		}
	})
}
