//go:build llvm14 && verif

package ssa

import "github.com/xgo-dev/llvm"

// The sandbox only has LLVM 14, which needs opaque pointers switched on explicitly
// (llgo targets LLVM >= 15 where they are the default).  Overlay-only file; not part of /repo.
func init() {
	llvm.ParseCommandLineOptions([]string{"llgo", "-opaque-pointers"}, "")
}
