module verifoverlay

go 1.24
