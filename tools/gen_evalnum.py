#!/usr/bin/env python3
"""Generates /verif/programs/evalnum/cases/cases_gen.go: one //go:noinline function per (operator, type)
combination, a dispatcher from function id to a call with operands decoded from raw 64-bit words, and a
descriptor table. The package imports nothing but unsafe, so the same source runs under llgo at every
optimisation level and natively inside the gc-compiled harness (the reference)."""
import os, sys
out = os.path.join(os.path.dirname(os.path.dirname(os.path.abspath(__file__))), "programs", "evalnum", "cases", "cases_gen.go")
INTS = ["int8","int16","int32","int64","int","uint8","uint16","uint32","uint64","uint","uintptr"]
W = {"int8":8,"int16":16,"int32":32,"int64":64,"int":64,"uint8":8,"uint16":16,"uint32":32,"uint64":64,"uint":64,"uintptr":64}
SIGNED = {t: t.startswith("int") for t in INTS}
FLOATS = ["float32","float64"]
CPLX = ["complex64","complex128"]
funcs = []   # (name, kind, ta, tb, tr, body, params)
def add(name, kind, ta, tb, tr, expr, consts=None):
    funcs.append(dict(name=name, kind=kind, ta=ta, tb=tb, tr=tr, expr=expr))
def dec(t, w0, w1):
    if t in INTS: return f"{t}({w0})"
    if t == "bool": return f"({w0}&1 != 0)"
    if t == "float32": return f"f32({w0})"
    if t == "float64": return f"f64({w0})"
    if t == "complex64": return f"complex(f32({w0}), f32({w1}))"
    if t == "complex128": return f"complex(f64({w0}), f64({w1}))"
    raise Exception(t)
def enc(t, v):
    if t in INTS:
        u = {8:"uint8",16:"uint16",32:"uint32",64:"uint64"}[W[t]]
        return f"uint64({u}({v})), 0"
    if t == "bool": return f"b2u({v}), 0"
    if t == "float32": return f"u32({v}), 0"
    if t == "float64": return f"u64({v}), 0"
    if t == "complex64": return f"u32(real({v})), u32(imag({v}))"
    if t == "complex128": return f"u64(real({v})), u64(imag({v}))"
    raise Exception(t)
# integer binary / comparison / unary
for t in INTS:
    for op in ["+","-","*","/","%","&","|","^","&^"]:
        add(f"{t} {op} {t}", "ibin", t, t, t, f"x {op} y")
    for op in ["==","!=","<","<=",">",">="]:
        add(f"{t} {op} {t}", "icmp", t, t, "bool", f"x {op} y")
    for op in ["-","^","+"]:
        add(f"{op}{t}", "iun", t, None, t, f"{op}x")
    for tc in INTS:
        add(f"{t} << {tc}", "shift", t, tc, t, "x << y")
        add(f"{t} >> {tc}", "shift", t, tc, t, "x >> y")
add("!bool", "bun", "bool", None, "bool", "!x")
for op in ["&&","||","==","!="]:
    add(f"bool {op} bool", "bbin", "bool", "bool", "bool", f"x {op} y")
for t in FLOATS:
    for op in ["+","-","*","/"]:
        add(f"{t} {op} {t}", "fbin", t, t, t, f"x {op} y")
    for op in ["==","!=","<","<=",">",">="]:
        add(f"{t} {op} {t}", "fcmp", t, t, "bool", f"x {op} y")
    add(f"-{t}", "fun", t, None, t, "-x")
for t in CPLX:
    for op in ["+","-","*","/"]:
        add(f"{t} {op} {t}", "cbin", t, t, t, f"x {op} y")
    for op in ["==","!="]:
        add(f"{t} {op} {t}", "ccmp", t, t, "bool", f"x {op} y")
    add(f"-{t}", "cun", t, None, t, "-x")
    ft = "float32" if t == "complex64" else "float64"
    add(f"real({t})", "cpart", t, None, ft, "real(x)")
    add(f"imag({t})", "cpart", t, None, ft, "imag(x)")
    add(f"complex({ft},{ft})", "cmake", ft, ft, t, "complex(x, y)")
# conversions
for a in INTS + FLOATS:
    for b in INTS + FLOATS:
        kind = "conv_ii" if a in INTS and b in INTS else "conv_if" if a in INTS else "conv_fi" if b in INTS else "conv_ff"
        add(f"{b}({a})", kind, a, None, b, f"{b}(x)")
add("complex128(complex64)", "conv_cc", "complex64", None, "complex128", "complex128(x)")
add("complex64(complex128)", "conv_cc", "complex128", None, "complex64", "complex64(x)")
# constant operands: llgo lowers some operators differently when an operand is a constant
def consts_for(t):
    w = W[t]
    if SIGNED[t]:
        mn, mx = -(1 << (w-1)), (1 << (w-1)) - 1
        return [-1, 1, 2, -2, 3, 7, mn, mx, mn+1, mx-1, 1 << (w-2), -(1 << (w-2))]
    mx = (1 << w) - 1
    return [1, 2, 3, 7, mx, mx-1, 1 << (w-1), (1 << (w-1)) - 1, 10]
def lit(t, c):
    if c < 0 and c == -(1 << (W[t]-1)):
        return f"(-{(1 << (W[t]-1)) - 1} - 1)"
    return str(c)
for t in INTS:
    w = W[t]
    for c in consts_for(t):
        L = lit(t, c)
        for op in ["+","-","*","/","%","&","|","^","&^"]:
            add(f"{t} {op} const {c}", "cibin_r", t, None, t, f"x {op} {L}")
        for op in ["+","-","*","&","|","^","&^"]:
            add(f"const {c} {op} {t}", "cibin_l", t, None, t, f"{t}({L}) {op} x")
        for op in ["/","%"]:
            add(f"const {c} {op} {t}", "cibin_l", t, None, t, f"{t}({L}) {op} x")
        for op in ["==","<",">="]:
            add(f"{t} {op} const {c}", "cicmp", t, None, "bool", f"x {op} {L}")
    for s in [0, 1, 2, w-1, w, w+1, 31, 32, 33, 63, 64, 65, 127, 255, 256, 65535, 65536]:
        add(f"{t} << const {s}", "cshift_r", t, None, t, f"x << {s}")
        add(f"{t} >> const {s}", "cshift_r", t, None, t, f"x >> {s}")
    for c in consts_for(t)[:6]:
        for tc in ["uint8","int16","uint32","int64","uint"]:
            add(f"const {c} ({t}) << {tc}", "cshift_l", tc, None, t, f"{t}({lit(t,c)}) << x")
            add(f"const {c} ({t}) >> {tc}", "cshift_l", tc, None, t, f"{t}({lit(t,c)}) >> x")

o = []
o.append("// Code generated by tools/gen_evalnum.py; DO NOT EDIT.\n\npackage cases\n\nimport \"unsafe\"\n")
o.append("func f32(w uint64) float32 { u := uint32(w); return *(*float32)(unsafe.Pointer(&u)) }")
o.append("func f64(w uint64) float64 { return *(*float64)(unsafe.Pointer(&w)) }")
o.append("func u32(f float32) uint64 { return uint64(*(*uint32)(unsafe.Pointer(&f))) }")
o.append("func u64(f float64) uint64 { return *(*uint64)(unsafe.Pointer(&f)) }")
o.append("func b2u(b bool) uint64 {\n\tif b {\n\t\treturn 1\n\t}\n\treturn 0\n}\n")
for i, f in enumerate(funcs):
    if f["tb"]:
        o.append(f"//go:noinline\nfunc fn{i}(x {f['ta']}, y {f['tb']}) {f['tr']} {{ return {f['expr']} }}")
    else:
        o.append(f"//go:noinline\nfunc fn{i}(x {f['ta']}) {f['tr']} {{ return {f['expr']} }}")
o.append("\n// FuncInfo describes one function of the table.\ntype FuncInfo struct {\n\tName, Kind, A, B, R string\n}\n")
o.append("var Table = [...]FuncInfo{")
for f in funcs:
    o.append(f"\t{{{f['name']!r}, {f['kind']!r}, {f['ta']!r}, {(f['tb'] or '')!r}, {f['tr']!r}}},".replace("'", '"'))
o.append("}\n")
# dispatcher in chunks (one giant switch is slow to compile)
CH = 256
nch = (len(funcs) + CH - 1) // CH
o.append("// call evaluates function id on raw operand words; panicked reports a run-time panic.\nfunc call(id int, a0, a1, b0, b1 uint64) (r0, r1 uint64, panicked bool) {\n\tdefer func() {\n\t\tif recover() != nil {\n\t\t\tr0, r1, panicked = 0, 0, true\n\t\t}\n\t}()\n\tswitch id / %d {" % CH)
for c in range(nch):
    o.append(f"\tcase {c}:\n\t\tr0, r1 = call{c}(id, a0, a1, b0, b1)")
o.append("\t}\n\treturn\n}\n")
for c in range(nch):
    o.append(f"func call{c}(id int, a0, a1, b0, b1 uint64) (uint64, uint64) {{\n\tswitch id {{")
    for i in range(c*CH, min(len(funcs), (c+1)*CH)):
        f = funcs[i]
        args = dec(f["ta"], "a0", "a1")
        if f["tb"]:
            args += ", " + dec(f["tb"], "b0", "b1")
        o.append(f"\tcase {i}:\n\t\tv := fn{i}({args})\n\t\treturn {enc(f['tr'], 'v')}")
    o.append("\t}\n\treturn 0, 0\n}\n")
open(out, "w").write("\n".join(o))
print("evalnum:", len(funcs), "functions")
