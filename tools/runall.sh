#!/bin/bash
# usage: runall.sh <tier> <seed> [ids...]   runs the registered checks one after another; summary in /tmp/runall-<tier>-<seed>.txt
tier=${1:-quick}; seed=${2:-1}; shift 2
ids=${@:-C01 C02 C03 C04 C05 C06 C07 C08 C09 C10 C11 C12 C13 C14 C15 C16 C17 C18 C19 C20}
out=/tmp/runall-$tier-$seed.txt; : > $out
for id in $ids; do
  s=$(date +%s)
  VERIF_SEED=$seed /verif/check $id $tier > /tmp/runall-$id-$tier-$seed.log 2>&1; rc=$?
  e=$(date +%s)
  echo "$id rc=$rc wall=$((e-s))s known=$(grep -c ^KNOWN-FINDING /tmp/runall-$id-$tier-$seed.log) viol=$(grep -c ^VIOLATION /tmp/runall-$id-$tier-$seed.log) $(grep '^OK' /tmp/runall-$id-$tier-$seed.log | cut -c1-120)" >> $out
done
echo DONE >> $out
