#!/bin/bash
# usage: baseline.sh [repo]   runs the pinned baseline suite (hooks off) and reports stable_pass tests that no longer pass
REPO=${1:-/repo}
OUT=$(mktemp -d /tmp/baseline.XXXX)
for m in $(cat /w/out/gomods.txt); do MF=$(cd $REPO/$m && . /w/out/goenv.sh && gomodflag); (cd $REPO/$m && go test $MF -json -vet=off -count=1 -timeout 25m ./...) ; done > $OUT/run.json 2>$OUT/err.txt
python3 - "$OUT/run.json" <<'P'
import json,sys
passed,failed=set(),set()
for line in open(sys.argv[1],errors='replace'):
    line=line.strip()
    if not line.startswith('{'): continue
    try: ev=json.loads(line)
    except: continue
    a=ev.get('Action'); t=ev.get('Test'); p=ev.get('Package','')
    if t is None or a not in('pass','fail'): continue
    (passed if a=='pass' else failed).add(p+'::'+t)
passed-=failed
b=json.load(open('/root/.vp/BASELINE.json'))
miss=[t for t in b['stable_pass'] if t not in passed]
print(f"passed={len(passed)} failed={len(failed)} stable_pass={len(b['stable_pass'])} missing={len(miss)}")
for t in miss[:40]: print("  MISSING", t)
newfail=[t for t in failed if t not in b['always_fail']]
for t in newfail[:40]: print("  NEWFAIL", t)
P
rm -rf $OUT
