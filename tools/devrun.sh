#!/bin/bash
# usage: devrun.sh <harness pkg dir> <TestName> <checks> <seed> [extra go test flags]   (development aid: one shard, full log in /tmp/devrun.log)
. /verif/toolchain/env.sh
cd /verif/$1 || exit 2
export VERIF_LLGO=${VERIF_LLGO:-/verif/.build/llgo-dev} VERIF_SHIM=/verif/.build/shim VERIF_WORK=/tmp/devrun.work VERIF_FINDINGS=/verif/known_findings.json VERIF_PROPERTY=$5
rm -rf /tmp/devrun.work; mkdir -p /tmp/devrun.work
timeout 1500 go test . -run "^$2\$" -rapid.checks=$3 -rapid.seed=$4 -rapid.shrinktime=20s > /tmp/devrun.log 2>&1
echo "exit=$?"
grep -v "rapid\] draw" /tmp/devrun.log > /tmp/devrun.short.log
