#!/usr/bin/env python3
"""Regenerates /verif/MANIFEST.json from the table below (claimed checks) and properties.jsonl
(everything not claimed is listed under not_applicable with the reason given here)."""
import json, os
root = os.path.dirname(os.path.dirname(os.path.abspath(__file__)))
props = [json.loads(l) for l in open(os.path.join(root, "properties.jsonl"))]

claimed = {
 "C17": dict(
  technique="property-based testing (rapid): round-trip through a quoter written from the documented rules; differential against go/build/constraint; substitution oracle",
  text="Generated-input search (rapid, shrinking) against explicit oracles, injected into the real packages at check time: quote/split round trip for shellparse.Parse and SplitPkgConfigFlags (also through clang flag merging and ExpandEnvToArgs with a fake pkg-config), go/build/constraint as reference for CheckTags, substitution oracles for $VAR/$(cmd)/{key} templates and -X parsing. Exploration only: absence of a counterexample in 3e5 (quick) / 1e7 (thorough) generated cases.",
  note="Trusts go/build/constraint and the quoter written from the documented rules; single -tags flag per command line; pkg-config values without leading '-', trailing blank/backslash or '$'.",
  design="§3 C17"),
 "C18": dict(
  technique="property-based testing (rapid): differential against an independent resolver over the raw JSON; fault inputs (cycles, missing parents) observed in a helper process",
  text="Every shipped target file plus rapid-generated inheritance forests (diamonds, depth<=5, every Config field by reflection) are resolved by the real loader (fresh, warm, repeated, LoadAll, random order) and compared field by field with an independent fold over the raw JSON; ill-formed forests must yield an error, observed in a child process because unbounded recursion is a fatal crash. Exploration: the shipped files are covered completely, forests are sampled.",
  note="The oracle encodes the documented merge rule (non-empty overrides, lists append); explicit zero values are outside the domain; helper process uses a 32 MiB stack limit to make runaway recursion fail fast.",
  design="§3 C18"),
 "C20": dict(
  technique="property-based testing (rapid): generated hostile/well-formed archives, filesystem-snapshot confinement invariant + byte-for-byte fidelity oracle; concurrent requests against a local server",
  text="rapid-generated archives in tar.gz/tar.xz/zip with hostile names, links, duplicates and clashes are extracted by the real functions into root/dest; a before/after snapshot of the whole root decides confinement, escaping entries must produce an error, well-formed archives must be reproduced exactly, duplicates must not mix contents; 2-4 concurrent checkDownloadAndExtractLib calls against a local httptest server must all succeed and leave one complete copy without residue. Exploration only.",
  note="tar.xz goes through the system GNU tar; OS scheduling of the concurrent requests is not controlled (only staggering and server delays are drawn); a hostile concurrent filesystem is out of scope.",
  design="§3 C20"),
 "C16": dict(
  technique="property-based testing (rapid): differential against `go list -e -json` (and `go build` for directives go list drops) on generated package trees; differential testing of rapid-generated modules with embed variables compiled by llgo against the gc build (bytes, embed.FS behaviour)",
  text="rapid generates modules of packages with random directory trees and //go:embed lines; the real LoadDirectives/ResolvePatterns/ParsePatterns are compared with the reference toolchain's view of the same directory: pattern list, embedded file set, bytes, accept/reject. A compiled job builds generated modules (string, []byte and embed.FS variables over trees with empty, large and binary files) with the llgo under test and compares every variable's bytes and a full embed.FS walk (ReadDir, ReadFile, Read, Seek, ReadAt, Stat, missing names) with the gc build. Exploration only.",
  note="go list / go build of go1.24 are the reference; errors compared as accept/reject; '//go:embed<TAB>' is not generated because go/build and the gc compiler disagree about it.",
  design="§3 C16"),
 "C07": dict(
  technique="(a) property-based testing (rapid): differential of the descriptor-naming function against go/types.Identical over generated type pools with one-attribute near-miss mutants; (b) differential testing of rapid-generated multi-package programs (templates exercising run-time type identity and method tables) against gc",
  text="(a) rapid generates multi-package Go source (named/alias/generic/interface declarations, composite type expressions, copies in other packages, near-miss mutants, equal-named local types), type-checks it in-process and compares, for every pair, equality of abi.Builder.TypeName (the link name that makes two run-time descriptors one) with types.Identical, in both directions. (b) programs composed of the generator's type-identity templates (assertions and type switches on values boxed in another package, sealed interfaces with promoted unexported methods, generic instances with same-named local types and composite type arguments from two packages of the same name, embedding, bound methods) are built by gc and by the llgo under test (O0, O2, O2+nogc) and must print the same tokens. Exploration only. The compiled job includes units with 324-676 (interface, type) pairs (run-time itab table growth) and method values / expressions of same-named types.",
  note="go/types.Identical and gc are trusted as references; reflect-level identity is C15's subject; three genuine findings of (a) are listed in known_findings.json and excluded by key.",
  design="§3 C07"),
 "C02": dict(
  technique="differential testing with generated operands (rapid) and exhaustive 8-bit enumeration: llgo-compiled operator table vs the same functions executed natively",
  text="A fixed, import-free program with one function per operator/type/conversion/constant-operand combination (4086 functions) is compiled by the llgo under test at O0, O2, Oz and O2+nogc (thorough: also O1/O3/Os, O0+nogc) and driven over a pipe; the same package linked into the gc-compiled harness is the oracle. rapid draws boundary-biased operand tuples with shrinking; all 8-bit operand pairs (and 16-bit unary/conversion inputs) are enumerated exhaustively. Exploration for 32/64-bit operands, exhaustive for the 8-bit sub-space.",
  note="gc (go1.24/amd64) defines the expected values; out-of-range float->int conversions excluded; NaN equals NaN; complex64 * and / compared with a stated tolerance; LLVM 14 instead of the LLVM 19 llgo ships with.",
  design="§3 C02"),
 "C05": dict(
  technique="model-based stateful property testing (rapid state machine vs an explicit slice model) and differential testing of string operations against native execution",
  text="A fixed import-free interpreter (slice register machine over six element sizes; 16 string operations) is compiled by the llgo under test at O0/O2/Oz/O2+nogc; rapid generates operation histories with aliasing, growth-threshold lengths and self-overlap; after every step all registers are compared with an explicit model (itself validated against gc on every case); strings with invalid UTF-8 are compared byte for byte with gc. Exploration only.",
  note="Capacity growth amounts are observed, not asserted; panicking (out-of-range) operations belong to C03; LLVM 14.",
  design="§3 C05"),
 "C06": dict(
  technique="stateful differential testing (rapid histories vs gc's map executing the same interpreter) plus an invariant predicate over range-with-mutation transcripts",
  text="A fixed import-free interpreter with 14 key/value type pairs is compiled by the llgo under test; rapid generates point-operation histories (including bulk growth/churn up to 20000 keys, special float keys, mixed interface keys, unhashable keys) compared step by step with gc, and range loops with scripted mutations whose transcripts must satisfy the spec's iteration guarantees and leave the modelled final map. Exploration only.",
  note="gc's map is the reference for point operations; which of +0/-0 a map keeps as key is not compared; loops over 160-byte keys/values are kept short because of the listed stack-exhaustion finding.",
  design="§3 C06"),
 "C03": dict(
  technique="differential testing with generated operand tuples (rapid) around every bound: llgo-compiled operation table vs the same functions executed natively",
  text="A fixed import-free program with 386 operation functions (every indexable kind x form x index type, make, conversions, nil dereference in every syntactic position, maps, assertions, division, channels, side-effect ordering) is compiled by the llgo under test at O0/O2/Oz/O2+nogc; rapid draws tuples around the bounds (half in range), nil-ness flags and repeat counts; each execution is compared with native gc execution for panic/no panic, error class, trace points, call order, surviving state, results and runtime.Error-ness. Exploration only.",
  note="Panic texts compared by class; unspecified evaluation orders are not generated; make sizes small or absurd; three nil-dereference findings (no explicit nil checks) listed in known_findings.json. Divisors include locals that still hold their zero value (constant-folded by go/ssa).",
  design="§3 C03"),
 "C10": dict(
  technique="schedule exploration with a deterministic scheduler (rapid-drawn scripts and scheduling choices) over the lifted channel source, with a history monitor and a reference-model quiescence check; differential testing of rapid-generated channel programs compiled by llgo (run repeatedly on hardware threads, schedule-independent summaries) against the gc build",
  text="z_chan.go from the working tree runs against stand-in pthread mutex/cond primitives whose every operation is a scheduling point; rapid draws thread scripts (send/recv/close/len/select/TrySelect over 1-3 channels of capacity 0-2) and all scheduling decisions incl. which waiter a signal wakes and spurious wake-ups; a monitor checks token conservation, FIFO, buffer bounds, close semantics, no pthread misuse, and that at quiescence no blocked operation is enabled in the Go channel model. Exploration: sampled schedules, with shrinking to minimal script+schedule. A compiled job builds rapid-generated channel programs (16 templates: FIFO, exactly-once, close, select forms, capacity bound, publication) with the llgo under test at several optimisation levels, runs each binary repeatedly on hardware threads and compares the schedule-independent summaries with the gc build; a run that stays alive without consuming CPU is reported as a deadlock.",
  note="The schedule job decides the algorithm in z_chan.go as written; the compiled job samples real interleavings without controlling them; schedules sampled not enumerated; one protocol-level finding (select on unbuffered channels) is listed and keyed separately.",
  design="§3 C10, Appendix A/B"),
 "C11": dict(
  technique="(a) schedule exploration with a deterministic scheduler over the lifted semaphore / notify-list source, with counting invariants and a quiescence (lost wake-up) check; (b) rapid-generated litmus programs compiled by the llgo under test and run on hardware threads, observed outcomes checked against the exhaustively enumerated set of sequentially consistent interleavings",
  text="(a) sema_llgo.go from the working tree runs against stand-in mutex/cond/once/atomics that are scheduling points; rapid draws acquire/release and Cond-shaped ticket/wait/notify scripts for 2-4 threads plus all scheduling decisions; invariants: acquires bounded by initial + releases, Wait returns only when a notification can cover its ticket, nobody stays blocked at quiescence while its wake-up condition holds. (b) litmus programs of 2-4 goroutines x 1-3 sync/atomic operations (Store/Load/Add/Swap/CompareAndSwap, function API, typed atomics and atomic.Pointer) on 2-3 variables, from ten classic shapes with substitutions or random, 60000 rounds each (thorough 400000) at O0 and O2; every observed outcome must be producible by some interleaving. Exploration. Lost wake-ups of both primitives are decided from the history alone (tickets the completed Signal/Broadcast calls must have released; permits outstanding), not from the implementation's counters.",
  note="Fairness/liveness only in safety form; (b) is one-sided (a forbidden outcome proves a violation, its absence proves nothing) and is observed on x86-64 only; compiled Mutex/RWMutex/WaitGroup/Once/Cond stress programs are not part of these jobs.",
  design="§3 C11, Appendix A"),
 "C04": dict(
  technique="differential testing of rapid-generated programs (defer/panic/recover/Goexit statement language) against gc, compared per unit",
  text="rapid generates programs of 8-30 independent units mixing unconditional, conditional, loop and range-over-func defers with argument snapshotting, named-result updates, recoverers, re-panics, nested deferred calls, panics, run-time faults, early returns and Goexit, on the main goroutine and in goroutines; every program is built by gc and by the llgo under test (O0 + O2, or O0 + Oz with runtime imported) and traces are compared unit by unit. Exploration only.",
  note="gc output is the reference; recover from a helper frame is confined to dedicated units (listed finding); recoverers registered inside range-over-func bodies are not generated (unsettled corner policed by gc's own run-time check).",
  design="§3 C04"),
 "C12": dict(
  technique="differential testing of rapid-generated multi-package modules (initialisation-order grammar) against gc",
  text="rapid generates modules of 2-8 packages in an import DAG with multi-file packages, dependency-reordered package-level initialisers (direct, through functions, across packages, in closures), several init functions per file, blank imports and packages reachable along several paths; a quarter also initialise through overlaid std packages. The trace of the llgo-built program (O0, O2; thorough adds Oz, O2+nogc) must equal gc's. Exploration only.",
  note="gc defines the order; build mode exe only; the relative order of packages that do not depend on one another is a listed finding and is compared per package in that case.",
  design="§3 C12"),
 "C08": dict(
  technique="property-based testing (rapid): three-way agreement of layout computations over generated go/types types on six targets; differential against the C compiler (clang sizeof/_Alignof/offsetof per target) for generated C-compatible structs",
  text="rapid builds types from a recursive grammar and, for linux/amd64, arm64, riscv64, 386, arm and wasip1/wasm, compares the numbers that fold unsafe.Sizeof/Alignof/Offsetof, the LLVM data layout generated code uses, and what the descriptor builder records. A third job generates C-compatible struct shapes (all integer widths, float/double, _Bool, pointers, arrays, nested structs) as a Go type and a C declaration and compares all three computations with the sizeof/_Alignof/offsetof constants clang emits for the same target (host x86-64 and, through -target, the other five). Exploration only; in-process (no code of the 32-bit targets is executed).",
  note="Three classes of disagreement are genuine findings listed in known_findings.json (64-bit scalars on 32-bit targets, trailing zero-size fields, wasm nested structs) and are keyed separately; the C comparison skips (and counts) the shapes on which the three computations already disagree among themselves (64-bit scalars on 32-bit targets, nested structs on wasm).",
  design="§3 C08"),
 "C01": dict(
  technique="differential testing of rapid-generated multi-package programs (template grammar over the core language) against gc, compared per unit",
  text="rapid composes import-free 5-package modules from 10-24 units drawn from 16 templates of the core language with random constants, types and package placement; each is built by gc and by the llgo under test at O0, O2 and O2+nogc (thorough: also Oz, O0+nogc, O1, O3) and compared unit by unit, plus process termination (normal, uncaught panic, run-time fault). Exploration only. Templates added in the third round: several local copies of one by-value parameter, range over strings with truncated UTF-8 at the end, nested closures in same-named methods, many interface/type pairs.",
  note="A template grammar, not a free expression grammar: breadth comes from combining templates, constants, types and package splits; gc defines expected output; LLVM 14.",
  design="§3 C01"),
 "C14": dict(
  technique="differential testing of rapid-generated naming-hazard programs against gc (every entity returns its own token)",
  text="Programs built only from the naming-hazard templates of the generator (two packages with the same name and identical declarations, nested closures in methods, closures in initialisers/init, generics instantiated with same-named local types from several packages, bound methods, dotted paths) are built by gc and llgo (O0, O2, O2+nogc) and must print identical tokens. Exploration only. Hazard templates include method values and method expressions of same-named types from two packages used in one package, and range-over-func bodies / func literals / deferred closures nested in same-named methods of two receiver types.",
  note="End-to-end only: a merged or mis-bound symbol shows as a wrong token or link failure; the naming functions are not checked in-process and mergeable definitions are not diffed; no linkname/export directives.",
  design="§3 C14"),
 "C09": dict(
  technique="property-based differential testing (rapid): generated C/Go function pairs across the C ABI boundary, each side checksumming what it received against harness-computed expectations",
  text="rapid generates signatures of 1-10 parameters mixing all scalar kinds with by-value structs (1-40 bytes, nested, mixed int/float eightbytes, arrays) for Go-calls-C functions and C-calls-Go callbacks; generated C (compiled by clang) and Go (compiled by the llgo under test at O0 and O2) each fold every received scalar into an FNV checksum; the checksums, struct returns and callback results must equal the values the harness computes from the drawn argument values. Exploration only; host x86-64.",
  note="x86-64 only (the host); the registers-exhausted aggregate class is a listed finding and is generated in dedicated units; strings/slices/variadics/closures with context are not generated.",
  design="§3 C09"),
 "C15": dict(
  technique="differential testing of rapid-generated programs (type-pool grammar with values; reflect walker and fmt verb matrix) against gc, compared line by line per type",
  text="rapid generates 8-22 named types in two packages (named basics, structs with tags / unexported / embedded value and pointer fields, generic structs and instances, named interfaces, named composites, a recursive struct, 0-3 methods on value and pointer receivers incl. String/Error/GoString) plus 4-10 unnamed composites, 1-3 values each; the program walks every type with reflect (kind, name, string, PkgPath, fields, tags, index paths, VisibleFields, method tables by index and by constant and computed name, implements/assignable/convertible, composite constructors), exercises the values (getters, Set/Convert/Append/MakeMap/MakeSlice/MakeChan round trips, every method through Value.Method and through a pointer, DeepEqual) and formats them with ~40 fmt verbs/flags, in three modes that vary which reflect entry points the program mentions (method-table pruning). Output under llgo (O0) must equal gc's. Exploration only. Every program also carries DeepEqual probes over generated pointer graphs (cycles, shared nodes, interior pointers to first fields and array elements, pointers inside maps, slices and interfaces; variants differing in one place).",
  note="gc 1.24 is the reference; O0 only; excluded by construction: sizes/offsets of types containing func values, anything printing an address, byte/rune type arguments (C07 finding), structs ending in a zero-size field (C08 finding); four listed findings are mapped line by line (main package path, named func types, func Set round trip, nil pointer receivers not dereferenced).",
  design="§3 C15, §7"),
 "C13": dict(
  technique="stateful property-based testing (rapid): generated edit/rebuild histories over generated multi-package modules against a model of the inputs, plus pairwise reproducibility of package archives",
  text="rapid generates a module main -> p1 -> ... (2-4 packages; per package a constant folded into importers at compile time, optionally an embedded file, a C file named by LLGoFiles, build-tag-selected files, init-carrying extra files) and a history of 4-10 steps (edit a constant of main / a dependency / the leaf, edit an embedded file with the same or another length, edit the C file, toggle the build tag, add / remove a source file, revert, rewrite unchanged, -O0/-O2, no-op rebuild, drop the module's cache entries, and a dedicated same-size-same-mtime edit). After every step the llgo under test rebuilds with the same cache directory; the program must print what the model computes from the current inputs. At the end two builds from an empty module cache must have byte-identical archive members. Exploration only. Modules may import declaration-only binding packages (LLGoPackage = decl) that forward constants of further packages, and package main may build types with reflect; the executables of two builds from an empty module cache must be identical as well (the entry module is never cached).",
  note="Drives the llgo command line; -X overrides (not reachable from the CLI) and behaviour-affecting environment variables are not generated; the final executable is not compared (only package archives); same-size-same-mtime edits are a listed finding.",
  design="§3 C13, §7"),
 "C19": dict(
  technique="differential testing of rapid-generated Go programs using the Python bindings against CPython running a generated script of the same computation, compared line by line per unit",
  text="rapid generates programs of 12-30 units over three Go packages using github.com/goplus/lib/py: values (64-bit signed/unsigned integers incl. the range limits, floats by bit pattern incl. NaN/inf/-0/denormals, valid UTF-8 strings incl. multi-byte and NUL, byte strings, nested lists and tuples) are converted to Python objects and read back; bound builtins/math functions are called with order-sensitive positional arguments (divmod, round, format, max/min/sum, sorted, fmod, atan2, copysign, ldexp, gcd, comb, isqrt); callables fetched by name are invoked through CallNoArgs / CallOneArg / CallObject / CallFunctionObjArgs / Call with 0-6 arguments; module attributes are looked up by name; package-level initialisers in two other Go packages use Python modules before main. The same computation runs as a generated script under /usr/bin/python3 (the CPython 3.11 the program links) and all lines (printed through ascii()) must agree. Exploration only. Lists and tuples also take native Go integers of every width and sign as run-time operands, and one unit class binds a module and its dotted submodule (os, os.path) in the same Go package.",
  note="O0, linux/amd64, libpython3.11; 'imported once' is observed only through use from several packages' initialisers (import counts are not instrumented); two defective bindings of the third-party module goplus/lib v0.3.1 are not used ((*Object).CStrAndLen, math.Hypot's typed variadic) and its missing bytes constructor is bound directly in the generated program.",
  design="§3 C19, §7"),
}
not_yet = "check not built yet in this session (see DESIGN.md §3 for the planned generated-input check)"

checks = []
na = []
for p in props:
    i = p["id"]
    if i in claimed:
        c = claimed[i]
        checks.append({
            "property_id": i,
            "quick_cmd": f"./check {i} quick",
            "thorough_cmd": f"./check {i} thorough",
            "evidence_file": f"/verif/evidence/{i}.json",
            "replay_cmd_template": f"./check {i} quick --replay {{path}}",
            "engine": "vcheck",
            "level_claimed": {"category": c.get("category", "exploration"), "text": c["text"], "design_ref": c["design"]},
            "level_note": c["note"],
            "technique": c["technique"],
        })
    else:
        na.append({"property_id": i, "reason": not_yet})

m = {
 "version": 1,
 "setup_cmd": "./setup.sh",
 "hooks": {
  "guard": "verif",
  "enable": "every build of /repo made by the checks passes -tags verif (plus llvm14,dev for the compiler); the only file the tag guards is the overlay file /verif/overlay/ssa/zz_verif_opaque_llvm14.go supplied through go build -overlay; property tests are injected with go test -overlay/-modfile, so /repo carries no hook code",
  "baseline_off_cmd": "for m in $(cat /w/out/gomods.txt); do MF=$(cd /repo/$m && . /w/out/goenv.sh && gomodflag); (cd /repo/$m && go test $MF -json -vet=off -count=1 -timeout 25m ./...); done",
  "source_commits": [],
  "add_only": True,
 },
 "engines": [
  {"name": "vcheck", "path": "/verif/harness/cmd/vcheck", "serves_properties": sorted(claimed),
   "kind_free_text": "driver: rebuilds test binaries / llgo from /repo's working tree, runs rapid property tests (pgregory.net/rapid v1.3.0) sharded over cores, merges statistics into evidence, maps outcomes to exit codes"},
 ],
 "checks": checks,
 "not_applicable": na,
 "notes": "All checks are property-based tests / fuzzing (rapid; native go fuzzing in thorough tiers). Known genuine defects are listed in /verif/known_findings.json; see DESIGN.md.",
}
json.dump(m, open(os.path.join(root, "MANIFEST.json"), "w"), indent=1)
print("claimed:", sorted(claimed), "not_applicable:", len(na))
