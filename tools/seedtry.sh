#!/bin/bash
# usage: seedtry.sh <srcdir with patch.diff+demo> <pkgdir> <tags> <run-regexp> <ID> [tier]
# Confirms a seeded change (demo fails with patch / passes without; package tests unchanged) in a scratch
# worktree, then runs ./check <ID> against it. Prints a one-line verdict per step. Removes the worktree.
src=$1; pkg=$2; tags=$3; run=$4; id=$5; tier=${6:-quick}
name=seed-$(basename $(dirname $src))-$(basename $src)
d=/tmp/vmut/$name; rm -rf $d; mkdir -p /tmp/vmut
git -C /repo worktree add -q --detach $d HEAD || exit 3
. /verif/toolchain/env.sh
T=""; [ -n "$tags" ] && T="-tags $tags"
cd $d
pkgtests() { go test -vet=off -count=1 $T -json ./$pkg/ 2>/dev/null | python3 -c "
import sys,json
p=set();f=set()
for l in sys.stdin:
    try: e=json.loads(l)
    except: continue
    if e.get('Test') and e.get('Action') in('pass','fail'): (p if e['Action']=='pass' else f).add(e['Test'])
print(len(p-f), sorted(f))"; }
base=$(pkgtests)
if [ -d $src/demo ]; then cp -r $src/demo/* $d/$pkg/; else cp $src/demo_test.go $d/$pkg/zz_seed_demo_test.go; fi
go test -vet=off -count=1 $T -run "$run" ./$pkg/ >/tmp/vmut/$name.demo0.log 2>&1; r0=$?
git apply $src/patch.diff || { echo "SEED $name: patch does not apply"; cd /; git -C /repo worktree remove --force $d; exit 3; }
go test -vet=off -count=1 $T -run "$run" ./$pkg/ >/tmp/vmut/$name.demo1.log 2>&1; r1=$?
rm -f $d/$pkg/zz_seed_demo_test.go
with=$(pkgtests)
echo "SEED $name: demo without patch rc=$r0 (want 0), with patch rc=$r1 (want !=0); pkg tests base=[$base] patched=[$with]"
cd /verif
VERIF_EVIDENCE_DIR=/tmp/vmut/$name.ev VERIF_REPLAY_ROOT=/tmp/vmut/$name.replays VERIF_REPO=$d ./check $id $tier > /tmp/vmut/$name.check.log 2>&1; rc=$?
echo "SEED $name: check $id $tier rc=$rc $(grep -c ^VIOLATION /tmp/vmut/$name.check.log) violation line(s)"
git -C /repo worktree remove --force $d; git -C /repo worktree prune
