#!/bin/bash
# usage: mutrun.sh <name> <ID> <tier> <<< "python patch program operating on cwd = scratch worktree"
# Creates a scratch worktree of /repo under /tmp/vmut, applies the edit given on stdin (a shell script),
# runs ./check against it through VERIF_REPO, prints the verdict, removes the worktree.
name=$1; id=$2; tier=${3:-quick}
d=/tmp/vmut/$name
rm -rf $d; mkdir -p /tmp/vmut
git -C /repo worktree add -q --detach $d HEAD || exit 3
( cd $d && bash -e /dev/stdin ) || { echo "MUT $name: edit failed"; git -C /repo worktree remove --force $d; exit 3; }
( cd $d && git diff --stat | tail -1 )
VERIF_REPO=$d /verif/check $id $tier > /tmp/vmut/$name.log 2>&1; rc=$?
echo "MUT $name $id rc=$rc $(grep -c ^VIOLATION /tmp/vmut/$name.log) violation line(s)"
git -C /repo worktree remove --force $d
git -C /repo worktree prune
