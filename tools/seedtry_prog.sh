#!/bin/bash
# usage: seedtry_prog.sh <srcdir with patch.diff, demo/, expected.txt> <ID> [tier]
# Confirms a seeded compiler/runtime change with a program demo: llgo built from the clean worktree
# reproduces expected.txt, llgo built from the patched worktree does not; the pinned baseline suite
# still passes with the patch; then runs ./check <ID> against the patched worktree.
src=$1; id=$2; tier=${3:-quick}
ORIGPATH=$PATH
name=seed-$(basename $(dirname $src))-$(basename $src)
d=/tmp/vmut/$name; w=/tmp/vmut/$name.w; rm -rf $d $w; mkdir -p /tmp/vmut $w/tmp
git -C /repo worktree add -q --detach $d HEAD || exit 3
. /verif/toolchain/env.sh
export LLGO_LIB_PYTHON=/usr/lib/x86_64-linux-gnu/python3.11
rundemo() { # $1 = tag
  /verif/toolchain/buildllgo.sh $d $w/llgo-$1 >/dev/null 2>$w/build-$1.log || { echo "llgo build failed ($1)"; return; }
  rm -rf $w/demo; cp -r $src/demo $w/demo
  (cd $w/demo && LLGO_ROOT=$d XDG_CACHE_HOME=$w/cache-$1 TMPDIR=$w/tmp $w/llgo-$1 build -O0 -o $w/prog-$1 . >$w/demo-build-$1.log 2>&1)
  (cd $w/demo && timeout 60 $w/prog-$1 > $w/out-$1.txt 2>&1; echo "exit=$?" >> $w/out-$1.txt)
}
VERIF_REPO=$d rundemo clean
(cd $d && git apply $src/patch.diff) || { echo "SEED $name: patch does not apply"; git -C /repo worktree remove --force $d; exit 3; }
VERIF_REPO=$d rundemo patched
exp=$src/expected.txt; [ -f $exp ] || exp=$src/demo/expected.txt
c0=$(grep -v '^exit=' $w/out-clean.txt | diff -q - $exp >/dev/null 2>&1 && echo same || echo DIFFERENT)
c1=$(grep -v '^exit=' $w/out-patched.txt | diff -q - $exp >/dev/null 2>&1 && echo same || echo DIFFERENT)
echo "SEED $name: demo vs expected: clean=$c0 (want same) patched=$c1 (want DIFFERENT) [$(tail -1 $w/out-clean.txt) / $(tail -1 $w/out-patched.txt)]"
echo "SEED $name: baseline with patch: $(env -i HOME=$HOME PATH=$ORIGPATH /verif/tools/baseline.sh $d 2>&1 | head -8 | tr "\n" " ")"
cd /verif
VERIF_EVIDENCE_DIR=/tmp/vmut/$name.ev VERIF_REPLAY_ROOT=/tmp/vmut/$name.replays VERIF_REPO=$d ./check $id $tier > /tmp/vmut/$name.check.log 2>&1; rc=$?
echo "SEED $name: check $id $tier rc=$rc $(grep -c ^VIOLATION /tmp/vmut/$name.check.log) violation line(s)"
git -C /repo worktree remove --force $d; git -C /repo worktree prune; rm -rf $w
