#!/usr/bin/env python3
"""Generates /verif/programs/bounds/cases/ops_gen.go: one function per (operand kind, syntactic form,
index type) of every operation that Go requires to panic when out of range, plus nil dereferences in every
syntactic position, nil-map writes, failed assertions, division by zero, oversize make, slice->array
conversions and channel misuse. Each function is `trace(1); <operation>; trace(2)`."""
import os
out = os.path.join(os.path.dirname(os.path.dirname(os.path.abspath(__file__))), "programs", "bounds", "cases", "ops_gen.go")
ITYPES = ["int","int8","int16","int32","int64","uint8","uint16","uint32","uint64","uint","uintptr"]
STYPES = ["int","uint8","int64","uint64","int32"]
ops = []  # (name, family, body lines)
def add(name, family, body):
    ops.append((name, family, body))
def cv(t, field):
    return f"{t}(e.{field})"
# A: index expressions
for t in ITYPES:
    i = cv(t, "idx")
    add(f"arr[i {t}] read", "index", f"res = uint64(e.arr[{i}])")
    add(f"arr[i {t}] write", "index", f"e.arr[{i}] = 77; res = 1")
    add(f"&arr[i {t}]", "index", f"p := &e.arr[{i}]; *p = 78; res = 1")
    add(f"parr[i {t}] read", "index_parr", f"res = uint64(e.parr[{i}])")
    add(f"parr[i {t}] write", "index_parr", f"e.parr[{i}] = 77; res = 1")
    add(f"&parr[i {t}]", "index_parr", f"p := &e.parr[{i}]; res = uint64(*p)")
    add(f"s[i {t}] read", "index", f"res = uint64(e.s[{i}])")
    add(f"s[i {t}] write", "index", f"e.s[{i}] = 77; res = 1")
    add(f"&s[i {t}]", "index", f"p := &e.s[{i}]; *p = 78; res = 1")
    add(f"str[i {t}]", "index", f"res = uint64(e.str[{i}])")
    add(f"sz[i {t}] read (zero-size elems)", "index", f"_ = e.sz[{i}]; res = 1")
    add(f"s2[i {t}][j] read (nested)", "index", f"res = uint64(e.s2[{i}][{cv(t,'lo')}])")
# arrays whose length sits at the limit of a narrow index type (bounds-check elimination by index type range)
for (n, t) in [(255, "uint8"), (256, "uint8"), (254, "uint8"), (65535, "uint16"), (65536, "uint16"), (127, "int8"), (128, "int8"), (128, "uint8")]:
    add(f"a{n}[i {t}] read", "index_limit", f"res = uint64(e.a{n}[{cv(t,'idx')}])")
    add(f"a{n}[i {t}] write", "index_limit", f"e.a{n}[{cv(t,'idx')}] = 3; res = uint64(e.a{n}[0])")
    add(f"pa{n}[i {t}] read", "index_limit", f"res = uint64(e.pa{n}()[{cv(t,'idx')}])")
    add(f"a{n}[l:h {t}]", "index_limit", f"r := e.a{n}[{cv(t,'lo')}:{cv(t,'hi')}]; res = uint64(len(r))")
# B: slice expressions
for t in STYPES:
    l, h, m = cv(t,"lo"), cv(t,"hi"), cv(t,"max")
    for (x, fam) in [("e.s","slice"), ("e.parr","slice_parr"), ("e.str","slice_str"), ("e.arrp()","slice")]:
        nm = x.replace("e.","")
        def R(expr):
            if x == "e.str":
                return f"r := {expr}; res = uint64(len(r))"
            return f"r := {expr}; res = uint64(len(r))<<32 | uint64(cap(r))"
        add(f"{nm}[l:h] {t}", fam, R(f"{x}[{l}:{h}]"))
        add(f"{nm}[l:] {t}", fam, R(f"{x}[{l}:]"))
        add(f"{nm}[:h] {t}", fam, R(f"{x}[:{h}]"))
        if x != "e.str":
            add(f"{nm}[l:h:m] {t}", fam, R(f"{x}[{l}:{h}:{m}]"))
            add(f"{nm}[:h:m] {t}", fam, R(f"{x}[:{h}:{m}]"))
    add(f"parr[:] {t}", "slice_parr", "r := e.parr[:]; res = uint64(len(r))")
# constant bounds (checkIndex / checkRange folding of provably safe or unsafe cases)
for c in [0, 1, 7]:
    add(f"s[const {c}]", "index", f"res = uint64(e.s[{c}])")
    add(f"parr[const {c}]", "index_parr", f"res = uint64(e.parr[{c}])")
    add(f"str[const {c}]", "index", f"res = uint64(e.str[{c}])")
    add(f"s[const {c}:]", "slice", f"r := e.s[{c}:]; res = uint64(len(r))")
    add(f"s[:const {c}]", "slice", f"r := e.s[:{c}]; res = uint64(len(r))")
    add(f"s[l:const {c}]", "slice", f"r := e.s[int(e.lo):{c}]; res = uint64(len(r))")
    add(f"str[const {c}:h]", "slice_str", f"r := e.str[{c}:int(e.hi)]; res = uint64(len(r))")
    add(f"arr[i&const {c}] (provably in range)", "index", f"res = uint64(e.arr[e.idx&{c}])")
# C: make
for (T, tn) in [("struct{}","0"),("byte","1"),("int64","8"),("[4096]byte","4096")]:
    for t in ["int","int64","uint64","int8","uint32"]:
        add(f"make([]{tn}B, n {t})", "make", f"r := make([]{T}, {cv(t,'lo')}); res = uint64(len(r))")
        add(f"make([]{tn}B, n, c {t})", "make", f"r := make([]{T}, {cv(t,'lo')}, {cv(t,'hi')}); res = uint64(len(r))<<32 | uint64(cap(r))")
for t in ["int","int64","uint64","int8"]:
    add(f"make(map, n {t})", "make", f"r := make(map[int]int, {cv(t,'lo')}); r[1] = 1; res = uint64(len(r))")
    add(f"make(chan, n {t})", "make", f"r := make(chan int, {cv(t,'lo')}); res = uint64(cap(r))")
# D: slice -> array conversions
add("[4]int64(s)", "slice2array", "r := [4]int64(e.s); res = uint64(r[3])")
add("(*[4]int64)(s)", "slice2array", "r := (*[4]int64)(e.s); res = uint64(r[3])")
add("[0]int64(s)", "slice2array", "r := [0]int64(e.s); res = uint64(len(r))")
add("(*[0]int64)(s) keeps nil-ness", "slice2array", "r := (*[0]int64)(e.s); if r == nil { res = 2 } else { res = 1 }")
# E: nil dereference in every syntactic position (p* are nil or valid according to the request)
OFFS = [("0","P0"),("8","P8"),("4095","P4095"),("4096","P4096"),("65536","P64K"),("1048568","P1Mm8"),("1048576","P1M"),("4198400","P4M"),("8388608","P8M")]
for (off, T) in OFFS:
    add(f"v = p.f (offset {off})", "nilderef", f"res = uint64(e.p{T}.f)")
    add(f"p.f = v (offset {off})", "nilderef", f"e.p{T}.f = 5; res = 1")
    add(f"&p.f (offset {off})", "nilderef_addr", f"q := &e.p{T}.f; if q != nil {{ res = 1 }}")
    add(f"_ = p.f (offset {off})", "nilderef_unused", f"_ = e.p{T}.f; res = 1")
add("v = *p (int64)", "nilderef", "res = uint64(*e.pi)")
add("*p = v (int64)", "nilderef", "*e.pi = 9; res = 1")
add("_ = *p (int64, value unused)", "nilderef_unused", "_ = *e.pi; res = 1")
add("v = *p (4 KiB struct copy)", "nilderef", "v := *e.pP4095; res = uint64(v.f)")
add("_ = *p (4 KiB struct, unused)", "nilderef_unused", "_ = *e.pP4095; res = 1")
# (a 1 MiB struct copy is not generated: llgo/LLVM needs minutes to compile one first-class aggregate load of that size)
add("p.M() value receiver through pointer", "nilderef", "res = uint64(e.pP8.Get())")
add("p.PM() pointer receiver, no deref", "nilderef_none", "res = uint64(e.pP8.IsNil())")
add("p[i] on *[8]int64", "index_parr", "res = uint64(e.parr[int(e.idx)])")
add("len(p) on *[8]int64 (no deref needed)", "nilderef_none", "res = uint64(len(e.parr))")
add("for range p on *[8]int64 (index only)", "nilderef_none", "n := 0; for range e.parr { n++ }; res = uint64(n)")
add("for _, v := range p on *[8]int64", "nilderef", "var sum int64; for _, v := range e.parr { sum += v }; res = uint64(sum)")
add("iface method on nil pointer inside interface (pointer receiver)", "nilderef_none", "var g getter = e.pP8; res = uint64(g.IsNil())")
add("nil interface method call", "nilderef", "res = uint64(e.gi.IsNil())")
add("nil func call", "nilderef", "res = uint64(e.fn())")
# F: maps, assertions, division, channels
add("nil map write", "nilmap", "e.m[1] = 2; res = 1")
add("nil map read", "nilmap_ok", "res = uint64(e.m[1]) + 10")
add("nil map delete", "nilmap_ok", "delete(e.m, 1); res = 1")
add("nil map len/range", "nilmap_ok", "for range e.m { res++ }; res += uint64(len(e.m))")
add("x.(int) on dyn", "assert", "res = uint64(e.x.(int))")
add("x.(int) comma-ok", "assert_ok", "v, ok := e.x.(int); if ok { res = uint64(v) + 100 }")
add("x.(getter) on dyn", "assert", "res = uint64(e.x.(getter).IsNil())")
add("x.(getter) comma-ok", "assert_ok", "v, ok := e.x.(getter); if ok { res = uint64(v.IsNil()) + 100 }")
add("x.(string)", "assert", "res = uint64(len(e.x.(string)))")
add("x.(*P8)", "assert", "res = uint64(e.x.(*P8).IsNil())")
add("g.(any) from a (possibly nil) non-empty interface", "assert", "v := e.gi.(any); if v != nil { res = 1 }")
add("x.(emptyNamed) from a (possibly nil) any", "assert", "v := e.x.(emptyNamed); if v != nil { res = 1 }")
add("err.(any) from a (possibly nil) error", "assert", "v := e.err.(any); if v != nil { res = 1 }")
add("err.(any) comma-ok", "assert_ok", "v, ok := e.err.(any); if ok && v != nil { res = 1 }")
add("g.(getter) same static type, nil", "assert", "v := e.gi.(getter); res = uint64(v.IsNil())")
add("g.(other interface) from non-empty iface", "assert", "res = uint64(e.gi.(interface{ Get() int64 }).Get())")
for t in ["int","int8","int16","int32","int64","uint8","uint32","uint64"]:
    add(f"{t} / y", "divide", f"res = uint64({cv(t,'lo')} / {cv(t,'hi')})")
    add(f"{t} % y", "divide", f"res = uint64({cv(t,'lo')} % {cv(t,'hi')})")
# divisors that are locals still holding their zero value (go/ssa turns them into the constant 0)
for t in ["int","int8","int16","int32","int64","uint8","uint32","uint64"]:
    add(f"{t} / zero-valued local", "divide", f"var z {t}; res = uint64({cv(t,'lo')} / z)")
    add(f"{t} % zero-initialised local", "divide", f"z := {t}(0); res = uint64({cv(t,'lo')} % z)")
    add(f"const {t} / zero-valued local", "divide", f"var z {t}; res = uint64({t}(7) / z)")
    add(f"{t} / local that is zero on one path", "divide", f"var z {t}; if {cv(t,'hi')} > 0 {{ z = 3 }}; res = uint64({cv(t,'lo')} / z)")
add("send on open or closed chan (a nil chan would block: skipped)", "chan", "if e.ch != nil { e.ch <- 1 }; res = 1")
add("close chan", "chan", "close(e.ch); res = 1")
add("recv from closed chan (non-blocking form)", "chan_ok", "select { case v, ok := <-e.ch: if !ok { res = uint64(v) + 50 }; default: res = 9 }")
# G: ordering of side effects around the faulting operation
add("s[f()] = g(): both operands evaluated, then the index panics", "order", "e.s[e.f(int(e.idx))] = e.g(5); res = 1")
add("x, s[i] = h(), v: earlier side effects happen, later ones do not", "order", "e.side, e.s[int(e.idx)] = e.g(7), 4; e.trace(3); res = 1")
add("defer inside op runs after the fault", "order", "defer e.trace(4); res = uint64(e.s[int(e.idx)])")

o = ["// Code generated by tools/gen_bounds.py; DO NOT EDIT.\n\npackage cases\n"]
for (T_off, T) in OFFS:
    pad = f"pad [{T_off}]byte; " if T_off != "0" else ""
    o.append(f"type {T} struct {{ {pad}f int64 }}")
o.append("\nfunc (p P8) Get() int64 { return p.f }\nfunc (p *P8) IsNil() int64 {\n\tif p == nil {\n\t\treturn 1\n\t}\n\treturn 0\n}\n")
o.append("type emptyNamed interface{}\n")
o.append("type getter interface{ IsNil() int64 }\n\n//go:noinline\nfunc two(a, b int64) int64 { return a + b }\n")
for i, (name, fam, body) in enumerate(ops):
    lines = "\n\t".join(body.split("; ")) if False else body
    o.append(f"//go:noinline\nfunc op{i}(e *env) (res uint64) {{\n\te.trace(1)\n\t{lines}\n\te.trace(2)\n\treturn\n}}\n")
o.append("type OpInfo struct{ Name, Family string }\n\nvar Ops = [...]OpInfo{")
for (name, fam, body) in ops:
    o.append("\t{%s, %s}," % ('"'+name.replace('"','\\"')+'"', '"'+fam+'"'))
o.append("}\n\nvar opFuncs = [...]func(*env) uint64{")
for i in range(len(ops)):
    o.append(f"\top{i},")
o.append("}\n")
open(out, "w").write("\n".join(o))
print("bounds:", len(ops), "operations")
