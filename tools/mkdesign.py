#!/usr/bin/env python3
"""Regenerates the tables between the GENERATED markers of DESIGN.md from known_findings.json,
seeded/*/meta.json and MANIFEST.json, so that the prose and the files cannot drift apart."""
import json, os, re, glob

root = os.path.dirname(os.path.dirname(os.path.abspath(__file__)))
kf = json.load(open(os.path.join(root, "known_findings.json")))
man = json.load(open(os.path.join(root, "MANIFEST.json")))


def cell(s, n=None):
    s = " ".join(str(s).split()).replace("|", "\\|")
    if n and len(s) > n:
        s = s[: n - 1] + "…"
    return s


out = []
out.append("#### Defects repaired in /repo (`fix:` commits)\n")
out.append("| property | commit | key | what failed | witness |")
out.append("|---|---|---|---|---|")
for f in kf:
    if f["status"] == "fixed":
        out.append("| %s | `%s` | `%s` | %s | %s |" % (f["property"], f.get("commit", ""), f["key"], cell(f["what_fails"], 330), cell(f.get("witness", ""), 200)))
out.append("")
out.append("#### Findings recorded, not repaired (`status: known`)\n")
out.append("| property | key | what fails and why it is not repaired here |")
out.append("|---|---|---|")
for f in kf:
    if f["status"] == "known":
        out.append("| %s | `%s` | %s |" % (f["property"], f["key"], cell(f["what_fails"], 700)))
out.append("")
out.append("#### Seeded changes and the checks that catch them\n")
out.append("| seed | breaks | needs | caught by | result |")
out.append("|---|---|---|---|---|")
for mf in sorted(glob.glob(os.path.join(root, "seeded", "*", "meta.json"))):
    m = json.load(open(mf))
    out.append("| %s | %s | %s | %s | %s |" % (m["id"], cell(m["breaks"], 260), cell(m["needs_to_manifest"], 200), cell(m.get("caught_by", ""), 200), cell(m.get("result", ""), 330)))
out.append("")
claimed = [c["property_id"] if "property_id" in c else c.get("id") for c in man.get("checks", man.get("properties", []))]
text = "\n".join(out)
p = os.path.join(root, "DESIGN.md")
s = open(p).read()
b, e = "<!-- BEGIN GENERATED tables -->", "<!-- END GENERATED tables -->"
if b not in s:
    raise SystemExit("markers missing in DESIGN.md")
s = s[: s.index(b) + len(b)] + "\n" + text + "\n" + s[s.index(e):]
open(p, "w").write(s)
print("tables regenerated: %d fixed, %d known, %d seeds" % (sum(f["status"] == "fixed" for f in kf), sum(f["status"] == "known" for f in kf), len(glob.glob(os.path.join(root, "seeded", "*", "meta.json")))))
