package c06

// C06: maps behave as finite maps under every operation history and key type.
// Point operations and full dumps: the same interpreter executed natively (gc's map) is the reference.
// Range loops with interleaved mutation: a predicate over the transcript (what Go guarantees).

import (
	"bytes"
	"encoding/binary"
	"fmt"
	"os"
	"sort"
	"sync"
	"testing"

	"pgregory.net/rapid"
	"verif/harness/interpkit"
	"verif/programs/mapops/cases"
	vstat "verifstat"
)

const casesDir = "/verif/programs/mapops/cases"

var typeNames = []string{"int64->int", "uint8->string", "string->int", "float64->int", "complex128->struct{}", "bool->[20]int64", "[2]int32->string",
	"struct{int16;string}->int", "struct{int8;int64}->any", "struct{int8;_ int32;float64}->int", "any->int", "[20]int64->[20]int64", "string->any", "int64->struct{}"}

const (
	opMake = iota
	opNil
	opSet
	opGet
	opDelete
	opLen
	opClear
	opDump
	opSetRange
	opDelRange
	opRangeMut
	opLitBad
)

var (
	once sync.Once
	set  *interpkit.Set
)

func load(t testing.TB) *interpkit.Set {
	once.Do(func() { set = interpkit.Load("mapops", casesDir, interpkit.Configs()) })
	if set.Err != "" {
		t.Fatalf("[C06:build] %s", set.Err)
	}
	if len(set.Targets) == 0 {
		t.Fatalf("VERIF-INFRA no configuration could be built (skipped: %v)", set.Skipped)
	}
	return set
}

func TestPrepare(t *testing.T) {
	if os.Getenv("VERIF_SHARED") == "" {
		t.Skip()
	}
	load(t).Close()
}

func req(ty int, op byte, args ...uint64) []byte {
	b := []byte{byte(ty), op}
	for _, a := range args {
		var w [8]byte
		binary.LittleEndian.PutUint64(w[:], a)
		b = append(b, w[:]...)
	}
	return b
}

type pair struct{ K, V uint64 }

func decodePairs(b []byte) []pair {
	var ps []pair
	for i := 0; i+16 <= len(b); i += 16 {
		ps = append(ps, pair{binary.LittleEndian.Uint64(b[i:]), binary.LittleEndian.Uint64(b[i+8:])})
	}
	return ps
}

func sortedPairs(ps []pair) []pair {
	c := append([]pair(nil), ps...)
	sort.Slice(c, func(i, j int) bool {
		if c[i].K != c[j].K {
			return c[i].K < c[j].K
		}
		return c[i].V < c[j].V
	})
	return c
}

// plain key tokens: the token->key mapping is injective on them for every type (no ±0, NaN, wraparound)
func plainTok(ty int, i int) uint64 {
	switch ty {
	case 1:
		return uint64(10 + i%240)
	case 3, 9:
		return uint64(3 + i)
	case 4:
		return uint64(5*i + 3)
	case 5:
		return uint64(i % 2)
	case 10:
		kinds := []uint64{0, 1, 2, 3, 5, 6, 7}
		return kinds[i%7] + 8*uint64(10+(i/7)%240)
	}
	return uint64(10 + i)
}

func plainCount(ty int) int {
	switch ty {
	case 1:
		return 240
	case 5:
		return 2
	case 10:
		return 7 * 240
	}
	return 1 << 20
}

// key/value types of 160 bytes (directly or inside an interface)
var bigType = map[int]bool{5: true, 8: true, 11: true, 12: true}

type step struct {
	Op   string
	A, B, C, D uint64
}

var specials = []uint64{0, 1, 2, 3, 4, 5, 255, 256, 257, 1 << 32, 1<<32 + 1, ^uint64(0)}

// TestC06Point: operation histories compared step by step with gc's own map.
func TestC06Point(t *testing.T) {
	c := vstat.For("C06")
	defer c.Flush()
	s := load(t)
	for _, sk := range s.Skipped {
		c.Skip("toolchain_llvm14_crash:" + sk)
	}
	rapid.Check(t, func(t *rapid.T) {
		ty := rapid.IntRange(0, cases.NumTypes-1).Draw(t, "type")
		dom := rapid.SampledFrom([]int{4, 16, 64, 400, 4000}).Draw(t, "keydomain")
		key := func(label string) uint64 {
			if rapid.IntRange(0, 5).Draw(t, label+"special") == 0 {
				return rapid.SampledFrom(specials).Draw(t, label+"sp")
			}
			return uint64(rapid.IntRange(0, dom-1).Draw(t, label))
		}
		n := rapid.IntRange(1, 60).Draw(t, "nops")
		var hist []step
		size := 0
		grew, special, churn := false, false, 0
		// every implementation starts from a fresh map
		all := func(r []byte) ([]byte, [][]byte, []error) {
			want := cases.Handle(r)
			gots := make([][]byte, len(s.Targets))
			errs := make([]error, len(s.Targets))
			for i, tg := range s.Targets {
				gots[i], errs[i] = tg.Call(r)
			}
			return want, gots, errs
		}
		all(req(ty, opMake, 0))
		for i := 0; i < n; i++ {
			var st step
			switch k := rapid.IntRange(0, 15).Draw(t, "op"); {
			case k <= 3:
				st = step{Op: "set", A: key("k"), B: uint64(rapid.IntRange(0, 1000).Draw(t, "v"))}
			case k <= 5:
				st = step{Op: "get", A: key("k")}
			case k <= 7:
				st = step{Op: "delete", A: key("k")}
			case k == 8:
				st = step{Op: "len"}
			case k == 9:
				st = step{Op: "dump"}
			case k == 10:
				st = step{Op: rapid.SampledFrom([]string{"clear", "make", "nil", "make"}).Draw(t, "reset"), A: uint64(rapid.SampledFrom([]int{0, 1, 8, 9, 100, 1000}).Draw(t, "hint"))}
			case k <= 12:
				st = step{Op: "setrange", A: key("k0"), B: uint64(rapid.SampledFrom([]int{1, 7, 8, 9, 13, 14, 27, 53, 105, 209, 417, 833, 1700, 3400, 7000, 20000}).Draw(t, "n")), C: uint64(rapid.SampledFrom([]int{1, 1, 3, 8, 64}).Draw(t, "stride")), D: uint64(rapid.IntRange(0, 99).Draw(t, "v0"))}
			case k <= 14:
				st = step{Op: "delrange", A: key("k0"), B: uint64(rapid.SampledFrom([]int{1, 6, 12, 50, 200, 800, 3000, 18000}).Draw(t, "n")), C: uint64(rapid.SampledFrom([]int{1, 1, 2, 3, 8}).Draw(t, "stride"))}
			default:
				st = step{Op: "unhashable", A: uint64(rapid.IntRange(0, 12).Draw(t, "kind"))}
				switch st.A {
				case 5, 6, 7, 8, 9, 10: // key types that contain an array of non-plain-memory elements
					st.Op = "arraykey"
				}
			}
			if (st.Op == "setrange" || st.Op == "delrange") && bigType[ty] && st.B > 1500 {
				// listed finding C06:stack-exhaustion-large-kv-loop: loops over 160-byte keys/values leak stack
				// per iteration; keep them short so that the search continues behind it
				c.Exclude("C06:stack-exhaustion-large-kv-loop")
				st.B = 1500
			}
			if st.A < 3 && (ty == 3 || ty == 4 || ty == 9 || ty == 10) {
				special = true
			}
			hist = append(hist, st)
			var r []byte
			switch st.Op {
			case "set":
				r = req(ty, opSet, st.A, st.B)
			case "get":
				r = req(ty, opGet, st.A)
			case "delete":
				r = req(ty, opDelete, st.A)
			case "len":
				r = req(ty, opLen)
			case "dump":
				r = req(ty, opDump)
			case "clear":
				r = req(ty, opClear)
			case "make":
				r = req(ty, opMake, st.A)
			case "nil":
				r = req(ty, opNil)
			case "setrange":
				r = req(ty, opSetRange, st.A, st.B, st.C, st.D)
				if st.B >= 100 {
					churn++
				}
			case "delrange":
				r = req(ty, opDelRange, st.A, st.B, st.C)
				if st.B >= 100 {
					churn++
				}
			case "unhashable", "arraykey":
				r = req(10, opLitBad, st.A)
			}
			want, gots, errs := all(r)
			if st.Op == "len" && len(want) >= 9 {
				ns := int(binary.LittleEndian.Uint64(want[1:]))
				if ns > 8 && ns > size {
					grew = true
				}
				size = ns
			}
			for j, tg := range s.Targets {
				ok := errs[j] == nil && bytes.Equal(gots[j], want)
				if !ok && errs[j] == nil && st.Op == "dump" && len(want) > 9 && len(gots[j]) == len(want) && bytes.Equal(gots[j][:9], want[:9]) {
					ok = fmt.Sprint(sortedPairs(decodePairs(gots[j][9:]))) == fmt.Sprint(sortedPairs(decodePairs(want[9:])))
				}
				if !ok {
					key := "C06:point:" + st.Op
					if st.Op == "arraykey" && tg.Cfg.Opt != "O0" {
						key += ":optimised" // listed finding: these key types break at every optimised level only
					}
					if c.IsKnown(key) {
						c.KnownHit(key)
						continue
					}
					t.Fatalf("[%s] map %s, step %d %+v: gc answers %x, llgo %s answers %x (err %v)\nhistory: %+v", key, typeNames[ty], i, st, clip(want), tg.Cfg, clip(gots[j]), errs[j], hist)
				}
			}
		}
		var cls []string
		if grew || churn > 0 {
			cls = append(cls, "map_growth")
		}
		if churn >= 2 {
			cls = append(cls, "map_churn")
		}
		if special {
			cls = append(cls, "map_special_keys")
		}
		cls = append(cls, "map_point_history", "maptype_"+typeNames[ty])
		c.Case(vstat.Hash("point", ty, fmt.Sprint(hist)), grew || churn > 0 || special, cls...)
		c.ClassN("map_point_ops", len(hist))
		c.Sample(map[string]any{"kind": "map_point_history", "type": typeNames[ty], "ops": hist})
	})
}

func clip(b []byte) []byte {
	if len(b) > 80 {
		return b[:80]
	}
	return b
}

type mut struct {
	Step int
	Kind int // 0 set, 1 delete, 2 clear, 3 bulk insert
	K, V uint64
}

// checkTranscript evaluates Go's guarantees for a range loop with interleaved mutation.
// valCanon mirrors the interpreter's value encoding where it is not injective: struct{} values carry
// nothing, and interface values hold nil for tokens = 2 mod 4.
func valCanon(ty int, v uint64) uint64 {
	switch ty {
	case 4, 13:
		return 0
	case 8, 12:
		if v%4 == 2 {
			return 2
		}
	}
	return v
}

func checkTranscript(init map[uint64]uint64, muts []mut, yields []pair, limit int, ty int) (string, map[uint64]uint64) {
	cur := map[uint64]uint64{}
	cont := map[uint64]bool{}
	for k, v := range init {
		cur[k] = valCanon(ty, v)
		cont[k] = true
	}
	seen := map[uint64]bool{}
	apply := func(step int) {
		for _, m := range muts {
			if m.Step != step {
				continue
			}
			switch m.Kind {
			case 0:
				cur[m.K] = valCanon(ty, m.V)
			case 1:
				delete(cur, m.K)
				cont[m.K] = false
				delete(seen, m.K) // re-inserting it later creates a new entry, which may be yielded
			case 2:
				for k := range cur {
					delete(cur, k)
				}
				for k := range cont {
					cont[k] = false
				}
				for k := range seen {
					delete(seen, k)
				}
			case 3:
				for i := uint64(0); i < m.V; i++ {
					cur[plainShift(ty, m.K, i)] = valCanon(ty, i)
				}
			}
		}
	}
	for i, y := range yields {
		v, present := cur[y.K]
		if !present {
			return fmt.Sprintf("yield %d: key %d is not in the map at that moment (deleted or never inserted)", i, y.K), nil
		}
		if v != y.V {
			return fmt.Sprintf("yield %d: key %d yielded with value %d; current value is %d", i, y.K, y.V, v), nil
		}
		if seen[y.K] {
			return fmt.Sprintf("yield %d: key %d yielded twice", i, y.K), nil
		}
		seen[y.K] = true
		apply(i)
	}
	if len(yields) < limit { // the loop ran to its natural end
		for k, c := range cont {
			if c && !seen[k] {
				return fmt.Sprintf("key %d was present during the whole loop but never yielded (%d yields)", k, len(yields)), nil
			}
		}
	}
	return "", cur
}

// plainShift: the i-th key of a bulk insert starting at token k0 (interpreter: kf(k0+i))
func plainShift(ty int, k0, i uint64) uint64 { return k0 + i }

func TestC06RangeMutation(t *testing.T) {
	c := vstat.For("C06")
	defer c.Flush()
	s := load(t)
	rapid.Check(t, func(t *rapid.T) {
		ty := rapid.SampledFrom([]int{0, 1, 2, 3, 6, 7, 8, 9, 10, 11, 12, 13, 0, 2}).Draw(t, "type")
		maxKeys := plainCount(ty)
		n0 := rapid.SampledFrom([]int{0, 1, 2, 5, 7, 8, 9, 12, 13, 14, 20, 27, 53, 54, 100, 105, 106, 300, 1000, 2500}).Draw(t, "initial")
		if n0 > maxKeys/2 {
			n0 = maxKeys / 2
		}
		if bigType[ty] && n0 > 1000 {
			c.Exclude("C06:stack-exhaustion-large-kv-loop")
			n0 = 1000
		}
		// churn before the loop: insert, delete most, insert others (tombstones / same-size growth)
		churn := rapid.IntRange(0, 2).Draw(t, "churn")
		init := map[uint64]uint64{}
		var setup [][]byte
		setup = append(setup, req(ty, opMake, uint64(rapid.SampledFrom([]int{0, 0, 8, 100}).Draw(t, "hint"))))
		affine := ty != 1 && ty != 10
		stride := uint64(1)
		if ty == 4 {
			stride = 5
		}
		for r := 0; r < churn && affine; r++ {
			base := 100000 + r*50000
			cn := rapid.SampledFrom([]int{50, 400, 3000}).Draw(t, "churnsize")
			if bigType[ty] && cn > 400 {
				cn = 400
			}
			cn -= cn % 10
			setup = append(setup, req(ty, opSetRange, plainTok(ty, base), uint64(cn), stride, 1))
			for res := 1; res < 10; res++ { // delete 90 %: every index not divisible by 10
				setup = append(setup, req(ty, opDelRange, plainTok(ty, base+res), uint64(cn/10), 10*stride))
			}
			for i := 0; i < cn; i += 10 {
				init[plainTok(ty, base+i)] = 1 + uint64(i)
			}
		}
		if affine {
			setup = append(setup, req(ty, opSetRange, plainTok(ty, 0), uint64(n0), stride, 1000))
			for i := 0; i < n0; i++ {
				init[plainTok(ty, i)] = uint64(1000 + i)
			}
		} else {
			for i := 0; i < n0; i++ {
				k := plainTok(ty, i)
				v := uint64(1000 + i)
				init[k] = v
				setup = append(setup, req(ty, opSet, k, v))
			}
		}
		// mutation script
		nm := rapid.IntRange(0, 8).Draw(t, "nmut")
		var muts []mut
		bulk := false
		for j := 0; j < nm; j++ {
			m := mut{Step: rapid.IntRange(0, max(1, min(len(init), 40))).Draw(t, "step"), Kind: rapid.SampledFrom([]int{0, 0, 0, 1, 1, 1, 3, 2}).Draw(t, "kind")}
			if m.Kind == 2 && rapid.IntRange(0, 3).Draw(t, "rareclear") != 0 {
				m.Kind = 1
			}
			switch m.Kind {
			case 0, 1:
				// an existing key (seen or unseen – decided by iteration order) or a fresh one
				if rapid.Bool().Draw(t, "existing") && n0 > 0 {
					m.K = plainTok(ty, rapid.IntRange(0, n0-1).Draw(t, "ki"))
				} else {
					m.K = plainTok(ty, min(maxKeys-1, n0+rapid.IntRange(0, 50).Draw(t, "fresh")))
				}
				m.V = uint64(rapid.IntRange(0, 999).Draw(t, "v"))
			case 3:
				if ty == 1 || ty == 10 || ty == 3 || ty == 9 || ty == 4 {
					m.Kind, m.K, m.V = 0, plainTok(ty, min(maxKeys-1, n0+60)), 5
				} else {
					m.K = plainTok(ty, 500000)
					m.V = uint64(rapid.SampledFrom([]int{10, 100, 1000, 4000}).Draw(t, "bulk"))
					if bigType[ty] && m.V > 1000 {
						m.V = 1000
					}
					bulk = true
				}
			}
			muts = append(muts, m)
		}
		limit := 1 << 30
		if rapid.IntRange(0, 4).Draw(t, "earlybreak") == 0 {
			limit = rapid.IntRange(1, max(1, len(init))).Draw(t, "limit")
		}
		args := []uint64{uint64(limit), uint64(len(muts))}
		for _, m := range muts {
			args = append(args, uint64(m.Step), uint64(m.Kind), m.K, m.V)
		}
		loop := req(ty, opRangeMut, args...)
		type implT struct {
			name string
			call func([]byte) ([]byte, error)
		}
		impls := []implT{{"gc(native)", func(r []byte) ([]byte, error) { return cases.Handle(r), nil }}}
		for _, tg := range s.Targets {
			impls = append(impls, implT{"llgo " + tg.Cfg.String(), tg.Call})
		}
		var cls []string
		if len(muts) > 0 {
			cls = append(cls, "range_with_mutation")
		}
		if bulk {
			cls = append(cls, "range_growth_during_loop")
		}
		if churn > 0 {
			cls = append(cls, "range_after_churn")
		}
		cls = append(cls, "map_range_history", "maptype_"+typeNames[ty])
		c.Case(vstat.Hash("rangemut", ty, n0, churn, fmt.Sprint(muts), limit), len(muts) > 0, cls...)
		c.Sample(map[string]any{"kind": "map_range_mutation", "type": typeNames[ty], "initial_keys": len(init), "churn_rounds": churn, "mutations": muts, "limit": limit})
		for ii, im := range impls {
			for _, r := range setup {
				if resp, err := im.call(r); err != nil || len(resp) == 0 || resp[0] != 0 {
					t.Fatalf("[C06:range:setup] %s: map %s: set-up operation failed: %v %x", im.name, typeNames[ty], err, resp)
				}
			}
			resp, err := im.call(loop)
			if err != nil || len(resp) == 0 || resp[0] != 0 {
				t.Fatalf("[C06:range:crash] %s: map %s: range loop with mutations %+v failed: %v %x", im.name, typeNames[ty], muts, err, clip(resp))
			}
			yields := decodePairs(resp[1:])
			msg, final := checkTranscript(init, muts, yields, limit, ty)
			if msg == "" {
				d, err := im.call(req(ty, opDump))
				if err != nil || len(d) < 9 {
					t.Fatalf("[C06:range:crash] %s: dump after loop: %v", im.name, err)
				}
				got := sortedPairs(decodePairs(d[9:]))
				var want []pair
				for k, v := range final {
					want = append(want, pair{k, v})
				}
				want = sortedPairs(want)
				if fmt.Sprint(got) != fmt.Sprint(want) {
					msg = fmt.Sprintf("map after the loop has %d entries, model %d (first differing entries: %v vs %v)", len(got), len(want), firstDiff(got, want), firstDiff(want, got))
				}
			}
			if msg != "" {
				if ii == 0 {
					t.Fatalf("VERIF-INFRA the range predicate rejects gc's own transcript (predicate bug): %s; muts %+v", msg, muts)
				}
				key := "C06:range"
				if c.IsKnown(key) {
					c.KnownHit(key)
					continue
				}
				t.Fatalf("[%s] %s, map %s, %d initial keys, churn %d, mutations %+v, limit %d: %s", key, im.name, typeNames[ty], len(init), churn, muts, limit, msg)
			}
		}
	})
}

func firstDiff(a, b []pair) []pair {
	set := map[pair]bool{}
	for _, p := range b {
		set[p] = true
	}
	var d []pair
	for _, p := range a {
		if !set[p] {
			d = append(d, p)
			if len(d) == 3 {
				break
			}
		}
	}
	return d
}

// TestC06PointKnownWitness re-checks the listed finding C06:stack-exhaustion-large-kv-loop exactly as
// recorded: a loop inserting 30000 entries with 160-byte keys and values into a map. The generators
// above avoid such loops by construction (and count what they avoided) so that the search continues.
func TestC06PointKnownWitness(t *testing.T) {
	c := vstat.For("C06")
	defer c.Flush()
	s := load(t)
	const key = "C06:stack-exhaustion-large-kv-loop"
	for _, tg := range s.Targets {
		if tg.Cfg.String() != "O0" {
			continue
		}
		tg.Call(req(11, opMake, 0))
		want := cases.Handle(req(11, opSetRange, 5, 30000, 3, 69))
		got, err := tg.Call(req(11, opSetRange, 5, 30000, 3, 69))
		cases.Handle(req(11, opMake, 0))
		if err != nil || !bytes.Equal(got, want) {
			if c.IsKnown(key) {
				c.KnownHit(key)
			} else {
				t.Fatalf("[%s] inserting 30000 entries into map[[20]int64][20]int64 in one loop: gc answers %x, llgo %s: %x (err %v)", key, want, tg.Cfg, got, err)
			}
		}
		tg.Restart()
	}
}
