package c05

// C05: slices (append / copy / reslice / clear with aliasing) against an explicit slice model, and
// string operations on arbitrary byte strings against the same functions executed natively (gc).

import (
	"bytes"
	"encoding/binary"
	"fmt"
	"os"
	"strings"
	"sync"
	"testing"

	"pgregory.net/rapid"
	"verif/harness/interpkit"
	"verif/programs/seqops/cases"
	vstat "verifstat"
)

const casesDir = "/verif/programs/seqops/cases"

var (
	once sync.Once
	set  *interpkit.Set
)

func load(t testing.TB) *interpkit.Set {
	once.Do(func() { set = interpkit.Load("seqops", casesDir, interpkit.Configs()) })
	if set.Err != "" {
		t.Fatalf("[C05:build] %s", set.Err)
	}
	if len(set.Targets) == 0 {
		t.Fatalf("VERIF-INFRA no configuration could be built (skipped: %v)", set.Skipped)
	}
	return set
}

func TestPrepare(t *testing.T) {
	if os.Getenv("VERIF_SHARED") == "" {
		t.Skip()
	}
	load(t).Close()
}

// ---------------- slice model ----------------

var elemSizes = []int{0, 1, 2, 3, 8, 24}
var elemMask = []uint64{0, 0xff, 0xffff, 0xffffff, ^uint64(0), ^uint64(0)}

type backing struct{ data []uint64 }

type reg struct {
	b        *backing // nil => nil slice
	off      int
	len, cap int
}

type model struct {
	et   int
	regs [8]reg
}

func (m *model) elems(r reg) []uint64 {
	if r.b == nil {
		return nil
	}
	return r.b.data[r.off : r.off+r.len]
}

// impl is one implementation under comparison (native gc or an llgo interpreter) with its own model:
// capacities chosen on reallocation are implementation-defined, so sharing may legitimately differ.
type impl struct {
	name string
	call func(req []byte) ([]byte, error)
	m    model
}

func sliceReq(et int, op byte, args ...uint64) []byte {
	b := []byte{1, byte(et), op}
	for _, a := range args {
		var w [8]byte
		binary.LittleEndian.PutUint64(w[:], a)
		b = append(b, w[:]...)
	}
	return b
}

const (
	opReset = iota
	opMake
	opLit
	opNil
	opAppendN
	opAppendS
	opCopy
	opSlice2
	opSlice3
	opClear
	opStore
	opDump
	opAppendSelf1
	opGrowLoop
	opDumpAll
)

type dump struct {
	isNil    bool
	len, cap int
	toks     []uint64
}

func (im *impl) dump(r int) (dump, error) {
	resp, err := im.call(sliceReq(im.m.et, opDump, uint64(r)))
	if err != nil {
		return dump{}, err
	}
	if len(resp) < 25 || resp[0] != 0 {
		return dump{}, fmt.Errorf("dump of register %d: status/frame %v", r, resp[:min(len(resp), 8)])
	}
	d := dump{isNil: binary.LittleEndian.Uint64(resp[1:]) == 1, len: int(binary.LittleEndian.Uint64(resp[9:])), cap: int(binary.LittleEndian.Uint64(resp[17:]))}
	for i := 25; i+8 <= len(resp); i += 8 {
		d.toks = append(d.toks, binary.LittleEndian.Uint64(resp[i:]))
	}
	return d, nil
}

// step describes one drawn operation; positions are per-mille fractions resolved against each
// implementation's own lengths and capacities.
type step struct {
	Op                  string
	Dst, A, B           int
	F1, F2, F3          int // fractions 0..1000
	N                   int
	Tok                 uint64
}

func frac(f, lo, hi int) int { // maps 0..1000 onto [lo,hi]
	if hi <= lo {
		return lo
	}
	return lo + (f*(hi-lo)+500)/1000
}

// apply performs st on implementation im and updates its model; returns a description of a mismatch.
func (im *impl) apply(st step) (string, error) {
	m := &im.m
	mask := elemMask[m.et]
	et := m.et
	do := func(op byte, args ...uint64) ([]byte, error) {
		resp, err := im.call(sliceReq(et, op, args...))
		if err != nil {
			return nil, err
		}
		if len(resp) == 0 || resp[0] != 0 {
			return nil, fmt.Errorf("operation %s panicked although every operand is in range", st.Op)
		}
		return resp[1:], nil
	}
	newBacking := func(n int) *backing { return &backing{data: make([]uint64, n)} }
	a, b := m.regs[st.A], m.regs[st.B]
	switch st.Op {
	case "make":
		ln := st.N
		cp := ln + frac(st.F1, 0, 40)
		if _, err := do(opMake, uint64(st.Dst), uint64(ln), uint64(cp)); err != nil {
			return "", err
		}
		m.regs[st.Dst] = reg{b: newBacking(cp), len: ln, cap: cp}
	case "lit":
		if _, err := do(opLit, uint64(st.Dst), uint64(st.N), st.Tok); err != nil {
			return "", err
		}
		bk := newBacking(st.N)
		for i := range bk.data {
			bk.data[i] = (st.Tok + uint64(i)) & mask
		}
		m.regs[st.Dst] = reg{b: bk, len: st.N, cap: st.N}
	case "nil":
		if _, err := do(opNil, uint64(st.Dst)); err != nil {
			return "", err
		}
		m.regs[st.Dst] = reg{}
	case "appendN", "growLoop":
		k := st.N
		var vals []uint64
		for i := 0; i < k; i++ {
			vals = append(vals, (st.Tok+uint64(i))&mask)
		}
		if st.Op == "appendN" {
			if _, err := do(opAppendN, uint64(st.Dst), uint64(st.A), uint64(k), st.Tok); err != nil {
				return "", err
			}
			return im.modelAppend(st.Dst, a, vals, true)
		}
		if _, err := do(opGrowLoop, uint64(st.A), uint64(k), st.Tok); err != nil {
			return "", err
		}
		// a loop of single appends: reallocations happen at implementation-chosen points; model the net
		// effect (final contents) and take sharing from the observed capacity
		return im.modelAppend(st.A, a, vals, false)
	case "appendS":
		lo := frac(st.F1, 0, b.len)
		hi := frac(st.F2, lo, b.len)
		vals := append([]uint64(nil), im.m.elems(b)[lo:hi]...)
		if _, err := do(opAppendS, uint64(st.Dst), uint64(st.A), uint64(st.B), uint64(lo), uint64(hi)); err != nil {
			return "", err
		}
		return im.modelAppend(st.Dst, a, vals, true)
	case "appendSelf1":
		if a.len == 0 {
			return "", nil
		}
		lo := frac(st.F1, 0, a.len-1)
		vals := append([]uint64(nil), im.m.elems(a)[lo+1:]...)
		if _, err := do(opAppendSelf1, uint64(st.Dst), uint64(st.A), uint64(lo)); err != nil {
			return "", err
		}
		pre := a
		pre.len = lo
		return im.modelAppend(st.Dst, pre, vals, true)
	case "copy":
		i := frac(st.F1, 0, a.len)
		j := frac(st.F2, 0, b.len)
		n := min(a.len-i, b.len-j)
		out, err := do(opCopy, uint64(st.A), uint64(i), uint64(st.B), uint64(j))
		if err != nil {
			return "", err
		}
		if got := int(binary.LittleEndian.Uint64(out)); got != n {
			return fmt.Sprintf("copy(r%d[%d:], r%d[%d:]) returned %d; want %d", st.A, i, st.B, j, got, n), nil
		}
		if n > 0 {
			src := append([]uint64(nil), im.m.elems(b)[j:j+n]...) // memmove semantics
			copy(a.b.data[a.off+i:], src)
		}
	case "slice2":
		if a.b == nil {
			// nil[0:0] stays nil
			if _, err := do(opSlice2, uint64(st.Dst), uint64(st.A), 0, 0); err != nil {
				return "", err
			}
			m.regs[st.Dst] = reg{}
			return "", nil
		}
		l := frac(st.F1, 0, a.cap)
		h := frac(st.F2, l, a.cap)
		if _, err := do(opSlice2, uint64(st.Dst), uint64(st.A), uint64(l), uint64(h)); err != nil {
			return "", err
		}
		m.regs[st.Dst] = reg{b: a.b, off: a.off + l, len: h - l, cap: a.cap - l}
	case "slice3":
		if a.b == nil {
			return "", nil
		}
		l := frac(st.F1, 0, a.cap)
		h := frac(st.F2, l, a.cap)
		mx := frac(st.F3, h, a.cap)
		if _, err := do(opSlice3, uint64(st.Dst), uint64(st.A), uint64(l), uint64(h), uint64(mx)); err != nil {
			return "", err
		}
		m.regs[st.Dst] = reg{b: a.b, off: a.off + l, len: h - l, cap: mx - l}
	case "clear":
		if _, err := do(opClear, uint64(st.A)); err != nil {
			return "", err
		}
		for i := range im.m.elems(a) {
			a.b.data[a.off+i] = 0
		}
	case "store":
		if a.len == 0 {
			return "", nil
		}
		i := frac(st.F1, 0, a.len-1)
		if _, err := do(opStore, uint64(st.A), uint64(i), st.Tok); err != nil {
			return "", err
		}
		a.b.data[a.off+i] = st.Tok & mask
	}
	return "", nil
}

// modelAppend updates the model for dst = append(src, vals...): in place when the capacity suffices,
// otherwise into a fresh backing whose capacity is the one the implementation reports (only required
// to be >= the new length). exact=false (append loops): reallocation points are unknown, so sharing
// with src is decided by whether the observed capacity still equals the old one.
func (im *impl) modelAppend(dst int, src reg, vals []uint64, exact bool) (string, error) {
	m := &im.m
	newLen := src.len + len(vals)
	if len(vals) == 0 && exact {
		m.regs[dst] = src // append(s) with nothing appended is s itself
		return "", nil
	}
	if src.b != nil && newLen <= src.cap {
		copy(src.b.data[src.off+src.len:], vals)
		m.regs[dst] = reg{b: src.b, off: src.off, len: newLen, cap: src.cap}
		return "", nil
	}
	if !exact && src.b != nil {
		// an append loop first fills the spare capacity of the old backing array in place
		copy(src.b.data[src.off+src.len:src.off+src.cap], vals)
	}
	d, err := im.dump(dst)
	if err != nil {
		return "", err
	}
	if d.cap < newLen {
		return fmt.Sprintf("append produced cap %d < len %d", d.cap, newLen), nil
	}
	bk := &backing{data: make([]uint64, d.cap)}
	copy(bk.data, m.elems(src))
	copy(bk.data[src.len:], vals)
	m.regs[dst] = reg{b: bk, len: newLen, cap: d.cap}
	return "", nil
}

// check compares every register of the implementation with its model (contents, len, cap, nil-ness):
// this is also the aliasing probe, because a store through one register must show in exactly the
// registers that share its backing array in the model.
func (im *impl) check() (string, error) {
	resp, err := im.call(sliceReq(im.m.et, opDumpAll))
	if err != nil {
		return "", err
	}
	if len(resp) < 1 || resp[0] != 0 {
		return "", fmt.Errorf("dump of all registers failed (status %v)", resp[:min(len(resp), 4)])
	}
	p := 1
	for r := 0; r < 8; r++ {
		if p+24 > len(resp) {
			return fmt.Sprintf("register dump truncated at register %d", r), nil
		}
		d := dump{isNil: binary.LittleEndian.Uint64(resp[p:]) == 1, len: int(binary.LittleEndian.Uint64(resp[p+8:])), cap: int(binary.LittleEndian.Uint64(resp[p+16:]))}
		p += 24
		if d.len < 0 || p+8*d.len > len(resp) {
			return fmt.Sprintf("register %d reports len %d beyond the dump", r, d.len), nil
		}
		for i := 0; i < d.len; i++ {
			d.toks = append(d.toks, binary.LittleEndian.Uint64(resp[p:]))
			p += 8
		}
		mr := im.m.regs[r]
		if (mr.b == nil) != d.isNil && !(mr.b != nil && false) {
			return fmt.Sprintf("register %d: nil=%v; model nil=%v", r, d.isNil, mr.b == nil), nil
		}
		if d.len != mr.len || (mr.b != nil && d.cap != mr.cap) {
			return fmt.Sprintf("register %d: len=%d cap=%d; model len=%d cap=%d", r, d.len, d.cap, mr.len, mr.cap), nil
		}
		want := im.m.elems(mr)
		for i := range want {
			if i >= len(d.toks) || d.toks[i] != want[i] {
				return fmt.Sprintf("register %d: element %d of %d is %#x; model %#x (elements %v / model %v)", r, i, len(want), tokAt(d.toks, i), want[i], clip(d.toks), clip(want)), nil
			}
		}
	}
	return "", nil
}

func tokAt(t []uint64, i int) uint64 {
	if i < len(t) {
		return t[i]
	}
	return 0xdeadbeef
}

func clip(t []uint64) []uint64 {
	if len(t) > 12 {
		return t[:12]
	}
	return t
}

var lengths = []int{0, 1, 2, 3, 4, 5, 7, 8, 9, 15, 16, 17, 31, 32, 33, 63, 64, 65, 127, 128, 129, 255, 256, 257, 300, 511, 512, 513, 1023, 1024, 1025}

func drawStep(t *rapid.T) step {
	st := step{Dst: rapid.IntRange(0, 7).Draw(t, "dst"), A: rapid.IntRange(0, 7).Draw(t, "a"), B: rapid.IntRange(0, 7).Draw(t, "b"),
		F1: rapid.IntRange(0, 1000).Draw(t, "f1"), F2: rapid.IntRange(0, 1000).Draw(t, "f2"), F3: rapid.IntRange(0, 1000).Draw(t, "f3"),
		Tok: rapid.Uint64Range(1, 1<<40).Draw(t, "tok")}
	st.Op = rapid.SampledFrom([]string{"make", "lit", "lit", "nil", "appendN", "appendN", "appendN", "appendS", "appendS", "appendSelf1", "copy", "copy", "slice2", "slice2", "slice3", "clear", "store", "store", "growLoop"}).Draw(t, "op")
	switch st.Op {
	case "make", "lit":
		if rapid.Bool().Draw(t, "small") {
			st.N = rapid.IntRange(0, 12).Draw(t, "n")
		} else {
			st.N = rapid.SampledFrom(lengths).Draw(t, "nlen")
		}
	case "appendN":
		if rapid.IntRange(0, 3).Draw(t, "manyvals") == 0 {
			st.N = rapid.SampledFrom(lengths).Draw(t, "k")
		} else {
			st.N = rapid.IntRange(0, 5).Draw(t, "k")
		}
	case "growLoop":
		st.N = rapid.SampledFrom([]int{1, 2, 5, 9, 17, 33, 70, 300, 1100}).Draw(t, "loops")
	}
	if rapid.IntRange(0, 2).Draw(t, "self") == 0 { // encourage self-overlap
		st.B = st.A
	}
	if rapid.IntRange(0, 2).Draw(t, "inplace") == 0 {
		st.Dst = st.A
	}
	return st
}

// TestC05ModelSelfTest validates the slice model against gc alone (no llgo involved).
func TestC05ModelSelfTest(t *testing.T) {
	c := vstat.For("C05")
	defer c.Flush()
	runSlices(t, c, &interpkit.Set{}, "model_selftest_history")
}

func TestC05Slices(t *testing.T) {
	c := vstat.For("C05")
	defer c.Flush()
	s := load(t)
	for _, sk := range s.Skipped {
		c.Skip("toolchain_llvm14_crash:" + sk)
	}
	runSlices(t, c, s, "slice_history")
}

func runSlices(t *testing.T, c *vstat.Collector, s *interpkit.Set, class string) {
	rapid.Check(t, func(t *rapid.T) {
		et := rapid.IntRange(0, 5).Draw(t, "elemtype")
		impls := []*impl{{name: "gc(native)", call: func(req []byte) ([]byte, error) { return cases.Handle(req), nil }}}
		for _, tg := range s.Targets {
			tg := tg
			impls = append(impls, &impl{name: "llgo " + tg.Cfg.String(), call: tg.Call})
		}
		for _, im := range impls {
			im.m = model{et: et}
			if _, err := im.call(sliceReq(et, opReset)); err != nil {
				t.Fatalf("VERIF-INFRA reset: %v", err)
			}
		}
		n := rapid.IntRange(1, 30).Draw(t, "nsteps")
		var hist []step
		realloc, inplace, overlap := false, false, false
		for i := 0; i < n; i++ {
			st := drawStep(t)
			hist = append(hist, st)
			ref := impls[0].m.regs[st.A]
			switch st.Op {
			case "appendN", "appendS", "appendSelf1", "growLoop":
				if st.Op == "appendSelf1" || (st.Op == "appendS" && st.A == st.B) {
					overlap = true
				}
				if ref.b != nil && ref.len+st.N <= ref.cap && st.N > 0 {
					inplace = true
				} else if st.N > 0 {
					realloc = true
				}
			case "copy":
				if st.A == st.B || impls[0].m.regs[st.A].b == impls[0].m.regs[st.B].b {
					overlap = true
				}
			}
			for _, im := range impls {
				msg, err := im.apply(st)
				if err == nil && msg == "" {
					msg, err = im.check()
				}
				if err != nil || msg != "" {
					if err != nil {
						msg = err.Error()
					}
					key := "C05:slice:" + st.Op
					if et == 0 {
						key = "C05:slice-zero-size:" + st.Op
					}
					if im == impls[0] {
						t.Fatalf("VERIF-INFRA the slice model disagrees with gc itself (model bug): %s\nhistory: %+v", msg, hist)
					}
					if c.IsKnown(key) {
						c.KnownHit(key)
						return
					}
					t.Fatalf("[%s] element size %d, %s, after step %d %+v: %s\nhistory: %+v", key, elemSizes[et], im.name, i, st, msg, hist)
				}
			}
		}
		nt := (realloc && inplace) || overlap || et == 0
		var cls []string
		if realloc && inplace {
			cls = append(cls, "slice_realloc_and_inplace")
		}
		if overlap {
			cls = append(cls, "slice_overlap")
		}
		if et == 0 {
			cls = append(cls, "slice_zero_size_elem")
		}
		cls = append(cls, class)
		if len(s.Targets) == 0 {
			nt = false // self-test of the model against gc: not a case of the property
		}
		c.Case(vstat.Hash("slices", et, fmt.Sprint(hist), class), nt, cls...)
		c.ClassN("slice_steps", len(hist))
		if nt {
			c.Sample(map[string]any{"kind": "slice_history", "elem_size": elemSizes[et], "steps": hist})
		}
	})
}

// ---------------- strings ----------------

var strPieces = []string{"", "a", "ab", "\x00", "é", "世", "😀", "\xff", "\xc0\x80" /* overlong NUL */, "\xed\xa0\x80" /* surrogate */, "\xe4\xb8" /* truncated */, "\xf4\x90\x80\x80" /* > U+10FFFF */,
	"\xc3", "\x80", "\xef\xbf\xbd", "z", "A", "\n", " ", "\xf0\x9f\x98" /* truncated 4-byte */, "\xe0\x80\x80" /* overlong */, "abc", " ", " "}

func genStr(t *rapid.T, label string) string {
	n := rapid.IntRange(0, 8).Draw(t, label+"n")
	if rapid.IntRange(0, 9).Draw(t, label+"long") == 0 {
		n = rapid.IntRange(20, 120).Draw(t, label+"nlong")
	}
	var b strings.Builder
	for i := 0; i < n; i++ {
		if rapid.IntRange(0, 5).Draw(t, label+"raw") == 0 {
			b.WriteByte(rapid.Byte().Draw(t, label+"byte"))
		} else {
			b.WriteString(rapid.SampledFrom(strPieces).Draw(t, label+"piece"))
		}
	}
	return b.String()
}

func putStr(out []byte, s string) []byte {
	var w [8]byte
	binary.LittleEndian.PutUint64(w[:], uint64(len(s)))
	return append(append(out, w[:]...), s...)
}
func putU(out []byte, v uint64) []byte {
	var w [8]byte
	binary.LittleEndian.PutUint64(w[:], v)
	return append(out, w[:]...)
}

const (
	sConcat = iota
	sCompare
	sIndex
	sSlice
	sRange
	sBytes
	sFromBytes
	sRunes
	sFromRunes
	sFromRune
	sPlusEq
	sLen
	sCompareBytes
	sRangeIdx
	sConcat3Byte
	sFromInt64
)

var strOpNames = []string{"concat", "compare", "index", "slice", "range", "bytes", "frombytes", "runes", "fromrunes", "fromrune", "pluseq", "len", "comparebytes", "rangeidx", "concat3byte", "fromint64"}

var runeVals = []uint64{0, 'a', 0x7f, 0x80, 0x7ff, 0x800, 0xd7ff, 0xd800, 0xdfff, 0xe000, 0xfffd, 0xffff, 0x10000, 0x10ffff, 0x110000, 0x7fffffff, 0x80000000, 0xffffffff, 0x4e16, 0x1f600}

func TestC05Strings(t *testing.T) {
	c := vstat.For("C05")
	defer c.Flush()
	s := load(t)
	rapid.Check(t, func(t *rapid.T) {
		op := rapid.IntRange(0, len(strOpNames)-1).Draw(t, "op")
		req := []byte{2, byte(op)}
		var shown []string
		invalid := false
		str := func(label string) string {
			x := genStr(t, label)
			shown = append(shown, fmt.Sprintf("%q", x))
			if !isValidASCIIOnly(x) {
				invalid = true
			}
			return x
		}
		switch op {
		case sConcat, sPlusEq:
			n := rapid.IntRange(0, 5).Draw(t, "n")
			req = putU(req, uint64(n))
			for i := 0; i < n; i++ {
				req = putStr(req, str("s"))
			}
		case sCompare, sCompareBytes:
			a := str("a")
			b := a
			switch rapid.IntRange(0, 3).Draw(t, "rel") {
			case 0:
				b = str("b")
			case 1:
				b = a + str("suffix")
			case 2:
				if len(a) > 0 {
					b = a[:len(a)-1] + string([]byte{a[len(a)-1] ^ 0x80})
				}
			}
			req = putStr(putStr(req, a), b)
		case sIndex:
			x := str("s") + "x"
			req = putU(putStr(req, x), uint64(rapid.IntRange(0, len(x)-1).Draw(t, "i")))
		case sSlice:
			x := str("s")
			l := rapid.IntRange(0, len(x)).Draw(t, "l")
			h := rapid.IntRange(l, len(x)).Draw(t, "h")
			req = putU(putU(putStr(req, x), uint64(l)), uint64(h))
		case sFromRunes:
			n := rapid.IntRange(0, 6).Draw(t, "n")
			req = putU(req, uint64(n))
			for i := 0; i < n; i++ {
				r := rapid.SampledFrom(runeVals).Draw(t, "rune")
				if rapid.IntRange(0, 3).Draw(t, "rnd") == 0 {
					r = uint64(rapid.Uint32().Draw(t, "r32"))
				}
				req = putU(req, r)
				shown = append(shown, fmt.Sprintf("U+%X", r))
				invalid = invalid || r > 0x7f
			}
		case sFromRune:
			r := rapid.SampledFrom(runeVals).Draw(t, "rune")
			req = putU(req, r)
			shown = append(shown, fmt.Sprintf("U+%X", r))
			invalid = r > 0x7f
		case sFromInt64:
			v := rapid.SampledFrom([]uint64{0, 65, 0x10ffff, 0x110000, 1 << 31, 1<<32 + 65, 1 << 40, ^uint64(0), 1 << 63, 0xd800, 1<<32 + 0xd800}).Draw(t, "v")
			req = putU(req, v)
			shown = append(shown, fmt.Sprintf("int64(%d)", int64(v)))
			invalid = true
		case sConcat3Byte:
			req = putStr(putStr(putStr(req, str("a")), str("b")), str("c"))
		default:
			req = putStr(req, str("s"))
		}
		c.Case(vstat.Hash("str", string(req)), invalid, "string_"+strOpNames[op])
		c.Sample(map[string]any{"kind": "string_op", "op": strOpNames[op], "operands": shown})
		want := cases.Handle(req)
		for _, tg := range s.Targets {
			got, err := tg.Call(req)
			if err != nil || !bytes.Equal(got, want) {
				key := "C05:string:" + strOpNames[op]
				if c.IsKnown(key) {
					c.KnownHit(key)
					continue
				}
				t.Fatalf("[%s] %s on %v: gc answers %x, llgo %s answers %x (err %v)", key, strOpNames[op], shown, clipB(want), tg.Cfg, clipB(got), err)
			}
		}
	})
}

func clipB(b []byte) []byte {
	if len(b) > 96 {
		return b[:96]
	}
	return b
}

func isValidASCIIOnly(s string) bool {
	for i := 0; i < len(s); i++ {
		if s[i] >= 0x80 {
			return false
		}
	}
	return true
}
