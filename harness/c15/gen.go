package c15

// Generator of type pools for C15: two packages ("c15mod/lib" and main) of named types with methods on value
// and pointer receivers, structs with tags / unexported / embedded fields (values and pointers, generic
// instances), generic structs and their instances, named interfaces, named composites, a recursive type,
// plus unnamed composites over them; for every type 1-3 values built by constructor functions in the
// declaring package.

import (
	"fmt"
	"sort"
	"strings"

	"pgregory.net/rapid"
)

type ty struct {
	pkg, name string // named types
	targs     []*ty  // generic instance
	kind      string // basic struct ptr slice array map chan func iface
	basic     string // (underlying) basic kind name
	elem, key *ty
	alen      int
	dir       string // chan direction prefix
	fields    []field
	hasFunc   bool // contains a func value (sizes differ by documented design; values are nil)
	comp      bool // comparable
	nvals     int  // named: number of constructor functions
	id        int  // named: index of constructor family
	feats     map[string]bool
	iface     []string // named interface: method names
	solo      bool     // gets a unit of its own but is never used inside other types (listed findings)
}

type field struct {
	name     string
	t        *ty
	embedded bool
	tag      string
}

func (t *ty) named() bool { return t.name != "" }

// in renders the type expression as seen from package pkg.
func (t *ty) in(pkg string) string {
	if t.named() {
		s := t.name
		if t.pkg != pkg && t.pkg != "" {
			s = t.pkg + "." + s
		}
		if len(t.targs) > 0 {
			var a []string
			for _, x := range t.targs {
				a = append(a, x.in(pkg))
			}
			s += "[" + strings.Join(a, ", ") + "]"
		}
		return s
	}
	switch t.kind {
	case "basic":
		return t.basic
	case "ptr":
		return "*" + t.elem.in(pkg)
	case "slice":
		return "[]" + t.elem.in(pkg)
	case "array":
		return fmt.Sprintf("[%d]%s", t.alen, t.elem.in(pkg))
	case "map":
		return "map[" + t.key.in(pkg) + "]" + t.elem.in(pkg)
	case "chan":
		return t.dir + " " + t.elem.in(pkg)
	case "func":
		return t.basic // pre-rendered signature over basics only
	case "iface":
		return t.basic // "any", "error", "interface{ Alpha() string }"
	case "struct":
		var b strings.Builder
		b.WriteString("struct{ ")
		for i, f := range t.fields {
			if i > 0 {
				b.WriteString("; ")
			}
			if !f.embedded {
				b.WriteString(f.name + " ")
			}
			b.WriteString(f.t.in(pkg))
			if f.tag != "" {
				b.WriteString(" `" + f.tag + "`")
			}
		}
		b.WriteString(" }")
		return b.String()
	}
	panic("kind " + t.kind)
}

type pool struct {
	t      *rapid.T
	types  []*ty // named types in declaration order
	decls  map[string]*strings.Builder
	nid    int
	fnames []string // every field name used (for FieldByName probes)
	mnames []string
}

var basics = []string{"int", "int8", "int16", "int32", "int64", "uint", "uint8", "uint16", "uint32", "uint64", "uintptr", "float32", "float64", "complex64", "complex128", "string", "bool"}

var methodNames = []string{"Alpha", "Beta", "Gamma", "Delta", "String", "Error", "GoString", "hidden", "Zeta"}

var tags = []string{`json:"a,omitempty"`, `json:"-" xml:"b"`, `k:"v w" empty:""`, `plain`, `json:"\\" q:"x\"y"`}

func (p *pool) pick(n int, label string) int { return rapid.IntRange(0, n-1).Draw(p.t, label) }

func basicTy(b string) *ty { return &ty{kind: "basic", basic: b, comp: true} }

// anyType draws a type usable from package pkg: a basic, an earlier named type or a composite over them.
func (p *pool) anyType(pkg string, depth int) *ty {
	k := p.pick(12, "tkind")
	if depth >= 2 && k >= 5 {
		k = k % 5
	}
	var cands []*ty
	for _, t := range p.types {
		// named func types are a listed finding (C15:named-func-type): they get a unit of their own but are not
		// used inside other types
		if visible(t, pkg) && !(t.kind == "func") && !t.solo {
			cands = append(cands, t)
		}
	}
	switch {
	case k <= 1 || (k <= 4 && len(cands) == 0):
		return basicTy(basics[p.pick(len(basics), "basic")])
	case k <= 4:
		return cands[p.pick(len(cands), "named")]
	case k == 5:
		e := p.anyType(pkg, depth+1)
		return &ty{kind: "ptr", elem: e, comp: true, hasFunc: e.hasFunc}
	case k == 6:
		e := p.anyType(pkg, depth+1)
		return &ty{kind: "slice", elem: e, hasFunc: e.hasFunc}
	case k == 7:
		e := p.anyType(pkg, depth+1)
		return &ty{kind: "array", elem: e, alen: []int{0, 0, 1, 2, 3}[p.pick(5, "alen")], comp: e.comp, hasFunc: e.hasFunc}
	case k == 8:
		key := p.keyType(pkg)
		e := p.anyType(pkg, depth+1)
		return &ty{kind: "map", key: key, elem: e, hasFunc: e.hasFunc}
	case k == 9:
		e := p.anyType(pkg, depth+1)
		return &ty{kind: "chan", elem: e, dir: []string{"chan", "<-chan", "chan<-"}[p.pick(3, "dir")], comp: true, hasFunc: e.hasFunc}
	case k == 10:
		sigs := []string{"func()", "func(int) string", "func(a int, b ...string) (n int, err error)", "func(float64, *int) bool"}
		return &ty{kind: "func", basic: sigs[p.pick(len(sigs), "sig")], hasFunc: true}
	default:
		is := []string{"any", "error", "interface{ Alpha() string }", "interface{ Beta() string; Alpha() string }"}
		return &ty{kind: "iface", basic: is[p.pick(len(is), "iface")], comp: true}
	}
}

func (p *pool) keyType(pkg string) *ty {
	var cands []*ty
	for _, t := range p.types {
		if visible(t, pkg) && !t.solo && t.comp && !t.hasFunc && t.kind != "iface" && !containsFloat(t) {
			cands = append(cands, t)
		}
	}
	if len(cands) > 0 && p.pick(3, "namedkey") == 0 {
		return cands[p.pick(len(cands), "keynamed")]
	}
	ks := []string{"int", "string", "uint8", "int64", "bool"}
	return basicTy(ks[p.pick(len(ks), "keybasic")])
}

func containsFloat(t *ty) bool {
	switch t.kind {
	case "basic":
		return strings.HasPrefix(t.basic, "float") || strings.HasPrefix(t.basic, "complex")
	case "array":
		return containsFloat(t.elem)
	case "struct":
		for _, f := range t.fields {
			if containsFloat(f.t) {
				return true
			}
		}
	}
	return false
}

// visible: named type t can be mentioned from package pkg.
func visible(t *ty, pkg string) bool {
	if !t.named() {
		for _, x := range []*ty{t.elem, t.key} {
			if x != nil && !visible(x, pkg) {
				return false
			}
		}
		return true
	}
	for _, a := range t.targs {
		if !visible(a, pkg) {
			return false
		}
	}
	if t.pkg == pkg {
		return true
	}
	return pkg == "main" && t.name[0] >= 'A' && t.name[0] <= 'Z'
}

func (p *pool) newNamed(pkg, prefix, kind string) *ty {
	p.nid++
	t := &ty{pkg: pkg, name: fmt.Sprintf("%s%d", prefix, p.nid), kind: kind, id: p.nid, feats: map[string]bool{}}
	return t
}

// methods emits 0-3 methods for named type t (recv is the receiver type expression inside its package).
func (p *pool) methods(t *ty, recv string, b *strings.Builder) {
	n := p.pick(4, "nmethods")
	used := map[string]bool{}
	for i := 0; i < n; i++ {
		m := methodNames[p.pick(len(methodNames), "mname")]
		if used[m] {
			continue
		}
		used[m] = true
		ptr := p.pick(3, "ptrrecv") == 0
		r := "x " + recv
		if ptr {
			r = "x *" + recv
			t.feats["pointer_receiver_method"] = true
		} else {
			t.feats["value_receiver_method"] = true
		}
		switch {
		case m == "Gamma":
			fmt.Fprintf(b, "func (%s) Gamma(a int, s ...string) (int, error) { return a + len(s), nil }\n", r)
		case m == "Delta":
			fmt.Fprintf(b, "func (%s) Delta() int { return %d }\n", r, 100+t.id)
		default:
			fmt.Fprintf(b, "func (%s) %s() string { return \"%s.%s\" }\n", r, m, t.name, m)
			if m == "String" || m == "Error" || m == "GoString" {
				t.feats["fmt_interface_method"] = true
			}
		}
	}
	b.WriteString("\n")
}

func (p *pool) declare(pkg string) *ty {
	b := p.decls[pkg]
	var structs, embeddable []*ty
	for _, t := range p.types {
		if visible(t, pkg) && !t.solo {
			if t.kind == "struct" {
				structs = append(structs, t)
			}
			if t.kind == "struct" || (t.kind == "basic") || t.kind == "iface" {
				embeddable = append(embeddable, t)
			}
		}
	}
	switch k := p.pick(10, "declkind"); {
	case k <= 1: // named basic
		t := p.newNamed(pkg, []string{"N", "N", "N", "n"}[p.pick(4, "unexportedType")], "basic")
		if t.name[0] == 'n' {
			t.feats["unexported_type"] = true
		}
		t.basic = basics[p.pick(len(basics), "nbasic")]
		t.comp = true
		fmt.Fprintf(b, "type %s %s\n\n", t.name, t.basic)
		p.methods(t, t.name, b)
		return t
	case k <= 5: // struct
		t := p.newNamed(pkg, []string{"S", "S", "s"}[p.pick(3, "unexportedType")], "struct")
		if t.name[0] == 's' {
			t.feats["unexported_type"] = true
		}
		t.comp = true
		nf := p.pick(6, "nfields")
		if p.pick(6, "blankZeroArray") == 0 {
			// the "_ [0]func()" idiom: a zero-size blank field that makes the struct incomparable
			bt := &ty{kind: "array", alen: 0, elem: &ty{kind: "func", basic: "func()", hasFunc: true}}
			t.fields = append(t.fields, field{name: "_", t: bt})
			t.comp = false
			t.feats["blank_zero_length_array_field"] = true
		}
		used := map[string]bool{}
		fmt.Fprintf(b, "type %s struct {\n", t.name)
		if len(t.fields) == 1 {
			b.WriteString("\t_ [0]func()\n")
		}
		for i := 0; i < nf; i++ {
			var f field
			if len(embeddable) > 0 && p.pick(4, "embed") == 0 {
				e := embeddable[p.pick(len(embeddable), "embedded")]
				// exported fields reached through an embedded struct of unexported type have access rules of their
				// own in reflect and fmt: prefer such types when there are any
				var unexp []*ty
				for _, c := range embeddable {
					if c.kind == "struct" && c.name[0] >= 'a' && c.name[0] <= 'z' {
						unexp = append(unexp, c)
					}
				}
				if len(unexp) > 0 && p.pick(2, "preferUnexported") == 0 {
					e = unexp[p.pick(len(unexp), "embeddedUnexported")]
				}
				f = field{name: e.name, t: e, embedded: true}
				if e.kind != "iface" && p.pick(2, "embedptr") == 0 {
					f.t = &ty{kind: "ptr", elem: e, comp: true, hasFunc: e.hasFunc}
					t.feats["embedded_pointer"] = true
				}
				t.feats["embedded_field"] = true
				if e.name[0] >= 'a' && e.name[0] <= 'z' {
					t.feats["embedded_unexported_type"] = true
				}
				if len(e.targs) > 0 {
					t.feats["embedded_generic_instance"] = true
				}
			} else {
				name := fmt.Sprintf("F%d", i)
				if p.pick(3, "unexported") == 0 {
					name = fmt.Sprintf("f%d", i)
					t.feats["unexported_field"] = true
				}
				f = field{name: name, t: p.anyType(pkg, 0)}
			}
			if used[f.name] {
				continue
			}
			used[f.name] = true
			if p.pick(3, "tag") == 0 {
				f.tag = tags[p.pick(len(tags), "tagv")]
				t.feats["tag"] = true
			}
			t.fields = append(t.fields, f)
			t.comp = t.comp && f.t.comp
			t.hasFunc = t.hasFunc || f.t.hasFunc
			decl := f.t.in(pkg)
			if !f.embedded {
				decl = f.name + " " + decl
			}
			if f.tag != "" {
				decl += " `" + f.tag + "`"
			}
			fmt.Fprintf(b, "\t%s\n", decl)
			p.fnames = append(p.fnames, f.name)
		}
		if zeroSize(t) {
			// methods of zero-size types reached through nil pointers are a listed finding (dedicated unit only)
			f := field{name: "Fpad", t: basicTy("int8")}
			t.fields = append(t.fields, f)
			b.WriteString("\tFpad int8\n")
			p.fnames = append(p.fnames, "Fpad")
		}
		if n := len(t.fields); n > 0 && zeroSize(t.fields[n-1].t) && !zeroSize(t) {
			// a zero-size last field after non-empty ones is the C08 listed finding (LLVM struct without the
			// padding byte): reflect then walks arrays of such structs with the wrong stride. Not generated here.
			f := field{name: "Ftail", t: basicTy("int8")}
			t.fields = append(t.fields, f)
			b.WriteString("\tFtail int8\n")
			p.fnames = append(p.fnames, "Ftail")
		}
		b.WriteString("}\n\n")
		p.methods(t, t.name, b)
		return t
	case k == 6: // generic struct and one instance
		g := p.newNamed(pkg, "G", "struct")
		fmt.Fprintf(b, "type %s[T any] struct {\n\tV T\n\tw int8\n\tP *T\n}\n\n", g.name)
		fmt.Fprintf(b, "func (g %s[T]) Get() T { return g.V }\nfunc (g *%s[T]) Name() string { return \"%s.Name\" }\n\n", g.name, g.name, g.name)
		arg := p.anyType(pkg, 1)
		for isByteOrRune(arg) {
			arg = basicTy("int16") // uint8/int32 arguments are spelled byte/rune by go/types: C07 listed finding, not generated here
		}
		if zeroSize(arg) {
			arg = basicTy("uint16") // Get() would return a zero-size value: listed finding C15:call:zero-size-result, dedicated unit only
		}
		inst := &ty{pkg: pkg, name: g.name, targs: []*ty{arg}, kind: "struct", id: g.id, feats: map[string]bool{"generic_instance": true}}
		inst.fields = []field{{name: "V", t: arg}, {name: "w", t: basicTy("int8")}, {name: "P", t: &ty{kind: "ptr", elem: arg, comp: true}}}
		inst.comp = arg.comp
		inst.hasFunc = arg.hasFunc
		p.fnames = append(p.fnames, "V", "P")
		return inst
	case k == 7: // named interface
		t := p.newNamed(pkg, "I", "iface")
		t.comp = true
		fmt.Fprintf(b, "type %s interface {\n", t.name)
		for _, m := range []string{"Alpha", "Beta", "String"} {
			if p.pick(2, "imethod") == 0 {
				fmt.Fprintf(b, "\t%s() string\n", m)
				t.iface = append(t.iface, m)
			}
		}
		if p.pick(3, "iembed") == 0 {
			b.WriteString("\terror\n")
		}
		b.WriteString("}\n\n")
		t.basic = t.name
		return t
	case k == 8: // named composite
		u := p.anyType(pkg, 1)
		for u.named() || u.kind == "basic" || u.kind == "iface" {
			u = &ty{kind: "slice", elem: u, hasFunc: u.hasFunc}
		}
		t := p.newNamed(pkg, "C", u.kind)
		t.elem, t.key, t.alen, t.dir, t.basic, t.hasFunc, t.comp = u.elem, u.key, u.alen, u.dir, u.basic, u.hasFunc, u.comp
		fmt.Fprintf(b, "type %s %s\n\n", t.name, u.in(pkg))
		if u.kind != "ptr" && !zeroSize(t) {
			p.methods(t, t.name, b)
		}
		t.feats["named_composite"] = true
		return t
	default: // recursive struct
		t := p.newNamed(pkg, "R", "struct")
		fmt.Fprintf(b, "type %s struct {\n\tID int\n\tNext *%s\n\tKids []%s\n\tM map[string]*%s\n}\n\n", t.name, t.name, t.name, t.name)
		t.fields = []field{{name: "ID", t: basicTy("int")}, {name: "Next", t: &ty{kind: "ptr", elem: t, comp: true}}, {name: "Kids", t: &ty{kind: "slice", elem: t}}, {name: "M", t: &ty{kind: "map", key: basicTy("string"), elem: &ty{kind: "ptr", elem: t, comp: true}}}}
		t.feats["recursive"] = true
		p.methods(t, t.name, b)
		_ = structs
		return t
	}
}

func zeroSize(t *ty) bool {
	switch t.kind {
	case "array":
		return t.alen == 0 || zeroSize(t.elem)
	case "struct":
		for _, f := range t.fields {
			if !zeroSize(f.t) {
				return false
			}
		}
		return true
	}
	return false
}

func isByteOrRune(t *ty) bool {
	switch t.kind {
	case "basic":
		return !t.named() && (t.basic == "uint8" || t.basic == "int32")
	case "ptr", "slice", "array", "chan":
		return isByteOrRune(t.elem)
	case "map":
		return isByteOrRune(t.elem) || isByteOrRune(t.key)
	}
	return false
}

// value renders an expression of type t usable in package pkg. variant selects among a few shapes; nested
// pointers, chans, funcs and unsafe pointers are nil so that fmt never prints an address.
func (p *pool) value(t *ty, pkg string, depth, variant int) string {
	te := t.in(pkg)
	if t.named() && t.nvals > 0 && depth > 0 {
		q := ""
		if t.pkg != pkg {
			q = t.pkg + "."
		}
		return fmt.Sprintf("%sV%d_%d()", q, t.id, (variant+depth)%t.nvals)
	}
	switch t.kind {
	case "basic":
		var lit string
		switch {
		case t.basic == "string":
			lit = []string{`""`, `"héllo\n"`, `"a\x00b"`}[variant%3]
		case t.basic == "bool":
			lit = []string{"true", "false"}[variant%2]
		case strings.HasPrefix(t.basic, "float"):
			lit = []string{"0", "1.5", "-2.25e10"}[variant%3]
		case strings.HasPrefix(t.basic, "complex"):
			lit = []string{"0", "(1.5 + 2i)", "(-0.5i)"}[variant%3]
		case strings.HasPrefix(t.basic, "uint"):
			lit = []string{"0", "7", "200"}[variant%3]
		default:
			lit = []string{"0", "-7", "100"}[variant%3]
		}
		return te + "(" + lit + ")"
	case "ptr":
		if depth == 0 && variant%2 == 1 && t.elem.kind != "iface" && t.elem.kind != "chan" && t.elem.kind != "func" {
			// only a top-level pointer is non-nil (fmt prints &{...} for it, an address for nested ones)
			if t.elem.kind == "struct" || t.elem.kind == "slice" || t.elem.kind == "map" || t.elem.kind == "array" {
				inner := p.value(t.elem, pkg, depth+1, variant)
				if strings.HasSuffix(inner, "()") || strings.HasPrefix(inner, "(") { // constructor call or conversion: not addressable
					return fmt.Sprintf("func() %s { v := %s; return &v }()", te, inner)
				}
				return "&" + inner
			}
			return fmt.Sprintf("func() %s { v := %s; return &v }()", te, p.value(t.elem, pkg, depth+1, variant))
		}
		return "(" + te + ")(nil)"
	case "slice":
		if variant%3 == 0 {
			return "(" + te + ")(nil)"
		}
		if variant%3 == 1 || depth > 1 {
			return te + "{}"
		}
		return fmt.Sprintf("%s{%s, %s}", te, p.value(t.elem, pkg, depth+1, variant), p.value(t.elem, pkg, depth+1, variant+1))
	case "array":
		var el []string
		for i := 0; i < t.alen; i++ {
			el = append(el, p.value(t.elem, pkg, depth+1, variant+i))
		}
		return fmt.Sprintf("%s{%s}", te, strings.Join(el, ", "))
	case "map":
		if variant%3 == 0 {
			return "(" + te + ")(nil)"
		}
		if variant%3 == 1 || depth > 1 {
			return te + "{}"
		}
		return fmt.Sprintf("%s{%s: %s}", te, p.value(t.key, pkg, depth+1, variant), p.value(t.elem, pkg, depth+1, variant))
	case "chan", "func":
		return "(" + te + ")(nil)"
	case "iface":
		if t.basic == "any" && variant%2 == 1 {
			return "any(int16(3))"
		}
		return "(" + te + ")(nil)"
	case "struct":
		var el []string
		for i, f := range t.fields {
			if f.t == t || (f.t.elem == t) || (f.t.elem != nil && f.t.elem.elem == t) {
				// recursive type: one level of children for variant 2, nil otherwise
				if f.t.kind == "slice" && variant%3 == 2 && depth == 0 {
					el = append(el, fmt.Sprintf("%s: %s{{ID: 2}, {ID: 3}}", f.name, f.t.in(pkg)))
				}
				continue
			}
			if f.name == "_" || (variant%3 == 0 && i%2 == 1) {
				continue // blank fields cannot be set; leave some others zero
			}
			el = append(el, fmt.Sprintf("%s: %s", f.name, p.value(f.t, pkg, depth+1, variant+i)))
		}
		return fmt.Sprintf("%s{%s}", te, strings.Join(el, ", "))
	}
	panic("value kind " + t.kind)
}

// constructors emits V<id>_<k>() functions for named type t in its package.
func (p *pool) constructors(t *ty) {
	b := p.decls[t.pkg]
	n := 1 + p.pick(3, "nvals")
	for k := 0; k < n; k++ {
		fmt.Fprintf(b, "func V%d_%d() %s { return %s }\n", t.id, k, t.in(t.pkg), p.value(t, t.pkg, 0, k+p.pick(3, "variant")))
	}
	b.WriteString("\n")
	t.nvals = n
}

// zeroSizeResultType declares the dedicated type for the listed finding C15:call:zero-size-result.
func (p *pool) zeroSizeResultType() *ty {
	t := p.newNamed("main", "Z", "struct")
	t.comp = true
	b := p.decls["main"]
	fmt.Fprintf(b, "type %s struct{ pad int8 }\n\nfunc (%s) Arr() [0]int { return [0]int{} }\nfunc (%s) Empty() struct{} { return struct{}{} }\nfunc (%s) Two() (int, [0]int) { return 1, [0]int{} }\nfunc (%s) Zeta() string { return \"%s.Zeta\" }\n\n", t.name, t.name, t.name, t.name, t.name, t.name)
	t.feats["zero_size_result_method"] = true
	t.feats["value_receiver_method"] = true
	t.fields = []field{{name: "pad", t: basicTy("int8")}}
	t.solo = true
	return t
}

// zeroSizeReceiverType declares the dedicated type for the listed finding
// C15:call:nil-pointer-receiver-not-dereferenced: an empty struct with value-receiver methods.
func (p *pool) zeroSizeReceiverType() *ty {
	t := p.newNamed("main", "E", "struct")
	t.comp = true
	b := p.decls["main"]
	fmt.Fprintf(b, "type %s struct{}\n\nfunc (%s) String() string { return \"%s.String\" }\nfunc (%s) Alpha() string { return \"%s.Alpha\" }\n\n", t.name, t.name, t.name, t.name, t.name)
	t.feats["zero_size_receiver"] = true
	t.feats["value_receiver_method"] = true
	t.feats["fmt_interface_method"] = true
	t.solo = true
	return t
}

// ---- DeepEqual over pointer graphs -------------------------------------------------------------

const graphTypes = `
type DH struct {
	ID  int
	Tag string
}

type DR struct {
	Hdr  DH // first field: &r.Hdr and r share an address
	Body string
	Arr  [3]int
	Next *DR
	H    *DH
	E    *int
	M    map[string]*DR
	S    []*DR
	I    any
}

type DRootA struct { // interior pointers are visited before the pointer to the enclosing object
	A *DH
	C *int
	D *[3]int
	B *DR
	L []*DR
}

type DRootB struct { // enclosing object first
	B *DR
	A *DH
	D *[3]int
	C *int
}
`

// genGraph emits a builder of a small heap of DR nodes with drawn links (cycles, sharing, interior pointers to first
// and later fields / array elements, pointers inside maps, slices and interfaces) whose variant v >= 1 differs from
// variant 0 in exactly one drawn place, and the DeepEqual probes over it.
func genGraph(t *rapid.T, u int) (decl, body string, feats []string) {
	var b strings.Builder
	k := rapid.IntRange(1, 5).Draw(t, "gnodes")
	fmt.Fprintf(&b, "func buildG%d(variant int) (DRootA, DRootB) {\n\tn := make([]*DR, %d)\n\tfor i := range n {\n\t\tn[i] = &DR{Hdr: DH{i, \"t\"}, Body: \"b\", Arr: [3]int{i, i + 1, i + 2}}\n\t}\n", u, k)
	fs := map[string]bool{}
	nl := rapid.IntRange(0, 3*k).Draw(t, "glinks")
	for l := 0; l < nl; l++ {
		i, j := rapid.IntRange(0, k-1).Draw(t, "from"), rapid.IntRange(0, k-1).Draw(t, "to")
		switch rapid.IntRange(0, 7).Draw(t, "linkkind") {
		case 0, 1:
			fmt.Fprintf(&b, "\tn[%d].Next = n[%d]\n", i, j)
			if j <= i {
				fs["deepequal_cycle"] = true
			}
		case 2:
			fmt.Fprintf(&b, "\tn[%d].H = &n[%d].Hdr\n", i, j)
			fs["deepequal_interior_pointer_first_field"] = true
		case 3:
			fmt.Fprintf(&b, "\tn[%d].E = &n[%d].Arr[%d]\n", i, j, rapid.IntRange(0, 2).Draw(t, "elem"))
			fs["deepequal_interior_pointer_element"] = true
		case 4:
			fmt.Fprintf(&b, "\tn[%d].S = append(n[%d].S, n[%d])\n", i, i, j)
		case 5:
			fmt.Fprintf(&b, "\tif n[%d].M == nil {\n\t\tn[%d].M = map[string]*DR{}\n\t}\n\tn[%d].M[\"k%d\"] = n[%d]\n", i, i, i, j, j)
		case 6:
			fmt.Fprintf(&b, "\tn[%d].I = %s\n", i, []string{fmt.Sprintf("n[%d]", j), fmt.Sprintf("&n[%d].Hdr", j), fmt.Sprintf("n[%d].Hdr", j), fmt.Sprintf("&n[%d].Arr", j)}[rapid.IntRange(0, 3).Draw(t, "ikind")])
		case 7:
			fmt.Fprintf(&b, "\tn[%d].Hdr.ID = %d\n", i, rapid.IntRange(0, 3).Draw(t, "id"))
		}
	}
	r := rapid.IntRange(0, k-1).Draw(t, "root")
	nv := rapid.IntRange(3, 6).Draw(t, "gvariants")
	b.WriteString("\tswitch variant {\n")
	for v := 1; v <= nv; v++ {
		i := r // half of the variants change the node the root points to (and into)
		if rapid.Bool().Draw(t, "mother") {
			i = rapid.IntRange(0, k-1).Draw(t, "mnode")
		}
		fmt.Fprintf(&b, "\tcase %d:\n", v)
		switch rapid.SampledFrom([]int{0, 0, 1, 1, 2, 3, 4, 5}).Draw(t, "mkind") {
		case 0:
			fmt.Fprintf(&b, "\t\tn[%d].Body = \"other\"\n", i)
		case 1:
			fmt.Fprintf(&b, "\t\tn[%d].Arr[%d] = 99\n", i, rapid.IntRange(0, 2).Draw(t, "melem"))
		case 2:
			fmt.Fprintf(&b, "\t\tn[%d].Hdr.Tag = \"u\"\n", i)
		case 3:
			fmt.Fprintf(&b, "\t\tn[%d].Hdr.ID = 77\n", i)
		case 4:
			fmt.Fprintf(&b, "\t\tn[%d].Next = n[%d]\n", i, rapid.IntRange(0, k-1).Draw(t, "mnext"))
		case 5:
			fmt.Fprintf(&b, "\t\tn[%d].Next = &DR{Hdr: n[%d].Hdr, Body: n[%d].Body, Arr: n[%d].Arr}\n", i, i, i, i) // an equal copy instead of a shared node
		}
	}
	fmt.Fprintf(&b, "\t}\n\treturn DRootA{A: &n[%d].Hdr, C: &n[%d].Arr[0], D: &n[%d].Arr, B: n[%d], L: n}, DRootB{B: n[%d], A: &n[%d].Hdr, D: &n[%d].Arr, C: &n[%d].Arr[0]}\n}\n\n", r, r, r, r, r, r, r, r)
	var c strings.Builder
	fmt.Fprintf(&c, "\t{\n\t\ta0, b0 := buildG%d(0)\n\t\ta0x, b0x := buildG%d(0)\n\t\tdeq(%d, \"graph same A\", a0, a0x)\n\t\tdeq(%d, \"graph same B\", b0, b0x)\n\t\tdeq(%d, \"graph self\", &a0, &a0)\n", u, u, u, u, u)
	for v := 1; v <= nv; v++ {
		fmt.Fprintf(&c, "\t\t{\n\t\t\tav, bv := buildG%d(%d)\n\t\t\tdeq(%d, \"graph v%d A\", a0, av)\n\t\t\tdeq(%d, \"graph v%d B\", b0, bv)\n\t\t\tdeq(%d, \"graph v%d pA\", &a0, &av)\n\t\t\tdeq(%d, \"graph v%d node\", a0.B, av.B)\n\t\t\tdeq(%d, \"graph v%d list\", a0.L, av.L)\n\t\t}\n", u, v, u, v, u, v, u, v, u, v, u, v)
	}
	c.WriteString("\t}\n")
	feats = []string{"deepequal_graph"}
	for f := range fs {
		feats = append(feats, f)
	}
	sort.Strings(feats)
	return b.String(), c.String(), feats
}
