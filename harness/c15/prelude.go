package c15

// Text of the helper functions the generated programs carry. They are ordinary Go and are compiled by gc (the
// reference) and by the llgo under test alike; only what they print is compared.

const preludeCommon = `
func out(u int, a ...any) {
	s := fmt.Sprintln(a...)
	s = strings.ReplaceAll(strings.TrimSuffix(s, "\n"), "\n", "\\n")
	fmt.Printf("# %d %s\n", u, s)
}

// fmtSafe: formatting x never prints an address (no non-nil pointer below the top level, no non-nil pointer to a
// scalar, no non-nil chan, func or unsafe.Pointer).
func fmtSafe(v reflect.Value, depth int) bool {
	switch v.Kind() {
	case reflect.Pointer:
		if v.IsNil() {
			return true
		}
		if depth > 0 {
			return false
		}
		switch v.Elem().Kind() {
		case reflect.Struct, reflect.Slice, reflect.Map, reflect.Array:
			return fmtSafe(v.Elem(), depth+1)
		}
		return false
	case reflect.Chan, reflect.Func, reflect.UnsafePointer:
		return v.IsNil()
	case reflect.Interface:
		if v.IsNil() {
			return true
		}
		return fmtSafe(v.Elem(), depth+1)
	case reflect.Struct:
		for i := 0; i < v.NumField(); i++ {
			if !fmtSafe(v.Field(i), depth+1) {
				return false
			}
		}
	case reflect.Slice, reflect.Array:
		for i := 0; i < v.Len(); i++ {
			if !fmtSafe(v.Index(i), depth+1) {
				return false
			}
		}
	case reflect.Map:
		it := v.MapRange()
		for it.Next() {
			if !fmtSafe(it.Key(), depth+1) || !fmtSafe(it.Value(), depth+1) {
				return false
			}
		}
	}
	return true
}

func fmtAll(u, i int, x any) {
	v := reflect.ValueOf(x)
	if v.IsValid() && !fmtSafe(v, 0) {
		out(u, i, "fmt skipped (would print an address)")
		return
	}
	out(u, i, "%v", fmt.Sprintf("%v|%+v|%T", x, x, x))
	out(u, i, "%#v", fmt.Sprintf("%#v", x))
	out(u, i, "Sprint", fmt.Sprint(x, x), fmt.Sprintln(x, 1, "a", x))
	if !v.IsValid() {
		return
	}
	if v.Kind() == reflect.Pointer && !v.IsNil() {
		return // other verbs print the address of a pointer
	}
	out(u, i, "%d%x", fmt.Sprintf("%d|%x|%X|%o|%b|%c|%U|%08d|%+d|% d|%-6d|", x, x, x, x, x, x, x, x, x, x, x))
	out(u, i, "%s%q", fmt.Sprintf("%s|%q|%10s|%-10s|%.2s|% x|%#x|%+q|", x, x, x, x, x, x, x, x))
	out(u, i, "%g%e", fmt.Sprintf("%g|%e|%08.3f|%+.2g|%G|%6.1f|%t|%p|", x, x, x, x, x, x, x, nilIfAddr(x)))
	out(u, i, "%#", fmt.Sprintf("%#o|%#q|%#g|%#U|%+v|%6v|%-8v|%06v|", x, x, x, x, x, x, x, x))
}

// nilIfAddr keeps %p away from real addresses: only nil pointers/maps/slices/chans/funcs reach it.
func nilIfAddr(x any) any {
	v := reflect.ValueOf(x)
	if !v.IsValid() {
		return x
	}
	switch v.Kind() {
	case reflect.Pointer, reflect.Map, reflect.Slice, reflect.Chan, reflect.Func, reflect.UnsafePointer:
		if v.IsNil() {
			return x
		}
		return 0
	}
	return x
}
`

// mode 0: the full walker (Method(i), MethodByName with computed names, calls, sets, conversions)
const preludeFull = `
var (
	stringerT = reflect.TypeOf((*fmt.Stringer)(nil)).Elem()
	errorT    = reflect.TypeOf((*error)(nil)).Elem()
	anyT      = reflect.TypeOf((*any)(nil)).Elem()
	intT      = reflect.TypeOf(int(0))
	int64T    = reflect.TypeOf(int64(0))
	uint64T   = reflect.TypeOf(uint64(0))
	float64T  = reflect.TypeOf(float64(0))
	stringT   = reflect.TypeOf("")
)

func descT(u int, t reflect.Type, hasFunc bool) {
	out(u, "T", t.Kind().String(), "name="+t.Name(), "str="+t.String(), "pkg="+t.PkgPath(), "cmp", t.Comparable(), "nm", t.NumMethod())
	for i := 0; i < t.NumMethod(); i++ {
		m := t.Method(i)
		out(u, "T.method", i, m.Name, m.Type.String(), "pkg="+m.PkgPath, m.Index, m.IsExported())
	}
	for k := range methodProbe {
		n := methodProbe[(k+u)%len(methodProbe)]
		if m, ok := t.MethodByName(n); ok {
			out(u, "T.mbn", n, m.Type.String(), m.Index)
		} else {
			out(u, "T.mbn", n, "absent")
		}
	}
	pt := reflect.PointerTo(t)
	out(u, "T.ptrto", pt.String(), pt.NumMethod(), pt.Elem() == t, pt.Kind().String())
	out(u, "T.impl", t.Implements(stringerT), t.Implements(errorT), t.AssignableTo(anyT), pt.Implements(stringerT), pt.Implements(errorT), t.ConvertibleTo(intT), t.ConvertibleTo(stringT), t.AssignableTo(t), t.ConvertibleTo(float64T))
	if !hasFunc {
		out(u, "T.size", t.Size(), t.Align(), t.FieldAlign())
	}
	switch t.Kind() {
	case reflect.Struct:
		out(u, "T.numfield", t.NumField())
		for i := 0; i < t.NumField(); i++ {
			f := t.Field(i)
			out(u, "T.field", i, f.Name, f.Type.String(), "tag="+string(f.Tag), f.Anonymous, "pkg="+f.PkgPath, f.Index, f.IsExported(), "json="+f.Tag.Get("json"), "k="+f.Tag.Get("k"))
			if e, ok := f.Tag.Lookup("empty"); ok {
				out(u, "T.field.lookup", i, "empty", len(e))
			}
			if !hasFunc {
				out(u, "T.field.offset", i, f.Offset)
			}
		}
		for _, n := range fieldProbe {
			if f, ok := t.FieldByName(n); ok {
				out(u, "T.fbn", n, f.Index, f.Type.String(), f.Anonymous)
			}
		}
		for _, f := range reflect.VisibleFields(t) {
			out(u, "T.visible", f.Name, f.Index, f.Anonymous)
		}
	case reflect.Pointer, reflect.Slice:
		out(u, "T.elem", t.Elem().String(), t.Elem().Kind().String())
	case reflect.Array:
		out(u, "T.elem", t.Elem().String(), t.Len())
	case reflect.Chan:
		out(u, "T.elem", t.Elem().String(), t.ChanDir().String())
	case reflect.Map:
		out(u, "T.map", t.Key().String(), t.Elem().String())
	case reflect.Func:
		out(u, "T.func", t.NumIn(), t.NumOut(), t.IsVariadic())
		for i := 0; i < t.NumIn(); i++ {
			out(u, "T.func.in", i, t.In(i).String())
		}
		for i := 0; i < t.NumOut(); i++ {
			out(u, "T.func.out", i, t.Out(i).String())
		}
	}
	// composite constructors must give back the identical type
	switch t.Kind() {
	case reflect.Slice:
		out(u, "T.ctor", reflect.SliceOf(t.Elem()) == t || t.Name() != "")
	case reflect.Map:
		out(u, "T.ctor", reflect.MapOf(t.Key(), t.Elem()) == t || t.Name() != "")
	case reflect.Pointer:
		out(u, "T.ctor", reflect.PointerTo(t.Elem()) == t || t.Name() != "")
	case reflect.Array:
		out(u, "T.ctor", reflect.ArrayOf(t.Len(), t.Elem()) == t || t.Name() != "")
	case reflect.Chan:
		out(u, "T.ctor", reflect.ChanOf(t.ChanDir(), t.Elem()) == t || t.Name() != "")
	}
}

func callAll(u, i int, tag string, v reflect.Value) {
	for k := 0; k < v.NumMethod(); k++ {
		m := v.Method(k)
		mt := m.Type()
		func() {
			defer func() {
				if r := recover(); r != nil {
					msg := fmt.Sprint(r)
					if strings.Contains(msg, "nil pointer dereference") || strings.Contains(msg, "called using nil") {
						msg = "(nil receiver)" // the wording of this run-time error is not compared
					}
					out(u, i, tag, k, "call PANIC", msg)
				}
			}()
			var res []reflect.Value
			switch {
			case mt.NumIn() == 0:
				res = m.Call(nil)
			case mt.IsVariadic() && mt.NumIn() == 2:
				res = m.Call([]reflect.Value{reflect.ValueOf(5), reflect.ValueOf("a"), reflect.ValueOf("b")})
			default:
				out(u, i, tag, k, "not called", mt.String())
				return
			}
			var rs []any
			for _, r := range res {
				if r.CanInterface() && fmtSafe(r, 1) {
					rs = append(rs, fmt.Sprintf("%v", r.Interface()))
				} else {
					rs = append(rs, r.Kind().String())
				}
			}
			out(u, i, tag, k, v.Type().Method(k).Name, mt.String(), rs)
		}()
	}
}

func descV(u, i int, x any) {
	v := reflect.ValueOf(x)
	if !v.IsValid() {
		out(u, i, "V invalid")
		return
	}
	t := v.Type()
	out(u, i, "V", v.Kind().String(), t.String(), v.CanAddr(), v.CanSet(), v.CanInterface(), v.IsZero(), v.NumMethod(), v.Comparable())
	switch v.Kind() {
	case reflect.Pointer, reflect.Map, reflect.Slice, reflect.Chan, reflect.Func, reflect.Interface:
		out(u, i, "V.isnil", v.IsNil())
	}
	switch v.Kind() {
	case reflect.Int, reflect.Int8, reflect.Int16, reflect.Int32, reflect.Int64:
		out(u, i, "V.int", v.Int(), v.Convert(int64T).Int(), v.Convert(float64T).Float(), v.CanConvert(stringT), v.OverflowInt(300), v.CanInt(), v.CanUint())
		nv := reflect.New(t).Elem()
		nv.SetInt(v.Int())
		out(u, i, "V.setint", nv.Int(), nv.Interface() == x)
	case reflect.Uint, reflect.Uint8, reflect.Uint16, reflect.Uint32, reflect.Uint64, reflect.Uintptr:
		out(u, i, "V.uint", v.Uint(), v.Convert(uint64T).Uint(), v.Convert(intT).Int(), v.OverflowUint(300))
	case reflect.Float32, reflect.Float64:
		out(u, i, "V.float", v.Float(), v.Convert(int64T).Int(), v.OverflowFloat(1e300), v.CanFloat())
	case reflect.Complex64, reflect.Complex128:
		out(u, i, "V.complex", v.Complex(), v.CanComplex())
	case reflect.String:
		out(u, i, "V.string", v.String(), v.Len(), v.Convert(reflect.TypeOf([]byte(nil))).Len(), v.Convert(reflect.TypeOf([]rune(nil))).Len())
		if v.Len() > 0 {
			out(u, i, "V.string.index", v.Index(0).Uint(), v.Slice(0, 1).String())
		}
	case reflect.Bool:
		out(u, i, "V.bool", v.Bool())
	case reflect.Struct:
		for k := 0; k < v.NumField(); k++ {
			fv := v.Field(k)
			s := "-"
			if fv.CanInterface() && fmtSafe(fv, 1) {
				s = fmt.Sprintf("%v", fv.Interface())
			}
			out(u, i, "V.field", k, fv.Kind().String(), fv.Type().String(), fv.CanInterface(), fv.CanSet(), fv.CanAddr(), fv.IsZero(), s)
			// one level down through embedded structs: the access rights of promoted fields
			if t.Field(k).Anonymous && fv.Kind() == reflect.Struct {
				for j := 0; j < fv.NumField(); j++ {
					nf := fv.Field(j)
					ns := "-"
					if nf.CanInterface() && fmtSafe(nf, 1) {
						ns = fmt.Sprintf("%v", nf.Interface())
					}
					out(u, i, "V.field.promoted", k, j, fv.Type().Field(j).Name, nf.CanInterface(), nf.CanSet(), ns)
				}
			}
		}
		for _, n := range fieldProbe {
			func() {
				defer func() {
					if r := recover(); r != nil {
						out(u, i, "V.fbn", n, "PANIC")
					}
				}()
				if fv := v.FieldByName(n); fv.IsValid() {
					out(u, i, "V.fbn", n, fv.Kind().String(), fv.IsZero())
				}
			}()
		}
		pv := reflect.New(t)
		pv.Elem().Set(v)
		for k := 0; k < t.NumField(); k++ {
			fv := pv.Elem().Field(k)
			out(u, i, "V.addrfield", k, fv.CanSet(), fv.CanAddr(), fv.CanInterface())
			if t.Field(k).Anonymous && fv.Kind() == reflect.Struct {
				for j := 0; j < fv.NumField(); j++ {
					out(u, i, "V.addrfield.promoted", k, j, fv.Field(j).CanSet(), fv.Field(j).CanInterface())
				}
			}
			if fv.CanSet() {
				fv.Set(reflect.Zero(fv.Type()))
			}
		}
		out(u, i, "V.zeroed-exported", pv.Elem().IsZero())
	case reflect.Slice:
		out(u, i, "V.slice", v.Len(), v.Cap() >= v.Len())
		if !v.IsNil() {
			out(u, i, "V.slice.ops", v.Slice(0, v.Len()).Len(), reflect.Append(v, reflect.Zero(t.Elem())).Len(), reflect.AppendSlice(v, v).Len())
		}
		if v.Len() > 0 {
			out(u, i, "V.slice.index", v.Index(0).Kind().String(), v.Index(0).CanSet(), v.Index(0).CanAddr())
		}
		ms := reflect.MakeSlice(t, 2, 5)
		out(u, i, "V.makeslice", ms.Len(), ms.Cap(), ms.Index(1).IsZero(), reflect.Copy(ms, v))
	case reflect.Array:
		out(u, i, "V.array", v.Len(), v.Cap())
		if v.Len() > 0 {
			out(u, i, "V.array.index", v.Index(0).Kind().String(), v.Index(0).CanSet(), v.Index(v.Len()-1).IsZero())
		}
	case reflect.Map:
		out(u, i, "V.map", v.Len(), len(v.MapKeys()))
		it := v.MapRange()
		n := 0
		for it.Next() {
			n++
			e := v.MapIndex(it.Key())
			out(u, i, "V.map.entry", it.Key().Kind().String(), e.IsValid(), e.Kind().String(), reflect.DeepEqual(e.Interface(), it.Value().Interface()))
		}
		m := reflect.MakeMap(t)
		it = v.MapRange()
		for it.Next() {
			m.SetMapIndex(it.Key(), it.Value())
		}
		out(u, i, "V.makemap", n, m.Len(), v.IsNil() || reflect.DeepEqual(m.Interface(), x))
		missing := v.MapIndex(reflect.Zero(t.Key()))
		out(u, i, "V.map.zero-key", missing.IsValid())
	case reflect.Pointer:
		if !v.IsNil() {
			e := v.Elem()
			out(u, i, "V.elem", e.Kind().String(), e.CanSet(), e.CanAddr(), e.Addr().Pointer() == v.Pointer(), reflect.Indirect(v).Type().String())
		}
	case reflect.Chan:
		out(u, i, "V.chan", v.Len(), v.Cap())
		mc := reflect.MakeChan(reflect.ChanOf(reflect.BothDir, t.Elem()), 1)
		mc.Send(reflect.Zero(t.Elem()))
		r, ok := mc.Recv()
		out(u, i, "V.makechan", ok, r.IsZero(), mc.Len())
	}
	// set / interface round trip
	nv := reflect.New(t).Elem()
	nv.Set(v)
	out(u, i, "V.set", reflect.DeepEqual(nv.Interface(), x), nv.CanSet(), nv.CanAddr(), reflect.DeepEqual(reflect.Zero(t).Interface(), x), reflect.Zero(t).IsZero())
	out(u, i, "V.equal", func() (r any) {
		defer func() {
			if recover() != nil {
				r = "PANIC"
			}
		}()
		return v.Equal(nv)
	}())
	// comparing and hashing through interfaces: must panic exactly for incomparable dynamic types
	out(u, i, "V.ifaceeq", func() (r any) {
		defer func() {
			if recover() != nil {
				r = "PANIC"
			}
		}()
		return x == x
	}())
	out(u, i, "V.mapkey", func() (r any) {
		defer func() {
			if recover() != nil {
				r = "PANIC"
			}
		}()
		m := map[any]int{}
		m[x] = 1
		return len(m)
	}())
	// methods through the value and through a pointer to a copy
	callAll(u, i, "V.call", v)
	pv := reflect.New(t)
	pv.Elem().Set(v)
	callAll(u, i, "V.pcall", pv)
	n := methodProbe[(u+i)%len(methodProbe)]
	if m := pv.MethodByName(n); m.IsValid() {
		out(u, i, "V.mbn", n, m.Type().String())
	} else {
		out(u, i, "V.mbn", n, "absent")
	}
}

func deq(u int, tag string, a, b any) {
	out(u, "deepequal", tag, reflect.DeepEqual(a, b), reflect.DeepEqual(b, a))
}
`

// mode 1: only constant method names reach reflect (the compiler may prune method tables accordingly)
const preludeByName = `
func descT(u int, t reflect.Type, hasFunc bool) {
	out(u, "T", t.Kind().String(), "name="+t.Name(), "str="+t.String(), "pkg="+t.PkgPath(), "nm", t.NumMethod())
	if m, ok := t.MethodByName("Alpha"); ok {
		out(u, "T.mbn Alpha", m.Type.String())
	}
	if _, ok := t.MethodByName("String"); ok {
		out(u, "T.mbn String present")
	}
}

func descV(u, i int, x any) {
	v := reflect.ValueOf(x)
	if !v.IsValid() {
		out(u, i, "V invalid")
		return
	}
	out(u, i, "V", v.Kind().String(), v.Type().String(), v.NumMethod())
	pv := reflect.New(v.Type())
	pv.Elem().Set(v)
	for _, r := range []reflect.Value{v, pv} {
		func() {
			defer func() {
				if rec := recover(); rec != nil {
					out(u, i, "V.call PANIC")
				}
			}()
			if m := r.MethodByName("Beta"); m.IsValid() && m.Type().NumIn() == 0 {
				out(u, i, "V.call Beta", m.Call(nil)[0].String())
			}
			if m := r.MethodByName("Delta"); m.IsValid() && m.Type().NumIn() == 0 {
				out(u, i, "V.call Delta", m.Call(nil)[0].Int())
			}
			if m := r.MethodByName("Name"); m.IsValid() && m.Type().NumIn() == 0 {
				out(u, i, "V.call Name", m.Call(nil)[0].String())
			}
			if m := r.MethodByName("hidden"); m.IsValid() {
				out(u, i, "V.call hidden is visible")
			}
		}()
	}
}

func deq(u int, tag string, a, b any) {
	out(u, "deepequal", tag, reflect.DeepEqual(a, b))
}
`

// mode 2: formatting and structure only, no method queries at all
const preludeFmtOnly = `
func descT(u int, t reflect.Type, hasFunc bool) {
	out(u, "T", t.Kind().String(), "name="+t.Name(), "str="+t.String(), "pkg="+t.PkgPath())
	if t.Kind() == reflect.Struct {
		for i := 0; i < t.NumField(); i++ {
			f := t.Field(i)
			out(u, "T.field", i, f.Name, f.Type.String(), "tag="+string(f.Tag), f.Anonymous, f.Index)
		}
	}
}

func descV(u, i int, x any) {
	v := reflect.ValueOf(x)
	if !v.IsValid() {
		out(u, i, "V invalid")
		return
	}
	out(u, i, "V", v.Kind().String(), v.Type().String(), v.IsZero())
}

func deq(u int, tag string, a, b any) {
	out(u, "deepequal", tag, reflect.DeepEqual(a, b))
}
`
