package c15

// C15: reflect and fmt agree with the reference toolchain.
//
// rapid generates a pool of types in two packages (see gen.go) with 1-3 values each; the generated program
// walks every type with reflect (kind, name, string form, package path, fields with tags / embedding / index
// paths, element and key types, method tables by index and by constant and computed name, implements /
// assignable / convertible relations, composite constructors), exercises the values (getters, Set / Convert /
// Append / MakeMap / MakeSlice / MakeChan round trips, calling every method through Value.Method and through a
// pointer, DeepEqual of equal and different values) and formats them with ~40 fmt verb/flag combinations.
// Three program modes vary which reflect entry points the program mentions at all (full walker / constant
// MethodByName only / formatting only), because llgo prunes method tables from the observed reflect usage.
// The same program built by gc is the oracle; output is compared line by line per unit (one unit per type).
// Excluded by construction (documented difference: function values occupy two words): sizes and offsets of
// types containing func values, and anything that would print an address.

import (
	"fmt"
	"os"
	"path/filepath"
	"regexp"
	"sort"
	"strings"
	"testing"

	"pgregory.net/rapid"
	"verif/harness/progkit"
	vstat "verifstat"
)

type unit struct {
	t     *ty
	vals  []string
	feats []string
	extra string // further statements of the unit function (DeepEqual probes over a generated pointer graph)
}

func genProgram(t *rapid.T) (files map[string]string, units []unit, mode int) {
	p := &pool{t: t, decls: map[string]*strings.Builder{"lib": {}, "main": {}}}
	nlib := rapid.IntRange(2, 6).Draw(t, "nlib")
	nmain := rapid.IntRange(6, 16).Draw(t, "nmain")
	for i := 0; i < nlib+nmain; i++ {
		pkg := "main"
		if i < nlib {
			pkg = "lib"
		}
		nt := p.declare(pkg)
		p.constructors(nt)
		p.types = append(p.types, nt)
	}
	var zrecv *ty
	if rapid.IntRange(0, 3).Draw(t, "zeroSizeReceiver") == 0 {
		zrecv = p.zeroSizeReceiverType()
		p.constructors(zrecv)
		p.types = append(p.types, zrecv)
	}
	if rapid.IntRange(0, 3).Draw(t, "zeroSizeResults") == 0 {
		nt := p.zeroSizeResultType()
		p.constructors(nt)
		p.types = append(p.types, nt)
	}
	for _, nt := range p.types {
		if !visible(nt, "main") {
			continue // unexported type of the other package: reached only through the exported types using it
		}
		u := unit{t: nt}
		q := ""
		if nt.pkg == "lib" {
			q = "lib."
		}
		for k := 0; k < nt.nvals; k++ {
			u.vals = append(u.vals, fmt.Sprintf("%sV%d_%d()", q, nt.id, k))
		}
		for f := range nt.feats {
			u.feats = append(u.feats, f)
		}
		sort.Strings(u.feats)
		units = append(units, u)
	}
	if zrecv != nil {
		pt := &ty{kind: "ptr", elem: zrecv, comp: true}
		units = append(units, unit{t: pt, feats: []string{"unnamed_ptr", "zero_size_receiver"}, vals: []string{p.value(pt, "main", 0, 0), p.value(pt, "main", 0, 1)}})
	}
	// unnamed composites (and plain basics) over the pool
	for i, n := 0, rapid.IntRange(4, 10).Draw(t, "nunnamed"); i < n; i++ {
		ct := p.anyType("main", 0)
		if ct.named() {
			ct = &ty{kind: []string{"slice", "ptr"}[p.pick(2, "wrap")], elem: ct, comp: true, hasFunc: ct.hasFunc}
			if ct.kind == "slice" {
				ct.comp = false
			}
		}
		u := unit{t: ct, feats: []string{"unnamed_" + ct.kind}}
		for k := 0; k < 3; k++ {
			u.vals = append(u.vals, p.value(ct, "main", 0, k))
		}
		units = append(units, u)
	}
	// DeepEqual over generated pointer graphs (cycles, sharing, interior pointers)
	graphDecls := graphTypes
	for i, n := 0, rapid.IntRange(2, 5).Draw(t, "ngraphs"); i < n; i++ {
		decl, body, feats := genGraph(t, len(units))
		graphDecls += decl
		units = append(units, unit{t: basicTy("int"), vals: []string{"int(1)", "int(2)"}, feats: feats, extra: body})
	}
	mode = rapid.IntRange(0, 3).Draw(t, "mode") % 3 // the full walker twice as often
	uniq := func(l []string) string {
		seen := map[string]bool{}
		var o []string
		for _, s := range l {
			if !seen[s] {
				seen[s] = true
				o = append(o, fmt.Sprintf("%q", s))
			}
		}
		return strings.Join(o, ", ")
	}
	var m strings.Builder
	m.WriteString("package main\n\nimport (\n\t\"fmt\"\n\t\"reflect\"\n\t\"strings\"\n\n\t\"c15mod/lib\"\n)\n\nvar _ = lib.Keep\n\n")
	fmt.Fprintf(&m, "var methodProbe = []string{%s, \"Name\", \"Get\", \"Nope\"}\n", uniq(methodNames))
	fmt.Fprintf(&m, "var fieldProbe = []string{%s, \"ID\", \"Nope\"}\n\nvar _, _ = methodProbe, fieldProbe\n", uniq(p.fnames))
	m.WriteString(preludeCommon)
	m.WriteString([]string{preludeFull, preludeByName, preludeFmtOnly}[mode])
	m.WriteString("\n// ---- generated declarations ----\n\n")
	m.WriteString(p.decls["main"].String())
	for i, u := range units {
		te := u.t.in("main")
		fmt.Fprintf(&m, "func unit%d() {\n\tdefer func() {\n\t\tif r := recover(); r != nil {\n\t\t\tout(%d, \"UNIT PANIC\", r)\n\t\t}\n\t}()\n", i, i)
		fmt.Fprintf(&m, "\tdescT(%d, reflect.TypeOf((*%s)(nil)).Elem(), %v)\n", i, te, u.t.hasFunc)
		fmt.Fprintf(&m, "\tvals := []any{%s}\n\tfor i, x := range vals {\n\t\tdescV(%d, i, x)\n\t\tfmtAll(%d, i, x)\n\t}\n", strings.Join(u.vals, ", "), i, i)
		fmt.Fprintf(&m, "\tdeq(%d, \"same\", %s, %s)\n", i, boxed(te, u.vals[0]), boxed(te, u.vals[0]))
		if len(u.vals) > 1 {
			fmt.Fprintf(&m, "\tdeq(%d, \"other\", %s, %s)\n", i, boxed(te, u.vals[0]), boxed(te, u.vals[1]))
		}
		m.WriteString(u.extra)
		m.WriteString("}\n\n")
	}
	m.WriteString(graphDecls)
	m.WriteString("func main() {\n")
	for i := range units {
		fmt.Fprintf(&m, "\tunit%d()\n", i)
	}
	m.WriteString("}\n")
	files = map[string]string{
		"go.mod":     "module c15mod\n\ngo 1.24\n",
		"main.go":    m.String(),
		"lib/lib.go": "package lib\n\nconst Keep = 1\n\n" + p.decls["lib"].String(),
	}
	return
}

func boxed(te, v string) string { return "any(" + v + ")" }

func TestC15Programs(t *testing.T) {
	c := vstat.For("C15")
	defer c.Flush()
	tc := progkit.FromEnv()
	n := 0
	rapid.Check(t, func(t *rapid.T) {
		n++
		files, units, mode := genProgram(t)
		dir := filepath.Join(tc.Work, fmt.Sprintf("c15-%d", n))
		os.RemoveAll(dir)
		defer os.RemoveAll(dir)
		if err := progkit.WriteModule(dir, files); err != nil {
			t.Fatalf("VERIF-INFRA %v", err)
		}
		ref := tc.RunGc(dir, nil)
		if !ref.BuildOK {
			t.Fatalf("VERIF-INFRA generator produced a program gc rejects:\n%s\n%s", tail(ref.BuildOut, 2500), numbered(files["lib/lib.go"]+"\n// ==== main.go\n"+files["main.go"]))
		}
		if ref.Timeout || ref.Code != 0 {
			t.Fatalf("VERIF-INFRA generated program fails under gc (exit %d):\n%s", ref.Code, tail(ref.Out, 1500))
		}
		refUnits := progkit.SplitUnits(ref.Out)
		modeName := []string{"full_walker", "constant_method_names_only", "formatting_only"}[mode]
		for i, u := range units {
			nt := len(u.feats) >= 2
			cls := []string{"types", "mode_" + modeName, "kind_" + u.t.kind}
			for _, f := range u.feats {
				cls = append(cls, "feat_"+f)
			}
			c.Case(vstat.Hash("c15", modeName, u.t.in("main"), strings.Join(refUnits[i], "\n")), nt, cls...)
			if nt {
				c.Sample(map[string]any{"type": u.t.in("main"), "features": u.feats, "mode": modeName, "gc_lines": len(refUnits[i]), "gc_head": head(refUnits[i], 6)})
			}
		}
		c.Class("programs")
		got := tc.RunLlgo(dir, progkit.Config{Opt: "O0"}, nil)
		if got.Skip {
			c.Skip("toolchain_or_build_timeout")
			return
		}
		if !got.BuildOK {
			key := "C15:build"
			if c.IsKnown(key) {
				c.KnownHit(key)
				return
			}
			t.Fatalf("[%s] llgo cannot build a program gc accepts (mode %s):\n%s\n%s", key, modeName, tail(got.BuildOut, 2500), numbered(files["lib/lib.go"]+"\n// ==== main.go\n"+files["main.go"]))
		}
		if got.Timeout {
			c.Skip("run_time_budget")
			return
		}
		gotUnits := progkit.SplitUnits(got.Out)
		for i, u := range units {
			a, b := refUnits[i], gotUnits[i]
			if strings.Join(a, "\n") == strings.Join(b, "\n") {
				continue
			}
			// listed finding: PkgPath of types, fields and methods declared in package main is the module path
			// instead of "main". Only that token is mapped, the remainder of the unit is compared as usual.
			if nb, changed := mainPkgPath(a, b); changed {
				key := "C15:pkgpath-of-package-main"
				if !c.IsKnown(key) {
					t.Fatalf("[%s] mode %s, type %s: reflect reports package path %q for a declaration of package main, gc reports \"main\"", key, modeName, u.t.in("main"), "c15mod")
				}
				c.KnownHit(key)
				b = nb
				if strings.Join(a, "\n") == strings.Join(b, "\n") {
					continue
				}
			}
			// whole-unit classes first: func types are described by two descriptors (listed findings)
			unitKey := ""
			if namedFunc(u.t) {
				unitKey = "C15:named-func-type"
			} else if funcTop(u.t) {
				unitKey = "C15:func-value-set-roundtrip"
			} else if has(u.feats, "zero_size_receiver") {
				unitKey = "C15:call:nil-pointer-receiver-not-dereferenced"
			}
			if unitKey != "" {
				if c.IsKnown(unitKey) {
					c.KnownHit(unitKey)
					continue
				}
			}
			report := func(k int, la, lb string) bool {
				key := "C15:" + queryOf(la, lb)
				if unitKey != "" {
					key = unitKey
				} else if lk := lineKey(u, la, lb); lk != "" {
					key = lk
				}
				if c.IsKnown(key) {
					c.KnownHit(key)
					return true
				}
				t.Fatalf("[%s] mode %s, type %s (features %v): difference at line %d of the unit\n  gc  : %s\n  llgo: %s\n--- declarations ---\n%s", key, modeName, u.t.in("main"), u.feats, k, la, lb, declsOf(files, u))
				return false
			}
			if len(a) == len(b) {
				// same shape: every differing line is judged on its own, so a listed finding on one line does
				// not hide the others
				for k := range a {
					if a[k] != b[k] {
						report(k, a[k], b[k])
					}
				}
				continue
			}
			k := 0
			for k < len(a) && k < len(b) && a[k] == b[k] {
				k++
			}
			la, lb := "<missing>", "<missing>"
			if k < len(a) {
				la = a[k]
			}
			if k < len(b) {
				lb = b[k]
			}
			report(k, la, lb)
		}
		if got.Code != ref.Code || strings.Join(refUnits[-1], "\n") != strings.Join(gotUnits[-1], "\n") {
			key := "C15:process-outcome"
			if c.IsKnown(key) {
				c.KnownHit(key)
				return
			}
			t.Fatalf("[%s] exit code %d (gc %d); output outside units:\n%s", key, got.Code, ref.Code, tail(strings.Join(gotUnits[-1], "\n"), 1500))
		}
	})
}

var mainPathRE = regexp.MustCompile(`(^|[^/A-Za-z0-9_])c15mod\.`)

// mainPkgPath rewrites "pkg=c15mod" to "pkg=main" in the llgo lines whose gc counterpart says "pkg=main".
func mainPkgPath(a, b []string) ([]string, bool) {
	if len(a) != len(b) {
		return b, false
	}
	out := make([]string, len(b))
	changed := false
	for i := range b {
		out[i] = b[i]
		if a[i] != b[i] && (strings.Contains(a[i], "pkg=main") || strings.Contains(a[i], "main.")) {
			fa, fb := strings.Fields(a[i]), strings.Fields(b[i])
			if len(fa) == len(fb) {
				for k := range fb {
					if fb[k] == "pkg=c15mod" && fa[k] == "pkg=main" {
						fb[k] = "pkg=main"
					}
					// type arguments are spelled with the package path: G[c15mod.N] for gc's G[main.N]
					if fb[k] != fa[k] && strings.Contains(fb[k], "c15mod.") && mainPathRE.ReplaceAllString(fb[k], "${1}main.") == fa[k] {
						fb[k] = fa[k]
					}
				}
				if strings.Join(fa, " ") == strings.Join(fb, " ") {
					out[i] = a[i]
					changed = true
				}
			}
		}
	}
	return out, changed
}

// queryOf extracts the name of the reflect query / fmt verb group from an output line "# <unit> [<value>] <query> ...".
func queryOf(la, lb string) string {
	ln := la
	if ln == "<missing>" {
		ln = lb
	}
	f := strings.Fields(ln)
	if len(f) < 3 {
		return "line"
	}
	q := f[2]
	if len(f) > 3 && strings.Trim(q, "0123456789") == "" {
		q = f[3]
	}
	return q
}

// namedFunc: the unit's type is a named func type or a pointer / slice of one.
func namedFunc(t *ty) bool {
	if t.named() {
		return t.kind == "func"
	}
	if (t.kind == "ptr" || t.kind == "slice") && t.elem != nil {
		return namedFunc(t.elem)
	}
	return false
}

// funcTop: the unit's type is an unnamed func type or a pointer / slice of one.
func funcTop(t *ty) bool {
	if t.named() {
		return false
	}
	if t.kind == "func" {
		return true
	}
	if (t.kind == "ptr" || t.kind == "slice") && t.elem != nil {
		return funcTop(t.elem)
	}
	return false
}

// lineKey recognises the listed findings that show on a single line.
func lineKey(u unit, la, lb string) string {
	hasFeat := func(f string) bool {
		for _, x := range u.feats {
			if x == f {
				return true
			}
		}
		return false
	}
	// reflect cannot call a function with a zero-size result (libffi rejects the empty aggregate)
	if (strings.Contains(la, " V.call ") || strings.Contains(la, " V.pcall ")) && strings.Contains(lb, "call PANIC bad type def") && hasFeat("zero_size_result_method") {
		return "C15:call:zero-size-result"
	}
	return ""
}

func declsOf(files map[string]string, u unit) string {
	name := u.t.name
	if name == "" {
		return "(unnamed) " + u.t.in("main") + "  values: " + strings.Join(u.vals, " ; ")
	}
	src := files["main.go"]
	if u.t.pkg == "lib" {
		src = files["lib/lib.go"]
	}
	var keep []string
	on := false
	for _, ln := range strings.Split(src, "\n") {
		if strings.HasPrefix(ln, "type "+name+" ") || strings.HasPrefix(ln, "type "+name+"[") {
			on = true
		}
		if on {
			keep = append(keep, ln)
			if ln == "}" || (strings.HasPrefix(ln, "type ") && !strings.HasSuffix(ln, "{")) {
				on = false
			}
		}
		if strings.Contains(ln, ") "+name+")") || strings.Contains(ln, " *"+name+")") || strings.Contains(ln, " "+name+"[T])") || strings.HasPrefix(ln, fmt.Sprintf("func V%d_", u.t.id)) {
			keep = append(keep, ln)
		}
	}
	return strings.Join(keep, "\n")
}

func has(l []string, s string) bool {
	for _, x := range l {
		if x == s {
			return true
		}
	}
	return false
}

func head(l []string, n int) []string {
	if len(l) > n {
		return l[:n]
	}
	return l
}

func tail(s string, n int) string {
	if len(s) > n {
		return s[len(s)-n:]
	}
	return s
}

func numbered(src string) string {
	var b strings.Builder
	for i, ln := range strings.Split(src, "\n") {
		fmt.Fprintf(&b, "%4d  %s\n", i+1, ln)
	}
	s := b.String()
	if len(s) > 14000 {
		s = s[:14000] + "\n…"
	}
	return s
}

// TestC15GenValid: everything the generator emits is accepted by gc and runs to completion there.
func TestC15GenValid(t *testing.T) {
	tc := progkit.FromEnv()
	n := 0
	rapid.Check(t, func(t *rapid.T) {
		n++
		files, _, _ := genProgram(t)
		dir := filepath.Join(tc.Work, fmt.Sprintf("c15v-%d", n))
		os.RemoveAll(dir)
		defer os.RemoveAll(dir)
		if err := progkit.WriteModule(dir, files); err != nil {
			t.Fatal(err)
		}
		ref := tc.RunGc(dir, nil)
		if !ref.BuildOK {
			t.Fatalf("gc rejects:\n%s\n%s", tail(ref.BuildOut, 2500), numbered(files["lib/lib.go"]+"\n// ==== main.go\n"+files["main.go"]))
		}
		if ref.Timeout || ref.Code != 0 {
			t.Fatalf("fails under gc (exit %d):\n%s", ref.Code, tail(ref.Out, 2500))
		}
	})
}
