package c07

// C07b: dynamic type identity and interface satisfaction in compiled code. Programs made of the generator's
// templates that exercise type descriptors and method tables at run time (type switches and assertions on
// values boxed in another package, sealed interfaces with promoted unexported methods, generic instances with
// same-named local types and composite type arguments from two packages both called "pa", bound methods and
// embedding) are built by gc and by the llgo under test and must print the same tokens.

import (
	"testing"

	"pgregory.net/rapid"
	"verif/harness/gencore"
	"verif/harness/progdiff"
	vstat "verifstat"
)

var wanted = map[string]bool{
	"interfaces": true, "generics": true, "methods_embedding": true, "bound_methods_thunks": true,
	"generic_same_local_name": true, "generic_composite_typearg_two_pkgs": true, "same_names_two_pkgs": true,
	"cross_package_dynamic_type_identity": true, "sealed_interface_promoted_method": true, "many_itabs": true,
	"method_values_same_named_types": true,
}

func TestC07Programs(t *testing.T) {
	c := vstat.For("C07")
	defer c.Flush()
	seq := 0
	rapid.Check(t, func(t *rapid.T) {
		seq++
		prog := gencore.Generate(t, rapid.IntRange(10, 24).Draw(t, "nunits"), func(name string, hazard bool) bool { return wanted[name] })
		progdiff.Run(t, c, "C07", prog, seq)
	})
}
