package c11

// C11b: compiled sync/atomic operations appear in one total order.
//
// rapid draws small litmus programs: 2-4 goroutines, 2-3 shared atomic variables of drawn types (function API
// on int32/int64/uint32/uint64/uintptr, the typed atomic.Int32 ... atomic.Uintptr, atomic.Pointer[T]), 1-3
// operations per goroutine out of Store / Load / Add / Swap / CompareAndSwap, either from the classic shapes
// (store buffering, message passing, load buffering, IRIW, 2+2W, R, S and a 3-thread store-buffering ring) with
// random substitutions, or fully random. The harness enumerates every interleaving of the program under
// sequential consistency and so obtains the exact set of allowed outcomes (all registers + final values). The
// program compiled by the llgo under test runs the litmus for many rounds on real hardware threads (llgo
// goroutines are pthreads), released together by a spin barrier, and prints the histogram of outcomes; every
// observed outcome must be in the allowed set, the counts must add up to the number of rounds.
//
// One-sided by nature: a forbidden outcome is proof of a violation, its absence is not proof of order. There is
// no reference compiler involved; the oracle is the interleaving model.

import (
	"fmt"
	"os"
	"path/filepath"
	"sort"
	"strconv"
	"strings"
	"testing"

	"pgregory.net/rapid"
	"verif/harness/progkit"
	vstat "verifstat"
)

const (
	opStore = iota
	opLoad
	opAdd
	opSwap
	opCAS
)

type op struct {
	Kind int
	Var  int
	A, B int // store/swap value, add delta, cas old/new
}

type litmus struct {
	Shape   string
	Types   []string // per variable
	Threads [][]op
}

var varTypes = []string{"int32", "int64", "uint32", "uint64", "uintptr", "atomic.Int32", "atomic.Int64", "atomic.Uint32", "atomic.Uint64", "atomic.Uintptr", "atomic.Pointer"}

func st(v, c int) op { return op{Kind: opStore, Var: v, A: c} }
func ld(v int) op    { return op{Kind: opLoad, Var: v} }

var shapes = map[string][][]op{
	"SB":    {{st(0, 1), ld(1)}, {st(1, 1), ld(0)}},
	"SB3":   {{st(0, 1), ld(1)}, {st(1, 1), ld(2)}, {st(2, 1), ld(0)}},
	"MP":    {{st(0, 1), st(1, 1)}, {ld(1), ld(0)}},
	"LB":    {{ld(0), st(1, 1)}, {ld(1), st(0, 1)}},
	"IRIW":  {{st(0, 1)}, {st(1, 1)}, {ld(0), ld(1)}, {ld(1), ld(0)}},
	"2+2W":  {{st(0, 1), st(1, 2)}, {st(1, 1), st(0, 2)}},
	"R":     {{st(0, 1), st(1, 1)}, {st(1, 2), ld(0)}},
	"S":     {{st(0, 2), st(1, 1)}, {ld(1), st(0, 1)}},
	"SBfwd": {{st(0, 1), ld(0), ld(1)}, {st(1, 1), ld(1), ld(0)}},
	"WRC":   {{st(0, 1)}, {ld(0), st(1, 1)}, {ld(1), ld(0)}},
}

func genLitmus(t *rapid.T) litmus {
	var l litmus
	names := make([]string, 0, len(shapes))
	for k := range shapes {
		names = append(names, k)
	}
	sort.Strings(names)
	nv := 0
	if rapid.IntRange(0, 2).Draw(t, "fromShape") > 0 {
		// the store-then-load shapes are the ones a total order weaker than required shows in on x86-64 (TSO):
		// they get half of the draws
		if rapid.Bool().Draw(t, "storeLoadFamily") {
			names = []string{"SB", "SB3", "SBfwd", "R"}
		}
		l.Shape = rapid.SampledFrom(names).Draw(t, "shape")
		for _, th := range shapes[l.Shape] {
			l.Threads = append(l.Threads, append([]op(nil), th...))
		}
		// substitutions that keep the shape's point: a plain store may become a swap, a load an add of 0
		for ti := range l.Threads {
			for oi := range l.Threads[ti] {
				o := &l.Threads[ti][oi]
				if rapid.IntRange(0, 5).Draw(t, "subst") == 0 {
					if o.Kind == opStore {
						o.Kind = opSwap
					} else if o.Kind == opLoad {
						o.Kind, o.A = opAdd, 0
					}
					l.Shape += "~"
				}
			}
		}
	} else {
		l.Shape = "random"
		nt := rapid.IntRange(2, 3).Draw(t, "nthreads")
		nvars := rapid.IntRange(2, 3).Draw(t, "nvars")
		for ti := 0; ti < nt; ti++ {
			var th []op
			for oi, n := 0, rapid.IntRange(1, 3).Draw(t, "nops"); oi < n; oi++ {
				k := []int{opStore, opStore, opLoad, opLoad, opLoad, opAdd, opSwap, opCAS}[rapid.IntRange(0, 7).Draw(t, "kind")]
				o := op{Kind: k, Var: rapid.IntRange(0, nvars-1).Draw(t, "var")}
				switch k {
				case opStore, opSwap:
					o.A = rapid.IntRange(1, 3).Draw(t, "val")
				case opAdd:
					o.A = rapid.IntRange(0, 2).Draw(t, "delta")
				case opCAS:
					o.A, o.B = rapid.IntRange(0, 2).Draw(t, "old"), rapid.IntRange(1, 3).Draw(t, "new")
				}
				th = append(th, o)
			}
			l.Threads = append(l.Threads, th)
		}
	}
	for _, th := range l.Threads {
		for _, o := range th {
			if o.Var+1 > nv {
				nv = o.Var + 1
			}
		}
	}
	for v := 0; v < nv; v++ {
		ty := rapid.SampledFrom(varTypes).Draw(t, "type")
		if ty == "atomic.Pointer" {
			// pointers have no Add, and a value is one of 4 cells
			for _, th := range l.Threads {
				for _, o := range th {
					if o.Var == v && o.Kind == opAdd {
						ty = "uintptr"
					}
				}
			}
		}
		l.Types = append(l.Types, ty)
	}
	return l
}

// allowed enumerates all interleavings under sequential consistency; an outcome is the registers of every
// thread in program order followed by the final value of every variable.
func allowed(l litmus) map[string]bool {
	out := map[string]bool{}
	nt := len(l.Threads)
	pc := make([]int, nt)
	vars := make([]int, len(l.Types))
	regs := make([][]int, nt)
	var rec func()
	rec = func() {
		done := true
		for ti := 0; ti < nt; ti++ {
			if pc[ti] >= len(l.Threads[ti]) {
				continue
			}
			done = false
			o := l.Threads[ti][pc[ti]]
			old := vars[o.Var]
			nreg := len(regs[ti])
			switch o.Kind {
			case opStore:
				vars[o.Var] = o.A
			case opLoad:
				regs[ti] = append(regs[ti], old)
			case opAdd:
				vars[o.Var] = old + o.A
				regs[ti] = append(regs[ti], vars[o.Var])
			case opSwap:
				vars[o.Var] = o.A
				regs[ti] = append(regs[ti], old)
			case opCAS:
				if old == o.A {
					vars[o.Var] = o.B
					regs[ti] = append(regs[ti], 1)
				} else {
					regs[ti] = append(regs[ti], 0)
				}
			}
			pc[ti]++
			rec()
			pc[ti]--
			vars[o.Var] = old
			regs[ti] = regs[ti][:nreg]
		}
		if done {
			var vals []int
			for ti := range regs {
				vals = append(vals, regs[ti]...)
			}
			vals = append(vals, vars...)
			out[fmt.Sprint(vals)] = true
		}
	}
	rec()
	return out
}

func nregs(th []op) int {
	n := 0
	for _, o := range th {
		if o.Kind != opStore {
			n++
		}
	}
	return n
}

// storeThenLoadElsewhere: some thread stores to one variable and later loads another one that a different
// thread writes - the shape in which anything weaker than a total order over all operations becomes visible.
func storeThenLoadElsewhere(l litmus) bool {
	for ti, th := range l.Threads {
		for i, a := range th {
			if a.Kind != opStore {
				continue
			}
			for _, b := range th[i+1:] {
				if b.Kind != opLoad || b.Var == a.Var {
					continue
				}
				for tj, other := range l.Threads {
					if tj == ti {
						continue
					}
					for _, c := range other {
						if c.Var == b.Var && c.Kind != opLoad {
							return true
						}
					}
				}
			}
		}
	}
	return false
}

func goSource(l litmus, rounds int) string {
	var b strings.Builder
	b.WriteString("package main\n\nimport (\n\t\"sync/atomic\"\n\t_ \"unsafe\"\n)\n\n//go:linkname yield C.sched_yield\nfunc yield() int32\n\n")
	fmt.Fprintf(&b, "const rounds = %d\n\nvar cells [4]int32\n\nfunc pv(k int) *int32 {\n\tif k == 0 {\n\t\treturn nil\n\t}\n\treturn &cells[k]\n}\n\nfunc pidx(p *int32) int64 {\n\tfor k := 1; k < 4; k++ {\n\t\tif p == &cells[k] {\n\t\t\treturn int64(k)\n\t\t}\n\t}\n\tif p == nil {\n\t\treturn 0\n\t}\n\treturn 31\n}\n\n", rounds)
	// padding between the variables keeps them on different cache lines, as litmus tests do
	for v, ty := range l.Types {
		decl := ty
		if ty == "atomic.Pointer" {
			decl = "atomic.Pointer[int32]"
		}
		fmt.Fprintf(&b, "var x%d %s\nvar pad%d [15]uint64\n", v, decl, v)
	}
	b.WriteString("\nvar start, done uint32\nvar pad [15]uint64\n\n")
	fmt.Fprintf(&b, "var regs [%d][16]int64 // one cache line apart\n\n", len(l.Threads))
	fn := func(ty string) string { return strings.ToUpper(ty[:1]) + ty[1:] }
	for ti, th := range l.Threads {
		fmt.Fprintf(&b, "func worker%d(fin chan int) {\n\tfor r := uint32(1); r <= rounds; r++ {\n\t\tfor n := 0; atomic.LoadUint32(&start) != r; n++ {\n\t\t\tif n > 2000 {\n\t\t\t\tyield()\n\t\t\t}\n\t\t}\n", ti)
		ri := 0
		for _, o := range th {
			ty := l.Types[o.Var]
			x := fmt.Sprintf("x%d", o.Var)
			var call string
			reg := ""
			switch {
			case ty == "atomic.Pointer":
				switch o.Kind {
				case opStore:
					call = fmt.Sprintf("%s.Store(pv(%d))", x, o.A)
				case opLoad:
					reg = fmt.Sprintf("pidx(%s.Load())", x)
				case opSwap:
					reg = fmt.Sprintf("pidx(%s.Swap(pv(%d)))", x, o.A)
				case opCAS:
					reg = fmt.Sprintf("b2i(%s.CompareAndSwap(pv(%d), pv(%d)))", x, o.A, o.B)
				}
			case strings.HasPrefix(ty, "atomic."):
				switch o.Kind {
				case opStore:
					call = fmt.Sprintf("%s.Store(%d)", x, o.A)
				case opLoad:
					reg = fmt.Sprintf("int64(%s.Load())", x)
				case opAdd:
					reg = fmt.Sprintf("int64(%s.Add(%d))", x, o.A)
				case opSwap:
					reg = fmt.Sprintf("int64(%s.Swap(%d))", x, o.A)
				case opCAS:
					reg = fmt.Sprintf("b2i(%s.CompareAndSwap(%d, %d))", x, o.A, o.B)
				}
			default:
				switch o.Kind {
				case opStore:
					call = fmt.Sprintf("atomic.Store%s(&%s, %d)", fn(ty), x, o.A)
				case opLoad:
					reg = fmt.Sprintf("int64(atomic.Load%s(&%s))", fn(ty), x)
				case opAdd:
					reg = fmt.Sprintf("int64(atomic.Add%s(&%s, %d))", fn(ty), x, o.A)
				case opSwap:
					reg = fmt.Sprintf("int64(atomic.Swap%s(&%s, %d))", fn(ty), x, o.A)
				case opCAS:
					reg = fmt.Sprintf("b2i(atomic.CompareAndSwap%s(&%s, %d, %d))", fn(ty), x, o.A, o.B)
				}
			}
			if reg != "" {
				fmt.Fprintf(&b, "\t\tr%d := %s\n", ri, reg)
				ri++
			} else {
				fmt.Fprintf(&b, "\t\t%s\n", call)
			}
		}
		for k := 0; k < ri; k++ {
			fmt.Fprintf(&b, "\t\tregs[%d][%d] = r%d\n", ti, k, k)
		}
		b.WriteString("\t\tatomic.AddUint32(&done, 1)\n\t}\n\tfin <- 1\n}\n\n")
	}
	b.WriteString("func b2i(ok bool) int64 {\n\tif ok {\n\t\treturn 1\n\t}\n\treturn 0\n}\n\nfunc main() {\n\tfin := make(chan int)\n\tcounts := map[uint64]int{}\n")
	for ti := range l.Threads {
		fmt.Fprintf(&b, "\tgo worker%d(fin)\n", ti)
	}
	b.WriteString("\tfor r := uint32(1); r <= rounds; r++ {\n")
	for v, ty := range l.Types {
		switch {
		case ty == "atomic.Pointer":
			fmt.Fprintf(&b, "\t\tx%d.Store(nil)\n", v)
		case strings.HasPrefix(ty, "atomic."):
			fmt.Fprintf(&b, "\t\tx%d.Store(0)\n", v)
		default:
			fmt.Fprintf(&b, "\t\tatomic.Store%s(&x%d, 0)\n", fn(ty), v)
		}
	}
	fmt.Fprintf(&b, "\t\tatomic.StoreUint32(&done, 0)\n\t\tatomic.StoreUint32(&start, r)\n\t\tfor n := 0; atomic.LoadUint32(&done) != %d; n++ {\n\t\t\tif n > 2000 {\n\t\t\t\tyield()\n\t\t\t}\n\t\t}\n\t\tvar key uint64\n", len(l.Threads))
	for ti, th := range l.Threads {
		for k := 0; k < nregs(th); k++ {
			fmt.Fprintf(&b, "\t\tkey = key<<5 | uint64(regs[%d][%d])&31\n", ti, k)
		}
	}
	for v, ty := range l.Types {
		switch {
		case ty == "atomic.Pointer":
			fmt.Fprintf(&b, "\t\tkey = key<<5 | uint64(pidx(x%d.Load()))&31\n", v)
		case strings.HasPrefix(ty, "atomic."):
			fmt.Fprintf(&b, "\t\tkey = key<<5 | uint64(x%d.Load())&31\n", v)
		default:
			fmt.Fprintf(&b, "\t\tkey = key<<5 | uint64(atomic.Load%s(&x%d))&31\n", fn(ty), v)
		}
	}
	b.WriteString("\t\tcounts[key]++\n\t}\n")
	for range l.Threads {
		b.WriteString("\t<-fin\n")
	}
	b.WriteString("\tfor k, n := range counts {\n\t\tprintln(\"#\", k, n)\n\t}\n}\n")
	return b.String()
}

func decode(key uint64, n int) []int {
	vals := make([]int, n)
	for i := n - 1; i >= 0; i-- {
		vals[i] = int(key & 31)
		key >>= 5
	}
	return vals
}

func describe(l litmus) string {
	var b strings.Builder
	fmt.Fprintf(&b, "shape %s, variables %v\n", l.Shape, l.Types)
	for ti, th := range l.Threads {
		fmt.Fprintf(&b, "  T%d:", ti)
		for _, o := range th {
			x := fmt.Sprintf("x%d", o.Var)
			switch o.Kind {
			case opStore:
				fmt.Fprintf(&b, " Store(%s,%d);", x, o.A)
			case opLoad:
				fmt.Fprintf(&b, " r=Load(%s);", x)
			case opAdd:
				fmt.Fprintf(&b, " r=Add(%s,%d);", x, o.A)
			case opSwap:
				fmt.Fprintf(&b, " r=Swap(%s,%d);", x, o.A)
			case opCAS:
				fmt.Fprintf(&b, " r=CAS(%s,%d,%d);", x, o.A, o.B)
			}
		}
		b.WriteString("\n")
	}
	return b.String()
}

func TestC11Litmus(t *testing.T) {
	c := vstat.For("C11")
	defer c.Flush()
	tc := progkit.FromEnv()
	rounds := 60000
	cfgs := []progkit.Config{{Opt: "O0"}, {Opt: "O2"}}
	if os.Getenv("VERIF_TIER") == "thorough" {
		rounds = 400000
		cfgs = append(cfgs, progkit.Config{Opt: "Oz"})
	}
	n := 0
	rapid.Check(t, func(t *rapid.T) {
		n++
		l := genLitmus(t)
		ok := allowed(l)
		nvals := len(l.Types)
		for _, th := range l.Threads {
			nvals += nregs(th)
		}
		if nvals > 12 {
			c.Skip("more_than_12_observed_values")
			return
		}
		nt := storeThenLoadElsewhere(l)
		c.Case(vstat.Hash("c11b", describe(l)), nt, "litmus", "shape_"+strings.TrimRight(l.Shape, "~"), fmt.Sprintf("threads_%d", len(l.Threads)))
		for _, ty := range l.Types {
			c.Class("type_" + ty)
		}
		if nt {
			c.Sample(map[string]any{"litmus": describe(l), "sc_outcomes": len(ok)})
		}
		dir := filepath.Join(tc.Work, fmt.Sprintf("c11b-%d", n))
		os.RemoveAll(dir)
		defer os.RemoveAll(dir)
		src := goSource(l, rounds)
		if err := progkit.WriteModule(dir, map[string]string{"go.mod": "module litmus\n\ngo 1.24\n", "main.go": src}); err != nil {
			t.Fatalf("VERIF-INFRA %v", err)
		}
		for _, cfg := range cfgs {
			got := tc.RunLlgo(dir, cfg, nil)
			if got.Skip {
				c.Skip("toolchain_or_build_timeout:" + cfg.String())
				continue
			}
			if !got.BuildOK {
				t.Fatalf("[C11:litmus-build] llgo %s cannot build the litmus program:\n%s\n%s", cfg, tail(got.BuildOut, 1500), src)
			}
			if got.Timeout {
				c.Skip("run_time_budget:" + cfg.String())
				continue
			}
			total := 0
			for _, ln := range strings.Split(got.Out, "\n") {
				f := strings.Fields(ln)
				if len(f) != 3 || f[0] != "#" {
					continue
				}
				key, err1 := strconv.ParseUint(f[1], 10, 64)
				cnt, err2 := strconv.Atoi(f[2])
				if err1 != nil || err2 != nil {
					continue
				}
				total += cnt
				vals := decode(key, nvals)
				if !ok[fmt.Sprint(vals)] {
					key := "C11:atomics-not-in-one-total-order"
					if c.IsKnown(key) {
						c.KnownHit(key)
						continue
					}
					t.Fatalf("[%s] llgo %s: outcome %v (registers in thread order, then final values) observed %d times in %d rounds, but no interleaving of the operations produces it (%d outcomes are possible)\n%s", key, cfg, vals, cnt, rounds, len(ok), describe(l))
				}
			}
			if got.Code != 0 || total != rounds {
				t.Fatalf("[C11:litmus-run] llgo %s: exit code %d, %d of %d rounds reported\n%s\n%s", cfg, got.Code, total, rounds, tail(got.Out, 800), describe(l))
			}
			c.Class("runs_" + cfg.String())
		}
	})
}

func tail(s string, n int) string {
	if len(s) > n {
		return s[len(s)-n:]
	}
	return s
}
