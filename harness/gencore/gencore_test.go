package gencore

import (
	"fmt"
	"os"
	"os/exec"
	"path/filepath"
	"strings"
	"testing"

	"pgregory.net/rapid"
)

// TestGenValid: every generated module must be accepted by gc, terminate, and print one line per unit.
func TestGenValid(t *testing.T) {
	base := t.TempDir()
	n := 0
	rapid.Check(t, func(t *rapid.T) {
		n++
		p := Generate(t, 30, nil)
		dir := filepath.Join(base, fmt.Sprint("m", n%4))
		os.RemoveAll(dir)
		for rel, src := range p.Files {
			f := filepath.Join(dir, rel)
			os.MkdirAll(filepath.Dir(f), 0o755)
			os.WriteFile(f, []byte(src), 0o644)
		}
		cmd := exec.Command("go", "build", "-o", filepath.Join(dir, "prog"), ".")
		cmd.Dir = dir
		if out, err := cmd.CombinedOutput(); err != nil {
			t.Fatalf("gc rejects generated module: %s\n%s", out, numberedMain(p.Files["main.go"]))
		}
		out, _ := exec.Command(filepath.Join(dir, "prog")).CombinedOutput()
		for _, u := range p.Units {
			if !containsLine(string(out), fmt.Sprintf("#%d ", u.ID)) {
				t.Fatalf("unit %d (%s) printed nothing:\n%s", u.ID, u.Template, out)
			}
		}
	})
}

func containsLine(out, prefix string) bool {
	for i := 0; i+len(prefix) <= len(out); i++ {
		if (i == 0 || out[i-1] == '\n') && out[i:i+len(prefix)] == prefix {
			return true
		}
	}
	return false
}

func numberedMain(src string) string {
	var b strings.Builder
	for i, ln := range strings.Split(src, "\n") {
		fmt.Fprintf(&b, "%4d  %s\n", i+1, ln)
	}
	return b.String()
}
