// Package gencore generates import-free multi-package Go programs for the compiled differential
// checks (C01 core language, C14 link names).  A program is a set of independent units; every unit is
// an instance of a template (a parametrised construct of the core language) whose constants, types,
// nesting and package placement are rapid draws.  Units print tagged lines ("#<unit> …") with println,
// are deterministic, and stay inside specified behaviour (no map-order, address or float-format
// dependence), so gc's output of the same program is the oracle.
package gencore

import (
	"fmt"
	"sort"
	"strings"

	"pgregory.net/rapid"
)

type Program struct {
	Files map[string]string
	Units []Unit
	Tail  string // how main ends: "normal", "panic", "fault"
}

type Unit struct {
	ID       int
	Template string
	Pkg      string
	Hazard   bool // contains a link-name hazard (same short names with different qualified identity)
}

// Module path contains a dot and a nested element on purpose ("a.b/c" vs "a/b.c" style names).
const Mod = "ex.io/m.v"

type G struct {
	t     *rapid.T
	pkgs  []string // non-main package dirs
	decl  map[string]*strings.Builder
	uses  map[string]map[string]bool // pkg -> imported pkgs
	main  strings.Builder
	units []Unit
}

func (g *G) n(lo, hi int, label string) int       { return rapid.IntRange(lo, hi).Draw(g.t, label) }
func (g *G) pick(l []string, label string) string { return rapid.SampledFrom(l).Draw(g.t, label) }
func (g *G) pkg(label string) string              { return g.pkgs[g.n(0, len(g.pkgs)-1, label)] }

// dep returns a package that p may import without creating a cycle: one that comes later in the
// list (main may import any), or p itself when there is none.
func (g *G) dep(p, label string) string {
	lo := 0
	for i, q := range g.pkgs {
		if q == p {
			lo = i + 1
		}
	}
	if lo >= len(g.pkgs) {
		return p
	}
	return g.pkgs[g.n(lo, len(g.pkgs)-1, label)]
}

func pkgName(dir string) string {
	if i := strings.LastIndex(dir, "/"); i >= 0 {
		return dir[i+1:]
	}
	return dir
}

func (g *G) add(pkg, src string) { g.decl[pkg].WriteString(src + "\n") }
func (g *G) use(from, to string) {
	if from != to {
		g.uses[from][to] = true
	}
}

type template struct {
	name   string
	hazard bool
	gen    func(g *G, u int) (pkg string)
}

// Generate draws a program of n units; only templates whose name passes filter (nil = all) are used.
func Generate(t *rapid.T, nunits int, filter func(name string, hazard bool) bool) Program {
	g := &G{t: t, pkgs: []string{"pa", "q.r/pa", "pb", "pc/sub"}, decl: map[string]*strings.Builder{}, uses: map[string]map[string]bool{}}
	for _, p := range append([]string{"main"}, g.pkgs...) {
		g.decl[p] = &strings.Builder{}
		g.uses[p] = map[string]bool{}
	}
	var ts []template
	for _, tp := range templates {
		if filter == nil || filter(tp.name, tp.hazard) {
			ts = append(ts, tp)
		}
	}
	for u := 0; u < nunits; u++ {
		tp := ts[g.n(0, len(ts)-1, "template")]
		pkg := tp.gen(g, u)
		g.units = append(g.units, Unit{ID: u, Template: tp.name, Pkg: pkg, Hazard: tp.hazard})
		if pkg == "main" {
			fmt.Fprintf(&g.main, "\tU%d()\n", u)
		} else {
			g.use("main", pkg)
			fmt.Fprintf(&g.main, "\t%s.U%d()\n", alias(pkg), u)
		}
	}
	tail := rapid.SampledFrom([]string{"normal", "normal", "normal", "normal", "panic", "fault", "goexit-free-deadlock-free"}).Draw(t, "tail")
	switch tail {
	case "panic":
		g.main.WriteString("\tpanic(\"final\")\n")
	case "fault":
		g.main.WriteString("\tvar z []int\n\tprintln(z[len(z)+1])\n")
	default:
		tail = "normal"
	}
	files := map[string]string{"go.mod": "module " + Mod + "\n\ngo 1.24\n"}
	for p, b := range g.decl {
		var hdr strings.Builder
		name := pkgName(p)
		fmt.Fprintf(&hdr, "package %s\n\n", name)
		var imps []string
		for q := range g.uses[p] {
			imps = append(imps, q)
		}
		sort.Strings(imps)
		for _, q := range imps {
			fmt.Fprintf(&hdr, "import %s %q\n", alias(q), Mod+"/"+q)
		}
		body := b.String()
		if p == "main" {
			body += "\nfunc main() {\n" + g.main.String() + "}\n"
			files["main.go"] = hdr.String() + "\n" + body
		} else if strings.TrimSpace(body) != "" || len(imps) > 0 {
			files[p+"/"+name+".go"] = hdr.String() + "\n" + body
		} else {
			files[p+"/"+name+".go"] = hdr.String()
		}
	}
	return Program{Files: files, Units: g.units, Tail: tail}
}

// alias gives every package a distinct local name (two packages are both called "pa").
func alias(dir string) string {
	return "x_" + strings.NewReplacer("/", "_", ".", "_").Replace(dir)
}

// q qualifies identifier id of package `of` as seen from package `from`.
func (g *G) q(from, of, id string) string {
	if from == of {
		return id
	}
	g.use(from, of)
	return alias(of) + "." + id
}

var intTypes = []string{"int", "int8", "int16", "int32", "int64", "uint8", "uint16", "uint32", "uint64"}

var templates = []template{
	{"control_flow", false, func(g *G, u int) string {
		p := g.pkgOrMain()
		a, b, c := g.n(1, 9, "a"), g.n(2, 7, "b"), g.n(0, 5, "c")
		g.add(p, fmt.Sprintf(`func U%[1]d() {
	s := 0
outer:
	for i := 0; i < %[2]d; i++ {
		for j := 0; j < %[3]d; j++ {
			switch {
			case (i+j)%%3 == %[4]d%%3:
				continue outer
			case i*j > %[2]d:
				break outer
			case j == 1:
				s += 100
				fallthrough
			case j == 2:
				s += 7
			default:
				s += i - j
			}
		}
		if i%%2 == 0 {
			goto next
		}
		s *= 2
	next:
		s++
	}
	println("#%[1]d", s)
}
`, u, a+2, b, c))
		return p
	}},
	{"closure_capture", false, func(g *G, u int) string {
		p := g.pkgOrMain()
		n, k := g.n(2, 6, "n"), g.n(1, 5, "k")
		g.add(p, fmt.Sprintf(`func U%[1]d() {
	var fs []func() int
	acc := 0
	for i := 0; i < %[2]d; i++ { // per-iteration variable
		fs = append(fs, func() int { acc += i; return i * %[3]d })
	}
	x := 1
	inc := func() func() int { return func() int { x += %[3]d; return x } }()
	sum := 0
	for _, f := range fs {
		sum += f() + inc()
	}
	shared := 0
	g := func() { shared++ }
	g()
	g()
	println("#%[1]d", sum, acc, x, shared)
}
`, u, n, k))
		return p
	}},
	{"closure_cross_pkg", true, func(g *G, u int) string {
		p := g.pkgOrMain()
		o := g.dep(p, "other")
		k := g.n(2, 9, "k")
		g.add(o, fmt.Sprintf(`type H%[1]d struct{ F func(int) int; N int }

func Apply%[1]d(h H%[1]d, v int) int { return h.F(v) + h.N }

func Mk%[1]d(base int) func(int) int { return func(d int) int { base += d; return base } }
`, u))
		g.add(p, fmt.Sprintf(`var v%[1]d = func() int { c := %[4]s(%[2]d); return c(1) + c(2) }() // closure inside a package-level initialiser

func U%[1]d() {
	m := %[2]d
	h := %[3]s{F: func(v int) int { m += v; return m * 2 }, N: 3}
	println("#%[1]d", %[5]s(h, 4), %[5]s(h, 5), m, v%[1]d)
}
`, u, k, g.q(p, o, fmt.Sprintf("H%d", u)), g.q(p, o, fmt.Sprintf("Mk%d", u)), g.q(p, o, fmt.Sprintf("Apply%d", u))))
		return p
	}},
	{"methods_embedding", true, func(g *G, u int) string {
		p := g.pkgOrMain()
		a, b := g.n(1, 20, "a"), g.n(1, 20, "b")
		g.add(p, fmt.Sprintf(`type B%[1]d struct{ v int }

func (b B%[1]d) Get() int   { return b.v }
func (b *B%[1]d) Set(x int) { b.v = x }
func (b B%[1]d) Name() int  { return 1 }

type P%[1]d struct{ w int }

func (p *P%[1]d) Get() int  { return p.w * 10 }
func (p *P%[1]d) Name() int { return 2 }

type D%[1]d struct {
	B%[1]d
	*P%[1]d
	extra int
}

func (d D%[1]d) Name() int { return 3 } // shadows both promoted methods

type E%[1]d struct{ B%[1]d }

func U%[1]d() {
	d := D%[1]d{B%[1]d{%[2]d}, &P%[1]d{%[3]d}, 0}
	d.Set(d.B%[1]d.Get() + 1) // promoted through the embedded value
	e := E%[1]d{B%[1]d{5}}
	f := e.Get   // method value binds a copy
	e.v = 9
	g := (*B%[1]d).Set // method expression
	g(&e.B%[1]d, 11)
	h := B%[1]d.Get
	println("#%[1]d", d.B%[1]d.Get(), d.P%[1]d.Get(), d.Name(), d.B%[1]d.Name(), f(), e.Get(), h(e.B%[1]d), e.Name())
}
`, u, a, b))
		return p
	}},
	{"interfaces", false, func(g *G, u int) string {
		p := g.pkgOrMain()
		a := g.n(1, 50, "a")
		g.add(p, fmt.Sprintf(`type S%[1]d interface{ Area() int }
type N%[1]d interface {
	S%[1]d
	Label() string
}
type sq%[1]d struct{ s int }
type rc%[1]d struct{ w, h int }

func (s sq%[1]d) Area() int      { return s.s * s.s }
func (s sq%[1]d) Label() string  { return "sq" }
func (r *rc%[1]d) Area() int     { return r.w * r.h }

func kind%[1]d(x any) int {
	switch v := x.(type) {
	case nil:
		return 0
	case N%[1]d:
		return 10 + len(v.Label())
	case S%[1]d:
		return 20 + v.Area()%%7
	case int, int64:
		return 30
	case []int:
		return 40 + len(v)
	case func() int:
		return 50 + v()
	}
	return 99
}

func U%[1]d() {
	var shapes = []S%[1]d{sq%[1]d{%[2]d}, &rc%[1]d{2, %[2]d}}
	t := 0
	for _, s := range shapes {
		t += s.Area()
	}
	var np *rc%[1]d
	var s S%[1]d = np // nil pointer inside a non-nil interface
	var z S%[1]d
	_, ok1 := shapes[0].(N%[1]d)
	_, ok2 := shapes[1].(N%[1]d)
	println("#%[1]d", t, s == nil, z == nil, ok1, ok2, kind%[1]d(shapes[0]), kind%[1]d(shapes[1]), kind%[1]d(nil), kind%[1]d(int64(1)), kind%[1]d([]int{1, 2}), kind%[1]d(func() int { return 4 }), kind%[1]d("s"))
}
`, u, a))
		return p
	}},
	{"generics", true, func(g *G, u int) string {
		p := g.pkgOrMain()
		o := g.dep(p, "lib")
		t1 := g.pick(intTypes, "t1")
		g.add(o, fmt.Sprintf(`type Num%[1]d interface{ ~int | ~int8 | ~int16 | ~int32 | ~int64 | ~uint8 | ~uint16 | ~uint32 | ~uint64 | ~float64 }

func Sum%[1]d[T Num%[1]d](xs ...T) (s T) {
	for _, x := range xs {
		s += x
	}
	return
}

type Stack%[1]d[T any] struct{ items []T }

func (s *Stack%[1]d[T]) Push(v T)  { s.items = append(s.items, v) }
func (s *Stack%[1]d[T]) Pop() (v T) {
	v = s.items[len(s.items)-1]
	s.items = s.items[:len(s.items)-1]
	return
}
func Map%[1]d[T, R any](xs []T, f func(T) R) []R {
	var out []R
	for _, x := range xs {
		out = append(out, f(x))
	}
	return out
}
func Tag%[1]d[T any](v T) int {
	switch any(v).(type) {
	case int:
		return 1
	case string:
		return 2
	}
	return 3
}
`, u))
		g.add(p, fmt.Sprintf(`type my%[1]d %[2]s

func U%[1]d() {
	type local struct{ a, b int } // a function-local type as type argument
	st := &%[3]s[local]{}
	st.Push(local{1, 2})
	st.Push(local{3, 4})
	top := st.Pop()
	ss := &%[3]s[string]{}
	ss.Push("x")
	ls := %[4]s([]my%[1]d{1, 2, 3}, func(m my%[1]d) string { return string(rune('a' + int(m))) })
	println("#%[1]d", %[5]s[my%[1]d](1, 2, 3), %[5]s(1.5, 2.5) == 4.0, top.a+top.b, ss.Pop(), len(ls), ls[2], %[6]s(1), %[6]s("s"), %[6]s(top))
}
`, u, t1, g.q(p, o, fmt.Sprintf("Stack%d", u)), g.q(p, o, fmt.Sprintf("Map%d", u)), g.q(p, o, fmt.Sprintf("Sum%d", u)), g.q(p, o, fmt.Sprintf("Tag%d", u))))
		return p
	}},
	{"generic_same_local_name", true, func(g *G, u int) string {
		// two packages instantiate one generic with function-local types of the same name
		a, b, lib := "pa", "q.r/pa", "pb"
		g.add(lib, fmt.Sprintf(`type Box%[1]d[T any] struct{ V T }

func (b Box%[1]d[T]) Get() T { return b.V }

func Id%[1]d[T any](v T) any { return v }
`, u))
		for i, p := range []string{a, b} {
			g.add(p, fmt.Sprintf(`func F%[1]d() (int, any) {
	type T struct{ x int%[2]s }
	b := %[3]s[T]{T{x: %[4]d}}
	return b.Get().x, %[5]s(b.Get())
}
`, u, []string{"", "; y int"}[i], g.q(p, lib, fmt.Sprintf("Box%d", u)), 10+i, g.q(p, lib, fmt.Sprintf("Id%d", u))))
		}
		g.add("main", fmt.Sprintf(`func U%[1]d() {
	x, ax := %[2]s()
	y, ay := %[3]s()
	println("#%[1]d", x, y, ax == ay)
}
`, u, g.q("main", a, fmt.Sprintf("F%d", u)), g.q("main", b, fmt.Sprintf("F%d", u))))
		return "main"
	}},
	{"generic_composite_typearg_two_pkgs", true, func(g *G, u int) string {
		// two packages with the same name instantiate generics of a third one with UNNAMED composite type
		// arguments (struct, func and interface literals) that mention their own, equally named types
		a, b, lib := "pa", "q.r/pa", "pb"
		g.add(lib, fmt.Sprintf(`func Zero%[1]d[T any]() any { var z T; return z }

func Pass%[1]d[T any](v T) T { w := v; return w }

type Hold%[1]d[T any] struct {
	V    T
	Tail int
}

func (h Hold%[1]d[T]) Get() (T, int) { return h.V, h.Tail }
`, u))
		for i, p := range []string{a, b} {
			n := []int{1, 5}[i]
			g.add(p, fmt.Sprintf(`type Rec%[1]d struct{ A [%[2]d]int64 }

func Use%[1]d() (bool, bool, int64, int, bool) {
	_, ok1 := %[3]s[struct{ R Rec%[1]d }]().(struct{ R Rec%[1]d })
	_, ok2 := %[3]s[func(Rec%[1]d) int]().(func(Rec%[1]d) int)
	var lit struct{ R Rec%[1]d }
	for i := range lit.R.A {
		lit.R.A[i] = int64(10*%[2]d + i)
	}
	v := %[4]s(lit)
	h := %[5]s[struct{ R Rec%[1]d }]{V: v, Tail: 7}
	hv, tail := h.Get()
	_, ok3 := %[3]s[*interface{ M(Rec%[1]d) }]().(*interface{ M(Rec%[1]d) })
	return ok1, ok2, v.R.A[%[2]d-1] + hv.R.A[0], tail, ok3
}
`, u, n, g.q(p, lib, fmt.Sprintf("Zero%d", u)), g.q(p, lib, fmt.Sprintf("Pass%d", u)), g.q(p, lib, fmt.Sprintf("Hold%d", u))))
		}
		g.add("main", fmt.Sprintf(`func U%[1]d() {
	a1, a2, a3, a4, a5 := %[2]s()
	b1, b2, b3, b4, b5 := %[3]s()
	println("#%[1]d", a1, a2, a3, a4, a5, b1, b2, b3, b4, b5)
}
`, u, g.q("main", a, fmt.Sprintf("Use%d", u)), g.q("main", b, fmt.Sprintf("Use%d", u))))
		return "main"
	}},
	{"cross_package_dynamic_type_identity", true, func(g *G, u int) string {
		// values of types without an exported name (unexported named types, struct literal types, pointers to
		// them) are boxed in one package and inspected in another: one type, one identity
		p := g.pkg("pkg")
		g.add(p, fmt.Sprintf(`type level%[1]d int

const (
	Low%[1]d  level%[1]d = 1
	High%[1]d level%[1]d = 3
)

type hidden%[1]d struct{ n int }

func NewH%[1]d(n int) *hidden%[1]d { return &hidden%[1]d{n} }

func Classify%[1]d(v any) int {
	switch x := v.(type) {
	case level%[1]d:
		return 10 + int(x)
	case *hidden%[1]d:
		return 20 + x.n
	case struct{ A, B int }:
		return 30 + x.A + x.B
	case []level%[1]d:
		return 40 + len(x)
	case func(level%[1]d) int:
		return 50
	}
	return -1
}

func Same%[1]d(v any) bool { return v == any(High%[1]d) }

func Hit%[1]d(m map[any]int) int { return m[High%[1]d] + m[struct{ A, B int }{1, 2}] }

func Boxed%[1]d() any { return Low%[1]d }
`, u))
		g.add("main", fmt.Sprintf(`func U%[1]d() {
	var v any = %[2]s
	pair := struct{ A, B int }{1, 2}
	m := map[any]int{%[2]s: 5, pair: 7}
	_, isLevel := %[6]s().(interface{ comparableMarker() })
	println("#%[1]d", %[3]s(v), %[3]s(%[4]s(4)), %[3]s(pair), %[3]s(nil), %[5]s(v), %[7]s(m), isLevel, %[6]s() == v, %[6]s() == any(%[8]s))
}
`, u, g.q("main", p, fmt.Sprintf("High%d", u)), g.q("main", p, fmt.Sprintf("Classify%d", u)), g.q("main", p, fmt.Sprintf("NewH%d", u)),
			g.q("main", p, fmt.Sprintf("Same%d", u)), g.q("main", p, fmt.Sprintf("Boxed%d", u)), g.q("main", p, fmt.Sprintf("Hit%d", u)), g.q("main", p, fmt.Sprintf("Low%d", u))))
		return "main"
	}},
	{"sealed_interface_promoted_method", false, func(g *G, u int) string {
		// a type of one package gets an UNEXPORTED method by promotion from an embedded type of another package;
		// it implements that package's sealed interface and not a same-named interface of its own package
		lib := g.pkg("pkg")
		user := "main"
		k := g.n(2, 9, "k")
		g.add(lib, fmt.Sprintf(`type Base%[1]d struct{ N int }

func (b Base%[1]d) area() int    { return b.N * %[2]d }
func (b Base%[1]d) Name() string { return "base" }

type Ptr%[1]d struct{ N int }

func (p *Ptr%[1]d) area() int    { return p.N + %[2]d }
func (p *Ptr%[1]d) Name() string { return "ptr" }

type Shape%[1]d interface {
	Name() string
	area() int
}

func AreaOf%[1]d(s Shape%[1]d) int { return s.area() }

func Sealed%[1]d(v any) int {
	if s, ok := v.(Shape%[1]d); ok {
		return s.area()
	}
	return -1
}
`, u, k))
		g.add(user, fmt.Sprintf(`type Square%[1]d struct {
	%[2]s
	side int
}

type Holder%[1]d struct{ *%[3]s }

type own%[1]d interface{ area() int }

func (s Square%[1]d) Side() int { return s.side }

func U%[1]d() {
	sq := Square%[1]d{%[2]s{N: 3}, 4}
	var viaStatic %[4]s = sq
	_, mine := any(sq).(own%[1]d)
	_, minePtr := any(&sq).(own%[1]d)
	anon := struct{ %[2]s }{%[2]s{N: 5}}
	h := Holder%[1]d{&%[3]s{N: 6}}
	_, hMine := any(h).(own%[1]d)
	println("#%[1]d", %[5]s(sq), %[5]s(&sq), %[5]s(anon), %[5]s(h), %[5]s(7), %[6]s(viaStatic), viaStatic.Name(), mine, minePtr, hMine, %[6]s(h))
}
`, u, g.q(user, lib, fmt.Sprintf("Base%d", u)), g.q(user, lib, fmt.Sprintf("Ptr%d", u)), g.q(user, lib, fmt.Sprintf("Shape%d", u)),
			g.q(user, lib, fmt.Sprintf("Sealed%d", u)), g.q(user, lib, fmt.Sprintf("AreaOf%d", u))))
		return user
	}},
	{"same_names_two_pkgs", true, func(g *G, u int) string {
		// identical type, method, function and closure-holding variable names in pa and q.r/pa
		for i, p := range []string{"pa", "q.r/pa"} {
			g.add(p, fmt.Sprintf(`type T%[1]d struct{ N int }

func (t T%[1]d) Val() int  { return t.N + %[2]d }
func (t *T%[1]d) Val2() int { return func() int { return func() int { return t.N * %[2]d }() }() } // nested closures in a method

var Hook%[1]d = func() int { return %[2]d }

func init() { Hook%[1]d = func() int { return %[2]d + 100 } }

func New%[1]d(n int) any { return T%[1]d{n} }
`, u, i+1))
		}
		g.add("main", fmt.Sprintf(`func U%[1]d() {
	a := %[2]s{1}
	b := %[3]s{1}
	_, same := %[4]s(1).(%[3]s)
	println("#%[1]d", a.Val(), b.Val(), a.Val2(), b.Val2(), %[5]s(), %[6]s(), same)
}
`, u, g.q("main", "pa", fmt.Sprintf("T%d", u)), g.q("main", "q.r/pa", fmt.Sprintf("T%d", u)), g.q("main", "pa", fmt.Sprintf("New%d", u)),
			g.q("main", "pa", fmt.Sprintf("Hook%d", u)), g.q("main", "q.r/pa", fmt.Sprintf("Hook%d", u))))
		return "main"
	}},
	{"method_values_same_named_types", true, func(g *G, u int) string {
		// method values and method expressions of same-named types from two packages (and a local one) used in ONE
		// package: the wrappers the compiler synthesises for them must not share a link name
		libs, user := []string{"pa", "q.r/pa"}, "main"
		if g.n(0, 1, "libs") == 1 {
			libs, user = []string{"pb", "pc/sub"}, g.pick([]string{"main", "pa", "q.r/pa"}, "user")
		}
		for i, p := range libs {
			g.add(p, fmt.Sprintf(`type MV%[1]d struct{ N int }

func (t MV%[1]d) Get() int   { return t.N*10 + %[2]d }
func (t *MV%[1]d) Ptr() int  { return t.N*100 + %[2]d }

type MI%[1]d interface{ Get() int }
`, u, i+1))
		}
		k := g.n(3, 9, "k")
		g.add(user, fmt.Sprintf(`type MV%[1]d struct{ N int }

func (t MV%[1]d) Get() int  { return t.N*10 + %[4]d }
func (t *MV%[1]d) Ptr() int { return t.N*100 + %[4]d }

func U%[1]d() {
	a, b, c := %[2]s{1}, %[3]s{2}, MV%[1]d{3}
	f1, f2, f3 := a.Get, b.Get, c.Get          // bound method values
	p1, p2, p3 := (&a).Ptr, (&b).Ptr, (&c).Ptr // bound through pointers
	e1, e2, e3 := %[2]s.Get, %[3]s.Get, MV%[1]d.Get // method expressions
	x1, x2, x3 := (*%[2]s).Ptr, (*%[3]s).Ptr, (*MV%[1]d).Ptr
	var i1 %[5]s = a
	var i2 %[6]s = b
	g1, g2 := i1.Get, i2.Get
	println("#%[1]d", f1(), f2(), f3(), p1(), p2(), p3(), e1(a), e2(b), e3(c), x1(&a), x2(&b), x3(&c), g1(), g2())
}
`, u, g.q(user, libs[0], fmt.Sprintf("MV%d", u)), g.q(user, libs[1], fmt.Sprintf("MV%d", u)), k,
			g.q(user, libs[0], fmt.Sprintf("MI%d", u)), g.q(user, libs[1], fmt.Sprintf("MI%d", u))))
		return user
	}},
	{"param_copies_independent", false, func(g *G, u int) string {
		// several local copies of one by-value aggregate parameter are distinct objects; the parameter itself can be
		// reassigned, copied again in a loop, captured and passed on without the copies noticing
		p := g.pkgOrMain()
		it := g.pick([]string{"int64", "int32", "int16", "uint8", "float64"}, "ft")
		nf := g.n(2, 5, "nfields")
		var fields, lit strings.Builder
		for i := 0; i < nf; i++ {
			fmt.Fprintf(&fields, "f%d %s; ", i, it)
			fmt.Fprintf(&lit, "%d, ", i+1)
		}
		an := g.n(1, 6, "alen")
		k1, k2 := g.n(0, nf-1, "k1"), g.n(0, nf-1, "k2")
		g.add(p, fmt.Sprintf(`type pc%[1]d struct{ %[2]s }

//go:noinline
func two%[1]d(p pc%[1]d) (pc%[1]d, pc%[1]d, pc%[1]d) {
	a := p
	b := p
	a.f%[4]d = 100
	b.f%[5]d = 200
	return a, b, p
}

//go:noinline
func reassign%[1]d(p pc%[1]d, n int) (pc%[1]d, pc%[1]d) {
	a := p
	p.f%[4]d = 50
	var last pc%[1]d
	for i := 0; i < n; i++ {
		c := p
		c.f%[5]d += %[3]s(i)
		last = c
	}
	return a, last
}

//go:noinline
func arr%[1]d(p [%[6]d]%[3]s, q pc%[1]d) ([%[6]d]%[3]s, [%[6]d]%[3]s, pc%[1]d) {
	a, b := p, p
	a[0] = 7
	b[%[6]d-1] = 9
	f := func() pc%[1]d { c := q; c.f0 = 33; return c }
	r := f()
	q.f0 = 44
	return a, b, r
}

func U%[1]d() {
	v := pc%[1]d{%[7]s}
	a, b, c := two%[1]d(v)
	d, e := reassign%[1]d(v, 3)
	var w [%[6]d]%[3]s
	for i := range w {
		w[i] = %[3]s(i + 1)
	}
	x, y, z := arr%[1]d(w, v)
	println("#%[1]d", a == v, b == v, c == v, a == b, d == v, e == v, x == w, y == w, x == y, z == v, a.f%[4]d == 100, b.f%[5]d == 200, int64(e.f%[5]d), int64(x[0]), int64(y[%[6]d-1]), int64(z.f0), v.f0 == 1)
}
`, u, fields.String(), it, k1, k2, an, lit.String()))
		return p
	}},
	{"range_string_bytes", false, func(g *G, u int) string {
		// range over strings built from drawn fragments, including truncated and invalid UTF-8 sequences at the end
		p := g.pkgOrMain()
		frags := []string{"a", "é", "世", "😀", "\\xf0\\x9f\\x98", "\\xf0\\x9f", "\\xf0", "\\xe4\\xb8", "\\xe4", "\\xc3", "\\xff", "\\x80", "\\xed\\xa0\\x80", "\\xc0\\x80", "\\x00", "z"}
		var lit strings.Builder
		for i, n := 0, g.n(1, 6, "nfrag"); i < n; i++ {
			lit.WriteString(g.pick(frags, "frag"))
		}
		g.add(p, fmt.Sprintf(`func U%[1]d() {
	s := "%[2]s"
	n, idx, sum := 0, 0, 0
	for i, r := range s {
		n++
		idx += i
		sum += int(r)
	}
	m := 0
	for range s {
		m++
	}
	rs := []rune(s)
	last := rune(-1)
	if len(rs) > 0 {
		last = rs[len(rs)-1]
	}
	back := string(rs)
	println("#%[1]d", len(s), n, m, idx, sum, len(rs), last, len(back), back == s)
}
`, u, lit.String()))
		return p
	}},
	{"nested_closures_same_method_names", true, func(g *G, u int) string {
		// two receiver types of one package with a same-named method; each method nests range-over-func loops,
		// func literals and deferred closures, so the synthesised function names differ only in the receiver
		p := g.pkgOrMain()
		a, b := g.n(2, 4, "a"), g.n(2, 5, "b")
		shape := g.n(0, 2, "shape")
		inner := []string{
			"for c := range seq%[1]d(r) {\n\t\t\tsum %[2]s r*10 + c\n\t\t}",
			"func() {\n\t\t\tfor c := range seq%[1]d(r) {\n\t\t\t\tsum %[2]s r*10 + c\n\t\t\t}\n\t\t}()",
			"f := func(k int) func() { return func() { sum %[2]s r*10 + k } }\n\t\tfor c := range seq%[1]d(r) {\n\t\t\tf(c)()\n\t\t}",
		}[shape]
		body := func(op string) string { return fmt.Sprintf(inner, u, op) }
		g.add(p, fmt.Sprintf(`func seq%[1]d(n int) func(yield func(int) bool) {
	return func(yield func(int) bool) {
		for i := 1; i <= n; i++ {
			if !yield(i) {
				return
			}
		}
	}
}

type ga%[1]d struct{ n int }
type gb%[1]d struct{ n int }

func (x *ga%[1]d) Total() int {
	sum := 0
	for r := range seq%[1]d(x.n) {
		%[2]s
	}
	return sum
}

func (x *gb%[1]d) Total() int {
	sum := 0
	for r := range seq%[1]d(x.n) {
		%[3]s
	}
	return sum
}

func (x ga%[1]d) Each() (s int) {
	for r := range seq%[1]d(x.n) {
		defer func() { s += r }()
	}
	return 1
}

func (x gb%[1]d) Each() (s int) {
	for r := range seq%[1]d(x.n) {
		defer func() { s -= r * 2 }()
	}
	return 1
}

func U%[1]d() {
	println("#%[1]d", (&ga%[1]d{%[4]d}).Total(), (&gb%[1]d{%[5]d}).Total(), ga%[1]d{%[4]d}.Each(), gb%[1]d{%[5]d}.Each())
}
`, u, body("+="), body("-="), a, b))
		return p
	}},
	{"many_itabs", false, func(g *G, u int) string {
		// hundreds of distinct (interface, concrete type) pairs in one unit: conversions made before and after the
		// run-time itab table has grown must agree (equality of interface-typed array elements, interface map keys)
		p := g.pkgOrMain()
		nt, ni := g.n(18, 26, "ntypes"), g.n(18, 26, "nifaces")
		var b strings.Builder
		fmt.Fprintf(&b, "type mb%d struct{}\n\n", u)
		for i := 0; i < ni; i++ {
			fmt.Fprintf(&b, "func (mb%d) M%d() int { return %d }\n", u, i, i)
		}
		for i := 0; i < ni; i++ {
			fmt.Fprintf(&b, "type mi%d_%d interface{ M%d() int }\n", u, i, i)
		}
		for t := 0; t < nt; t++ {
			fmt.Fprintf(&b, "type mt%d_%d struct {\n\tmb%d\n\tid int\n}\n", u, t, u)
		}
		fmt.Fprintf(&b, "\nfunc U%d() {\n\tearly := [1]mi%d_0{mt%d_0{id: 7}}\n\tkeys := map[mi%d_1]int{mt%d_1{id: 1}: 11}\n\tvar anyEarly any = early\n\tsum := 0\n", u, u, u, u, u)
		for t := 0; t < nt; t++ {
			for i := 0; i < ni; i++ {
				fmt.Fprintf(&b, "\tsum += mi%d_%d(mt%d_%d{id: %d}).M%d()\n", u, i, u, t, t, i)
			}
		}
		fmt.Fprintf(&b, "\tlate := [1]mi%d_0{mt%d_0{id: 7}}\n\tvar anyLate any = late\n\tkeys[mt%d_1{id: 1}] += 100\n\tv, ok := keys[mi%d_1(mt%d_1{id: 1})]\n", u, u, u, u, u)
		fmt.Fprintf(&b, "\tmism := 0\n")
		for t := 0; t < nt; t += 3 {
			fmt.Fprintf(&b, "\tif any([1]mi%d_2{mt%d_%d{id: 3}}) != any([1]mi%d_2{mt%d_%d{id: 3}}) {\n\t\tmism++\n\t}\n", u, u, t, u, u, t)
		}
		fmt.Fprintf(&b, "\tprintln(\"#%d\", sum, early == late, anyEarly == anyLate, len(keys), v, ok, mism)\n}\n", u)
		g.add(p, b.String())
		return p
	}},
	{"structs_arrays_copy", false, func(g *G, u int) string {
		p := g.pkgOrMain()
		a := g.n(1, 9, "a")
		g.add(p, fmt.Sprintf(`type in%[1]d struct {
	arr [3]int
	p   *int
}
type out%[1]d struct {
	in  in%[1]d
	sl  []int
	m   map[string]int
}

func mod%[1]d(o out%[1]d) { o.in.arr[0] = 99; o.sl[0] = 77; o.m["k"] = 55; *o.in.p = 33 }

func U%[1]d() {
	x := %[2]d
	o := out%[1]d{in%[1]d{[3]int{1, 2, 3}, &x}, []int{4, 5}, map[string]int{"k": 1}}
	c := o
	mod%[1]d(o)
	c.in.arr[1] = 8
	arr := [2][2]int{{1, 2}, {3, 4}}
	brr := arr
	brr[1][1] = 9
	pa := &arr
	pa[0][0] = 7
	println("#%[1]d", o.in.arr[0], o.sl[0], o.m["k"], x, c.in.arr[1], o.in.arr[1], arr[1][1], brr[1][1], arr[0][0], len(pa), cap(o.sl[:1]))
}
`, u, a))
		return p
	}},
	{"copy_then_mutate_in_return", false, func(g *G, u int) string {
		// a copy of a struct variable must keep its value although the original is written (directly, through a
		// nested field, an array element of a field, or a pointer into it) and mutated by a pointer-receiver
		// call in the same return statement
		p := g.pkgOrMain()
		seed := g.n(1, 9, "seed")
		writes := []string{"o.id = 5", "o.in.n = 5", "o.cells[1] = 7", "o.in.arr[2] = 9", "q := &o.in; q.n = 6", "o.in = in%[1]d{n: 4}", "for i := range o.cells { o.cells[i] = i + 50 }"}
		w1 := strings.ReplaceAll(writes[g.n(0, len(writes)-1, "write1")], "%[1]d", fmt.Sprint(u))
		w2 := strings.ReplaceAll(writes[g.n(0, len(writes)-1, "write2")], "%[1]d", fmt.Sprint(u))
		w2 = strings.ReplaceAll(w2, "q", "q2") // the pointer variable of the second write needs its own name
		g.add(p, fmt.Sprintf(`type in%[1]d struct {
	n   int
	arr [3]int
}
type box%[1]d struct {
	id    int
	in    in%[1]d
	cells [4]int
}

func (b *box%[1]d) bump() int { b.id += 100; b.in.n += 100; b.cells[1] += 100; b.in.arr[2] += 100; return b.id }

func snap%[1]d(seed int) (box%[1]d, int) {
	o := box%[1]d{id: seed}
	x := o
	%[3]s
	return x, o.bump()
}

func snapTwo%[1]d(seed int) (int, box%[1]d, box%[1]d) {
	o := box%[1]d{id: seed, cells: [4]int{1, 2, 3, 4}}
	x := o
	%[3]s
	y := o
	%[4]s
	return o.bump(), x, y
}

func U%[1]d() {
	a, r := snap%[1]d(%[2]d)
	println("#%[1]d", a.id, a.in.n, a.cells[1], a.in.arr[2], r)
	r2, b, c := snapTwo%[1]d(%[2]d)
	println("#%[1]d", r2, b.id, b.in.n, b.cells[1], b.in.arr[2], c.id, c.in.n, c.cells[1], c.cells[3], c.in.arr[2])
}
`, u, seed, w1, w2))
		return p
	}},
	{"large_value_snapshot", false, func(g *G, u int) string {
		// a value loaded before a write keeps the old contents, whatever its size and however it is used later
		// (converted to an interface, returned, passed on)
		p := g.pkgOrMain()
		n := []int{1, 4, 100, 511, 512, 513, 1024, 4096, 8192}[g.n(0, 8, "elems")]
		g.add(p, fmt.Sprintf(`type big%[1]d struct{ a [%[2]d]int64 }

var g%[1]d big%[1]d

//go:noinline
func snapAny%[1]d(p *big%[1]d) any {
	old := *p
	p.a[0] = 77
	p.a[len(p.a)-1] = -77
	return any(old)
}

//go:noinline
func snapVal%[1]d(p *big%[1]d) big%[1]d {
	old := *p
	*p = big%[1]d{}
	return old
}

//go:noinline
func snapArr%[1]d(p *[%[2]d]int64) (r any) {
	old := *p
	p[0]++
	r = old
	return
}

func U%[1]d() {
	g%[1]d.a[0], g%[1]d.a[%[2]d-1] = 11, 12
	v := snapAny%[1]d(&g%[1]d).(big%[1]d)
	println("#%[1]d", v.a[0], v.a[%[2]d-1], g%[1]d.a[0], g%[1]d.a[%[2]d-1])
	g%[1]d.a[0] = 21
	w := snapVal%[1]d(&g%[1]d)
	println("#%[1]d", w.a[0], w.a[%[2]d-1], g%[1]d.a[0])
	g%[1]d.a[0] = 31
	z := snapArr%[1]d(&g%[1]d.a).([%[2]d]int64)
	println("#%[1]d", z[0], g%[1]d.a[0])
}
`, u, n))
		return p
	}},
	{"multi_assign", false, func(g *G, u int) string {
		p := g.pkgOrMain()
		a := g.n(0, 2, "a")
		g.add(p, fmt.Sprintf(`func two%[1]d() (int, int) { return 3, 4 }

func U%[1]d() {
	s := []int{10, 20, 30}
	i := %[2]d
	i, s[i] = 2, 99 // index evaluated before i changes
	a, b := 1, 2
	a, b = b, a+b
	x, y := two%[1]d()
	m := map[string]int{}
	m["a"], m["b"] = x, y
	var arr [3]int
	j := 0
	arr[j], j = 5, 1
	p := &a
	*p, b = b, *p
	println("#%[1]d", i, s[0], s[1], s[2], a, b, m["a"]+m["b"]*10, arr[0], arr[1], j)
}
`, u, a))
		return p
	}},
	{"range_forms", false, func(g *G, u int) string {
		p := g.pkgOrMain()
		n, k := g.n(2, 6, "n"), g.n(1, 4, "k")
		g.add(p, fmt.Sprintf(`func seq%[1]d(n int) func(func(int, int) bool) {
	return func(yield func(int, int) bool) {
		for i := 0; i < n; i++ {
			if !yield(i, i*i) {
				return
			}
		}
	}
}

func find%[1]d(limit int) int {
	for i, sq := range seq%[1]d(10) {
		if sq > limit {
			return i // return from inside a range-over-func body
		}
	}
	return -1
}

func U%[1]d() {
	arr := [4]int{1, 2, 3, 4}
	t := 0
	for i, v := range arr {
		t += v * i
	}
	for i := range &arr {
		t += i
	}
	for range %[2]d {
		t++
	}
	for i, r := range "aé\xffz" {
		t += i * int(r%%7)
	}
	m := map[int]int{1: 2, 3: 4, 5: 6}
	for k, v := range m { // folded commutatively
		t += k * v
	}
	ch := make(chan int, 4)
	for i := 0; i < %[3]d; i++ {
		ch <- i
	}
	close(ch)
	for v := range ch {
		t += v
	}
	c := 0
	for i, sq := range seq%[1]d(8) {
		if i == %[3]d+2 {
			break
		}
		c += sq
	}
	var nilm map[string]int
	for range nilm {
		t += 1000
	}
	println("#%[1]d", t, c, find%[1]d(%[2]d*3))
}
`, u, n, k))
		return p
	}},
	{"range_array_copy", false, func(g *G, u int) string {
		// `for i, v := range arr` evaluates arr once: the loop sees a copy, writes to arr inside the loop
		// are not observed by v (same for an array returned by a call or stored in a struct)
		p := g.pkgOrMain()
		n := g.n(3, 6, "n")
		g.add(p, fmt.Sprintf(`type w%[1]d struct{ a [%[2]d]int }

func U%[1]d() {
	var arr [%[2]d]int
	for i := range arr {
		arr[i] = i + 1
	}
	t := 0
	for i, v := range arr {
		arr[%[2]d-1-i] = 0
		t += v
	}
	s := w%[1]d{}
	s.a[1] = 5
	t2 := 0
	for i, v := range s.a {
		s.a[(i+1)%%%[2]d] = 9
		t2 += v
	}
	println("#%[1]d", t, t2, arr[0], s.a[0])
}
`, u, n))
		return p
	}},
	{"variadic_recursion", false, func(g *G, u int) string {
		p := g.pkgOrMain()
		n := g.n(3, 12, "n")
		g.add(p, fmt.Sprintf(`func va%[1]d(pre string, xs ...int) (n int, s string) {
	for _, x := range xs {
		n += x
	}
	return n, pre
}

func even%[1]d(n, fuel int) bool {
	if n == 0 || fuel == 0 {
		return true
	}
	return odd%[1]d(n-1, fuel-1)
}
func odd%[1]d(n, fuel int) bool {
	if n == 0 || fuel == 0 {
		return false
	}
	return even%[1]d(n-1, fuel-1)
}
func fib%[1]d(n int) int {
	if n < 2 {
		return n
	}
	return fib%[1]d(n-1) + fib%[1]d(n-2)
}

func U%[1]d() {
	a, _ := va%[1]d("p")
	b, s := va%[1]d("q", 1, 2, 3)
	xs := []int{4, 5}
	c, _ := va%[1]d("r", xs...)
	xs2 := append(xs[:1], 9)
	println("#%[1]d", a, b, s, c, even%[1]d(%[2]d, 50), fib%[1]d(%[2]d), xs[1], len(xs2))
}
`, u, n))
		return p
	}},
	{"defer_modest", false, func(g *G, u int) string {
		p := g.pkgOrMain()
		n := g.n(1, 4, "n")
		g.add(p, fmt.Sprintf(`func safe%[1]d(f func()) (r int) {
	defer func() {
		if e := recover(); e != nil {
			r = -1
		}
	}()
	f()
	return 1
}

func U%[1]d() {
	order := 0
	func() {
		for i := 0; i < %[2]d; i++ {
			defer func(k int) { order = order*10 + k }(i)
		}
	}()
	var m map[int]int
	var p *struct{ x int }
	println("#%[1]d", order, safe%[1]d(func() { m[1] = 1 }), safe%[1]d(func() { _ = []int{}[%[2]d] }), safe%[1]d(func() { p.x = 1 }), safe%[1]d(func() {}), safe%[1]d(func() { panic("x") }))
}
`, u, n))
		return p
	}},
	{"integer_string_mix", false, func(g *G, u int) string {
		p := g.pkgOrMain()
		t1, t2 := g.pick(intTypes, "t1"), g.pick(intTypes, "t2")
		a, b := g.n(1, 100, "a"), g.n(1, 100, "b")
		g.add(p, fmt.Sprintf(`func U%[1]d() {
	x := %[2]s(%[4]d)
	y := %[3]s(%[5]d)
	z := %[3]s(x)*y + %[3]s(x>>2) - y<<3
	s := "hé" + string(rune('a'+%[4]d%%26))
	bs := []byte(s)
	bs[0] = 'H'
	w := x
	w *= w
	w ^= %[2]s(%[5]d %% 100)
	println("#%[1]d", z, len(s), string(bs), s[1:3] == "é", w, x/%[2]s(%[5]d%%7+1), int64(z)%%%[5]d)
}
`, u, t1, t2, a, b))
		return p
	}},
	{"bound_methods_thunks", true, func(g *G, u int) string {
		p := g.pkgOrMain()
		o := g.dep(p, "other")
		g.add(o, fmt.Sprintf(`type C%[1]d struct{ N int }

func (c *C%[1]d) Inc() int  { c.N++; return c.N }
func (c C%[1]d) Peek() int  { return c.N }

type I%[1]d interface{ Inc() int }
`, u))
		g.add(p, fmt.Sprintf(`func U%[1]d() {
	c := &%[2]s{5}
	inc := c.Inc           // bound method on pointer
	peek := c.Peek         // bound copy
	var i %[3]s = c
	iinc := i.Inc          // bound interface method
	fs := []func() int{inc, peek, iinc, func() int { return (*%[2]s).Inc(c) }}
	t := 0
	for _, f := range fs {
		t = t*10 + f()
	}
	println("#%[1]d", t, c.Peek())
}
`, u, g.q(p, o, fmt.Sprintf("C%d", u)), g.q(p, o, fmt.Sprintf("I%d", u))))
		return p
	}},
}

func (g *G) pkgOrMain() string {
	if g.n(0, 3, "inmain") == 0 {
		return "main"
	}
	return g.pkg("pkg")
}
