package c12

// C12: package initialisation order.  rapid generates modules of 2-8 packages forming a DAG; package
// level variables with initialisers that trace and depend on variables declared later, in other files,
// through function bodies and in imported packages; several init functions per file; file names whose
// lexical order differs from generation order; blank imports; a package imported along several paths.
// Oracle: the trace printed by the same module built with gc.

import (
	"fmt"
	"os"
	"path/filepath"
	"sort"
	"strings"
	"testing"

	"pgregory.net/rapid"
	"verif/harness/progkit"
	vstat "verifstat"
)

type pkgGen struct {
	name     string
	imports  []int
	files    map[string]*strings.Builder
	nvars    int
	rank     []int // dependency rank of each var: a var may depend only on vars of higher rank
	exported []string
	bare     bool // no package-level variable here or below: all start-up work is in init functions and blank initialisers
}

func genModule(t *rapid.T, withStd bool) (files map[string]string, feats map[string]bool) {
	feats = map[string]bool{}
	files = map[string]string{"go.mod": "module c12mod\n\ngo 1.24\n",
		"tr/tr.go": "package tr\n\nvar n int\n\n//go:noinline\nfunc T(s string) int {\n\tn++\n\tprintln(n, s)\n\treturn n\n}\n"}
	maxPk := 8
	if os.Getenv("VERIF_TIER") != "thorough" {
		maxPk = 6
	}
	npk := rapid.IntRange(2, maxPk).Draw(t, "npkgs")
	pkgs := make([]*pkgGen, npk)
	fileNames := []string{"a_first.go", "m_mid.go", "z_last.go", "b.go", "0_num.go"}
	importedBy := make([]int, npk)
	for i := npk - 1; i >= 0; i-- {
		p := &pkgGen{name: fmt.Sprintf("p%d", i), files: map[string]*strings.Builder{}}
		pkgs[i] = p
		// imports: only packages with a larger index (acyclic)
		for j := i + 1; j < npk; j++ {
			if rapid.IntRange(0, 2).Draw(t, "imp") == 0 {
				p.imports = append(p.imports, j)
				importedBy[j]++
			}
		}
		nfiles := rapid.IntRange(1, 3).Draw(t, "nfiles")
		names := rapid.Permutation(fileNames).Draw(t, "filenames")[:nfiles]
		if rapid.IntRange(0, 3).Draw(t, "bare") == 0 {
			genBare(t, p, pkgs, importedBy, names, files, feats)
			continue
		}
		usedImp := map[string]map[int]bool{}
		for _, fn := range names {
			p.files[fn] = &strings.Builder{}
			usedImp[fn] = map[int]bool{}
		}
		p.nvars = rapid.IntRange(1, 6).Draw(t, "nvars")
		p.rank = rapid.Permutation(seq(p.nvars)).Draw(t, "ranks")
		fileOf := func(label string) string { return names[rapid.IntRange(0, nfiles-1).Draw(t, label)] }
		// helper functions reading variables (hidden dependencies)
		nfun := rapid.IntRange(0, 2).Draw(t, "nfuncs")
		funcDep := make([]int, nfun) // var index each function reads
		for k := 0; k < nfun; k++ {
			funcDep[k] = rapid.IntRange(0, p.nvars-1).Draw(t, "fdep")
			fn := fileOf("ffile")
			fmt.Fprintf(p.files[fn], "func F%d() int { return tr.T(\"%s.F%d\") + V%d }\n\n", k, p.name, k, funcDep[k])
		}
		for v := 0; v < p.nvars; v++ {
			fn := fileOf("vfile")
			expr := fmt.Sprintf("tr.T(\"%s.V%d\")", p.name, v)
			// dependency on another variable of this package with a higher rank (declared anywhere)
			var cands []int
			for w := 0; w < p.nvars; w++ {
				if p.rank[w] > p.rank[v] {
					cands = append(cands, w)
				}
			}
			if len(cands) > 0 && rapid.IntRange(0, 2).Draw(t, "dep") > 0 {
				w := cands[rapid.IntRange(0, len(cands)-1).Draw(t, "depvar")]
				expr += fmt.Sprintf(" + V%d", w)
				if w > v {
					feats["dependency_reorders_declaration_order"] = true
				}
			}
			for k := 0; k < nfun; k++ {
				if p.rank[funcDep[k]] > p.rank[v] && rapid.IntRange(0, 3).Draw(t, "usefunc") == 0 {
					expr += fmt.Sprintf(" + F%d()", k)
					feats["hidden_dependency_through_function"] = true
				}
			}
			if len(p.imports) > 0 && rapid.IntRange(0, 2).Draw(t, "useimp") == 0 {
				j := p.imports[rapid.IntRange(0, len(p.imports)-1).Draw(t, "impidx")]
				q := pkgs[j]
				if q.nvars > 0 && rapid.Bool().Draw(t, "impvar") {
					expr += fmt.Sprintf(" + p%d.V%d", j, rapid.IntRange(0, q.nvars-1).Draw(t, "impv"))
				} else {
					expr += fmt.Sprintf(" + p%d.Get()", j)
				}
				usedImp[fn][j] = true
				feats["cross_package_initialiser"] = true
			}
			if rapid.IntRange(0, 5).Draw(t, "closure") == 0 {
				expr = "func() int { return " + expr + " }()"
			}
			fmt.Fprintf(p.files[fn], "var V%d = %s\n\n", v, expr)
		}
		fmt.Fprintf(p.files[names[0]], "func Get() int { return tr.T(\"%s.Get\") + V0 }\n\n", p.name)
		for _, fn := range names {
			ninit := rapid.IntRange(0, 3).Draw(t, "ninit")
			for k := 0; k < ninit; k++ {
				fmt.Fprintf(p.files[fn], "func init() { tr.T(\"%s.init %s#%d\") }\n\n", p.name, fn, k)
				feats["multiple_init_functions"] = true
			}
		}
		for _, fn := range names {
			var hdr strings.Builder
			fmt.Fprintf(&hdr, "package %s\n\nimport (\n\t\"c12mod/tr\"\n", p.name)
			for _, j := range p.imports {
				if usedImp[fn][j] {
					fmt.Fprintf(&hdr, "\t\"c12mod/p%d\"\n", j)
				} else {
					fmt.Fprintf(&hdr, "\t_ \"c12mod/p%d\"\n", j)
					feats["blank_import"] = true
				}
			}
			hdr.WriteString(")\n\nvar _ = tr.T\n\n")
			files[p.name+"/"+fn] = hdr.String() + p.files[fn].String()
		}
	}
	for j := range importedBy {
		if importedBy[j] >= 2 {
			feats["package_reachable_by_two_paths"] = true
		}
	}
	// main imports a random subset (at least p0) in an order unrelated to the DAG
	order := rapid.Permutation(seq(npk)).Draw(t, "mainorder")
	var mb strings.Builder
	mb.WriteString("package main\n\nimport (\n\t\"c12mod/tr\"\n")
	if withStd {
		mb.WriteString("\t\"reflect\"\n\t\"strconv\"\n\t\"sync\"\n\t\"sync/atomic\"\n")
	}
	var used []int
	for _, j := range order {
		if j == 0 || rapid.IntRange(0, 1).Draw(t, "mainimp") == 0 {
			fmt.Fprintf(&mb, "\t\"c12mod/p%d\"\n", j)
			used = append(used, j)
		}
	}
	mb.WriteString(")\n\n")
	if withStd {
		// package-level initialisers that go through std packages llgo overlays with its own code
		mb.WriteString("var cnt int64\nvar once sync.Once\nvar A = func() int { atomic.AddInt64(&cnt, 3); once.Do(func() { tr.T(\"main.once\") }); return tr.T(\"main.A\") + int(atomic.LoadInt64(&cnt)) }()\n")
		mb.WriteString("var K = tr.T(\"main.K \" + reflect.TypeOf(A).Kind().String() + strconv.Itoa(A))\n")
		mb.WriteString("var M sync.Map\nfunc init() { M.Store(1, 2); v, _ := M.Load(1); tr.T(\"main.init syncmap \" + strconv.Itoa(v.(int))) }\n\n")
		feats["patched_std_in_initialisers"] = true
	}
	mb.WriteString("var Z = tr.T(\"main.Z\")\n\nfunc init() { tr.T(\"main.init\") }\n\nfunc main() {\n\ts := 0\n")
	for _, j := range used {
		fmt.Fprintf(&mb, "\ts += p%d.Get()\n", j)
	}
	mb.WriteString("\tprintln(\"main.main\", s+Z)\n}\n")
	files["main.go"] = mb.String()
	return
}

// genBare emits a package without any package-level variable that imports only packages of the same kind (not even
// the tracer): everything it does at start-up happens in init functions and blank initialisers, which print directly.
func genBare(t *rapid.T, p *pkgGen, pkgs []*pkgGen, importedBy []int, names []string, files map[string]string, feats map[string]bool) {
	p.bare = true
	var keep []int
	for _, j := range p.imports {
		if pkgs[j].bare {
			keep = append(keep, j)
		} else {
			importedBy[j]--
		}
	}
	p.imports = keep
	feats["init_only_package"] = true
	if len(keep) > 0 {
		feats["init_only_package_chain"] = true
	}
	for fi, fn := range names {
		var b strings.Builder
		fmt.Fprintf(&b, "package %s\n\n", p.name)
		if len(p.imports) > 0 {
			b.WriteString("import (\n")
			for _, j := range p.imports {
				fmt.Fprintf(&b, "\t_ \"c12mod/p%d\"\n", j)
			}
			b.WriteString(")\n\n")
		}
		if fi == 0 {
			fmt.Fprintf(&b, "//go:noinline\nfunc pr(s string) int {\n\tprintln(0, s)\n\treturn len(s)\n}\n\nfunc Get() int { return pr(\"%s.Get\") }\n\n", p.name)
		}
		ninit := rapid.IntRange(0, 2).Draw(t, "ninit")
		if fi == 0 && ninit == 0 {
			ninit = 1
		}
		for k := 0; k < ninit; k++ {
			if rapid.IntRange(0, 2).Draw(t, "blankinit") == 0 {
				fmt.Fprintf(&b, "var _ = pr(\"%s.blank %s#%d\")\n\n", p.name, fn, k)
				feats["blank_initialiser"] = true
			} else {
				fmt.Fprintf(&b, "func init() { pr(\"%s.init %s#%d\") }\n\n", p.name, fn, k)
			}
		}
		files[p.name+"/"+fn] = b.String()
	}
}

func seq(n int) []int {
	s := make([]int, n)
	for i := range s {
		s[i] = i
	}
	return s
}

func TestC12Modules(t *testing.T) {
	c := vstat.For("C12")
	defer c.Flush()
	tc := progkit.FromEnv()
	n := 0
	rapid.Check(t, func(t *rapid.T) {
		n++
		withStd := rapid.IntRange(0, 3).Draw(t, "withStd") == 0
		files, feats := genModule(t, withStd)
		dir := filepath.Join(tc.Work, fmt.Sprintf("c12-%d", n))
		os.RemoveAll(dir)
		defer os.RemoveAll(dir)
		if err := progkit.WriteModule(dir, files); err != nil {
			t.Fatalf("VERIF-INFRA %v", err)
		}
		ref := tc.RunGc(dir, nil)
		if !ref.BuildOK {
			t.Fatalf("VERIF-INFRA generator produced a module gc rejects:\n%s\n%s", tail(ref.BuildOut, 1500), dump(files))
		}
		var fl []string
		for k := range feats {
			fl = append(fl, k)
		}
		sort.Strings(fl)
		nt := feats["dependency_reorders_declaration_order"] && (feats["package_reachable_by_two_paths"] || feats["cross_package_initialiser"])
		cls := []string{"modules"}
		for _, f := range fl {
			cls = append(cls, "mod_"+f)
		}
		c.Case(vstat.Hash("c12", dump(files)), nt, cls...)
		c.SampleNow(map[string]any{"features": fl, "packages": len(files) - 2, "gc_trace_head": strings.Split(ref.Out, "\n")[:min(8, strings.Count(ref.Out, "\n"))]})
		cfgs := []progkit.Config{{Opt: "O0"}, {Opt: "O2"}}
		if os.Getenv("VERIF_TIER") == "thorough" {
			cfgs = append(cfgs, progkit.Config{Opt: "Oz"}, progkit.Config{Opt: "O2", NoGC: true})
		}
		if withStd {
			cfgs = []progkit.Config{{Opt: "O0"}}
		}
		for _, cfg := range cfgs {
			got := tc.RunLlgo(dir, cfg, nil)
			if got.Skip {
				c.Skip("toolchain_llvm14_crash:" + cfg.String())
				continue
			}
			if !got.BuildOK {
				key := "C12:build"
				if c.IsKnown(key) {
					c.KnownHit(key)
					continue
				}
				t.Fatalf("[%s] llgo %s cannot build a module gc accepts:\n%s\n%s", key, cfg, tail(got.BuildOut, 1500), dump(files))
			}
			if got.Out != ref.Out || got.Code != ref.Code {
				key := "C12:order"
				if withStd {
					key = "C12:order-with-patched-std"
				}
				if got.Code == ref.Code && sameWithinPackages(ref.Out, got.Out) {
					// every package initialises its own variables and init functions in the right order,
					// exactly once and after its imports; only the relative order of packages that do
					// not depend on one another differs (listed finding)
					key = "C12:independent-package-order"
				}
				if c.IsKnown(key) {
					c.KnownHit(key)
					continue
				}
				t.Fatalf("[%s] llgo %s initialises in a different order (exit %d vs %d):\n--- gc ---\n%s--- llgo ---\n%s\n%s", key, cfg, got.Code, ref.Code, tail(ref.Out, 2500), tail(got.Out, 2500), dump(files))
			}
		}
	})
}

func tail(s string, n int) string {
	if len(s) > n {
		return s[len(s)-n:]
	}
	return s
}

func dump(files map[string]string) string {
	var names []string
	for k := range files {
		names = append(names, k)
	}
	sort.Strings(names)
	var b strings.Builder
	for _, k := range names {
		fmt.Fprintf(&b, "==== %s ====\n%s\n", k, files[k])
	}
	s := b.String()
	if len(s) > 9000 {
		s = s[:9000] + "\n…"
	}
	return s
}

// sameWithinPackages compares two traces package by package: the sequence of items of each package
// (counter stripped) must be identical, every package's items must come after the first item of each
// package it calls into... the latter is implied by equal per-package sequences plus gc-equal nesting,
// so only the projections and the multiset of lines are compared here.
func sameWithinPackages(a, b string) bool {
	proj := func(s string) (map[string][]string, int) {
		m := map[string][]string{}
		n := 0
		for _, ln := range strings.Split(s, "\n") {
			f := strings.SplitN(ln, " ", 2)
			if len(f) != 2 || strings.HasPrefix(ln, "main.main") {
				continue
			}
			item := f[1]
			pkg := item
			if i := strings.Index(item, "."); i >= 0 {
				pkg = item[:i]
			}
			// calls into other packages made from initialisers (p3.Get, p3.F0) are ordered by the caller
			if strings.HasSuffix(item, ".Get") || strings.Contains(item, ".F") {
				continue
			}
			m[pkg] = append(m[pkg], item)
			n++
		}
		return m, n
	}
	pa, na := proj(a)
	pb, nb := proj(b)
	if na != nb || len(pa) != len(pb) {
		return false
	}
	for k, va := range pa {
		if strings.Join(va, "|") != strings.Join(pb[k], "|") {
			return false
		}
	}
	return true
}
