package c03

// C03: every run-time panic Go mandates is raised at exactly that point, is recoverable (repeatedly),
// and is raised only then.  Oracle: the same operation functions executed natively under gc.

import (
	"encoding/binary"
	"fmt"
	"math"
	"os"
	"strings"
	"sync"
	"testing"

	"pgregory.net/rapid"
	"verif/harness/interpkit"
	"verif/programs/bounds/cases"
	vstat "verifstat"
)

const casesDir = "/verif/programs/bounds/cases"

var (
	once sync.Once
	set  *interpkit.Set
)

func load(t testing.TB) *interpkit.Set {
	once.Do(func() { set = interpkit.Load("bounds", casesDir, interpkit.Configs()) })
	if set.Err != "" {
		t.Fatalf("[C03:build] %s", set.Err)
	}
	if len(set.Targets) == 0 {
		t.Fatalf("VERIF-INFRA no configuration could be built (skipped: %v)", set.Skipped)
	}
	return set
}

func TestPrepare(t *testing.T) {
	if os.Getenv("VERIF_SHARED") == "" {
		t.Skip()
	}
	load(t).Close()
}

type request struct {
	ID                       int
	Len, Cap                 int
	Lo, Hi, Max, Idx         uint64
	Flags, Dyn               uint64
	Repeat                   int
}

func (r request) encode() []byte {
	var b []byte
	for _, v := range []uint64{uint64(r.ID), uint64(r.Len), uint64(r.Cap), r.Lo, r.Hi, r.Max, r.Idx, r.Flags, r.Dyn, uint64(r.Repeat)} {
		var w [8]byte
		binary.LittleEndian.PutUint64(w[:], v)
		b = append(b, w[:]...)
	}
	return b
}

func (r request) String() string {
	op := cases.Ops[r.ID]
	return fmt.Sprintf("#%d [%s] len=%d cap=%d lo=%d hi=%d max=%d idx=%d flags=%s dyn=%d repeat=%d", r.ID, op.Name, r.Len, r.Cap, int64(r.Lo), int64(r.Hi), int64(r.Max), int64(r.Idx), flagNames(r.Flags), r.Dyn, r.Repeat)
}

func flagNames(f uint64) string {
	var s []string
	for i, n := range []string{"nilptr", "nilmap", "chanclosed", "channil", "niliface", "nilfunc"} {
		if f&(1<<uint(i)) != 0 {
			s = append(s, n)
		}
	}
	if len(s) == 0 {
		return "-"
	}
	return strings.Join(s, "+")
}

type exec struct {
	Panicked bool
	Kind     byte
	Trace    uint64
	Calls    uint64
	Side     uint64
	Res      uint64
	Msg      string
	S        [4]uint64
	Arr      uint64
}

func decode(b []byte, n int) ([]exec, bool) {
	var out []exec
	p := 0
	for k := 0; k < n; k++ {
		if p+42 > len(b) {
			return nil, false
		}
		e := exec{Panicked: b[p] == 1, Kind: b[p+1]}
		e.Trace = binary.LittleEndian.Uint64(b[p+2:])
		e.Calls = binary.LittleEndian.Uint64(b[p+10:])
		e.Side = binary.LittleEndian.Uint64(b[p+18:])
		e.Res = binary.LittleEndian.Uint64(b[p+26:])
		ml := int(binary.LittleEndian.Uint64(b[p+34:]))
		p += 42
		if ml < 0 || p+ml+40 > len(b) {
			return nil, false
		}
		e.Msg = string(b[p : p+ml])
		p += ml
		for i := 0; i < 4; i++ {
			e.S[i] = binary.LittleEndian.Uint64(b[p:])
			p += 8
		}
		e.Arr = binary.LittleEndian.Uint64(b[p:])
		p += 8
		out = append(out, e)
	}
	return out, p == len(b)
}

// class normalises a panic message to the kind of run-time error it reports.
func class(msg string) string {
	switch {
	case strings.Contains(msg, "index out of range"):
		return "index"
	case strings.Contains(msg, "slice bounds out of range"), strings.Contains(msg, "slice index out of bounds"):
		return "slice"
	case strings.Contains(msg, "nil pointer dereference"), strings.Contains(msg, "invalid memory address"):
		return "nilderef"
	case strings.Contains(msg, "assignment to entry in nil map"):
		return "nilmap"
	case strings.Contains(msg, "interface conversion"), strings.Contains(msg, "type assertion"):
		return "assert"
	case strings.Contains(msg, "divide by zero"):
		return "divide"
	case strings.Contains(msg, "makeslice"), strings.Contains(msg, "out of range") && strings.Contains(msg, "make"), strings.Contains(msg, "makemap"), strings.Contains(msg, "makechan"), strings.Contains(msg, "len out of range"), strings.Contains(msg, "cap out of range"), strings.Contains(msg, "size out of range"):
		return "make"
	case strings.Contains(msg, "cannot convert slice"):
		return "slice2array"
	case strings.Contains(msg, "closed channel"), strings.Contains(msg, "nil channel"):
		return "chan"
	}
	return "other(" + msg + ")"
}

var bounds = []int64{-1, 0, 1, 2, 3, 4, 5, 7, 8, 9, 127, 128, 255, 256, 32767, 32768, 65535, 65536, math.MaxInt32, math.MaxInt32 + 1, math.MaxUint32, math.MaxUint32 + 1, math.MaxInt64, math.MinInt64, math.MinInt32, -128, -129, -2}

func drawBound(t *rapid.T, label string, ln, cp int) uint64 {
	switch rapid.IntRange(0, 3).Draw(t, label+"class") {
	case 0:
		return uint64(int64(rapid.SampledFrom([]int{ln - 1, ln, ln + 1, cp - 1, cp, cp + 1, 0, 1, -1}).Draw(t, label+"near")))
	case 1:
		return uint64(rapid.SampledFrom(bounds).Draw(t, label+"ext"))
	case 2:
		return uint64(rapid.IntRange(0, max(cp, 1)).Draw(t, label+"in"))
	}
	return rapid.Uint64().Draw(t, label+"rand")
}

func drawRequest(t *rapid.T) (request, bool) {
	id := rapid.IntRange(0, len(cases.Ops)-1).Draw(t, "op")
	fam := cases.Ops[id].Family
	r := request{ID: id, Repeat: 1}
	r.Len = rapid.SampledFrom([]int{0, 1, 2, 4, 5, 8, 9, 40}).Draw(t, "len")
	if fam == "index_limit" { // arrays of length 127..65536: draw the coordinates around those limits
		lim := rapid.SampledFrom([]int64{126, 127, 128, 129, 253, 254, 255, 256, 257, 65534, 65535, 65536, 0, 1, -1}).Draw(t, "limit")
		r2 := request{ID: id, Repeat: 1, Len: r.Len, Cap: r.Len}
		r2.Idx = uint64(lim)
		r2.Lo = uint64(rapid.SampledFrom([]int64{0, 1, 127, 128, 254, 255, 256}).Draw(t, "limlo"))
		r2.Hi = uint64(lim)
		return r2, true
	}
	r.Cap = r.Len + rapid.SampledFrom([]int{0, 0, 1, 3, 8}).Draw(t, "extra")
	near := false
	if rapid.Bool().Draw(t, "inrange") { // operands the operation must accept
		r.Lo = uint64(rapid.IntRange(0, r.Len).Draw(t, "lo"))
		r.Hi = uint64(rapid.IntRange(int(r.Lo), r.Len).Draw(t, "hi"))
		r.Max = uint64(rapid.IntRange(int(r.Hi), r.Cap).Draw(t, "max"))
		r.Idx = uint64(rapid.IntRange(0, max(r.Len-1, 0)).Draw(t, "idx"))
		near = r.Idx == uint64(max(r.Len-1, 0)) || r.Hi == uint64(r.Len) || r.Max == uint64(r.Cap)
	} else {
		r.Lo, r.Hi, r.Max, r.Idx = drawBound(t, "lo", r.Len, r.Cap), drawBound(t, "hi", r.Len, r.Cap), drawBound(t, "max", r.Len, r.Cap), drawBound(t, "idx", r.Len, r.Cap)
		near = true
	}
	switch fam {
	case "make":
		// sizes are either small or absurd: anything in between would really allocate
		pick := func(label string) uint64 {
			return uint64(rapid.SampledFrom([]int64{0, 1, 5, 100, 4096, 65535, -1, -5, math.MinInt64, 1 << 62, math.MaxInt64, 1<<56 + 1, -1 << 40}).Draw(t, label))
		}
		r.Lo, r.Hi = safeMake(cases.Ops[id].Name, pick("n")), safeMake(cases.Ops[id].Name, pick("c"))
		if rapid.Bool().Draw(t, "capok") && int64(r.Lo) >= 0 && int64(r.Lo) < 1<<20 {
			r.Hi = r.Lo + uint64(rapid.IntRange(0, 9).Draw(t, "capextra"))
		}
		near = true
	case "divide":
		r.Lo = uint64(rapid.SampledFrom([]int64{0, 1, -1, 7, -7, math.MinInt64, math.MinInt32, -128, -32768, 255, math.MaxInt64}).Draw(t, "x"))
		r.Hi = uint64(rapid.SampledFrom([]int64{0, 0, 1, -1, 3, 256, 1 << 32, 65536}).Draw(t, "y"))
		near = true
	}
	if rapid.IntRange(0, 2).Draw(t, "flagsany") == 0 || strings.HasPrefix(fam, "nil") || fam == "chan" || fam == "index_parr" || fam == "slice_parr" {
		r.Flags = uint64(rapid.IntRange(0, 63).Draw(t, "flags"))
	}
	r.Dyn = uint64(rapid.IntRange(0, 5).Draw(t, "dyn"))
	if rapid.IntRange(0, 3).Draw(t, "rep") == 0 {
		r.Repeat = rapid.SampledFrom([]int{2, 3, 5, 17, 50}).Draw(t, "repeat")
		near = true
	}
	return r, near
}

// safeMake keeps a make() size only if, after conversion to the operation's size type, it is either
// small (< 2^17) or absurd (negative or >= 2^56): anything in between would really be allocated by gc.
func safeMake(opName string, v uint64) uint64 {
	var eff int64
	neg := false
	switch {
	case strings.Contains(opName, "int8)"):
		eff = int64(int8(v))
		neg = eff < 0
	case strings.Contains(opName, "uint32)"):
		eff = int64(uint32(v))
	case strings.Contains(opName, "uint64)"):
		if v >= 1<<56 {
			return v
		}
		eff = int64(v)
	default:
		eff = int64(v)
		neg = eff < 0
	}
	if neg || eff >= 1<<56 || eff < 1<<17 {
		return v
	}
	return 3
}

// knownKey maps a disagreement to the key of a listed finding when the request falls in that finding's
// exact class; otherwise the generic key is returned.
func diffKey(r request, symptom string) string {
	fam := cases.Ops[r.ID].Family
	// field accesses far from a nil base (>= 64 KiB) are a class of their own: they land in mapped memory
	if i := strings.Index(cases.Ops[r.ID].Name, "(offset "); i >= 0 && fam == "nilderef" {
		var off int
		fmt.Sscanf(cases.Ops[r.ID].Name[i:], "(offset %d)", &off)
		if off >= 65536 {
			fam = "nilderef-far-field"
		}
	}
	return "C03:" + fam + ":" + symptom
}

func compare(r request, want, got []exec) (symptom, detail string) {
	for k := range want {
		w, g := want[k], got[k]
		switch {
		case w.Panicked && !g.Panicked:
			return "missed-panic", fmt.Sprintf("execution %d: Go panics (%s), llgo does not (result %d)", k, w.Msg, g.Res)
		case !w.Panicked && g.Panicked:
			return "spurious-panic", fmt.Sprintf("execution %d: Go does not panic (result %d), llgo panics (%s)", k, w.Res, g.Msg)
		case w.Panicked && class(w.Msg) != class(g.Msg):
			return "class", fmt.Sprintf("execution %d: Go panics with %q, llgo with %q", k, w.Msg, g.Msg)
		case w.Trace != g.Trace:
			return "trace", fmt.Sprintf("execution %d: trace points %b vs %b", k, w.Trace, g.Trace)
		case w.Calls != g.Calls || w.Side != g.Side:
			return "order", fmt.Sprintf("execution %d: helper call order %x / side effects %d under Go, %x / %d under llgo", k, w.Calls, w.Side, g.Calls, g.Side)
		case !w.Panicked && w.Res != g.Res:
			return "result", fmt.Sprintf("execution %d: result %d vs %d", k, w.Res, g.Res)
		case w.S != g.S || w.Arr != g.Arr:
			return "surviving-state", fmt.Sprintf("execution %d: operand contents after the operation %v/%x vs %v/%x", k, w.S, w.Arr, g.S, g.Arr)
		}
	}
	for k := range want {
		if want[k].Panicked && want[k].Kind != got[k].Kind {
			return "value-kind", fmt.Sprintf("execution %d: recovered value is kind %d under Go (1 = runtime.Error), kind %d under llgo (3 = plain string)", k, want[k].Kind, got[k].Kind)
		}
	}
	return "", ""
}

func TestC03Tuples(t *testing.T) {
	c := vstat.For("C03")
	defer c.Flush()
	s := load(t)
	for _, sk := range s.Skipped {
		c.Skip("toolchain_llvm14_crash:" + sk)
	}
	rapid.Check(t, func(t *rapid.T) {
		r, near := drawRequest(t)
		fam := cases.Ops[r.ID].Family
		req := r.encode()
		want, ok := decode(cases.Handle(req), r.Repeat)
		if !ok {
			t.Fatalf("VERIF-INFRA malformed native response for %v", r)
		}
		cls := []string{"tuples", "family_" + fam}
		if want[0].Panicked {
			cls = append(cls, "go_panics")
		} else {
			cls = append(cls, "go_does_not_panic")
		}
		if r.Repeat > 1 {
			cls = append(cls, "repeated")
		}
		c.Case(vstat.Hash("c03", fmt.Sprint(r)), near, cls...)
		c.Sample(r.String())
		for _, tg := range s.Targets {
			resp, err := tg.Call(req)
			var symptom, detail string
			if err != nil {
				symptom, detail = "crash", err.Error()
			} else if got, ok := decode(resp, r.Repeat); !ok {
				symptom, detail = "crash", fmt.Sprintf("malformed response (%d bytes)", len(resp))
			} else {
				symptom, detail = compare(r, want, got)
			}
			if symptom == "" {
				continue
			}
			key := diffKey(r, symptom)
			if c.IsKnown(key) {
				c.KnownHit(key)
				continue
			}
			t.Fatalf("[%s] %v on llgo %s: %s", key, r, tg.Cfg, detail)
		}
	})
}
