// Package progdiff runs gencore programs under gc and under the llgo being verified and compares them.
package progdiff

import (
	"fmt"
	"os"
	"path/filepath"
	"regexp"
	"sort"
	"strings"

	"pgregory.net/rapid"
	"verif/harness/gencore"
	"verif/harness/progkit"
	vstat "verifstat"
)

var goroutineDump = regexp.MustCompile(`(?s)\n\ngoroutine \d+ \[.*`)

// normalise reduces an uncaught-panic epilogue to what the property compares: the first panic line by
// class; goroutine dumps, addresses and exit-status lines are dropped.
func normalise(out string) string {
	out = goroutineDump.ReplaceAllString(out, "\n")
	var keep []string
	for _, ln := range strings.Split(out, "\n") {
		switch {
		case strings.HasPrefix(ln, "panic: "):
			msg := strings.TrimPrefix(ln, "panic: ")
			switch {
			case strings.Contains(msg, "index out of range"):
				msg = "runtime error: index out of range"
			case strings.Contains(msg, "nil pointer"):
				msg = "runtime error: nil dereference"
			}
			if i := strings.Index(msg, " [recovered]"); i >= 0 {
				msg = msg[:i]
			}
			keep = append(keep, "panic: "+msg)
		case strings.HasPrefix(ln, "exit status"), strings.HasPrefix(ln, "[signal "), strings.HasPrefix(ln, "\t"), ln == "":
		default:
			keep = append(keep, ln)
		}
	}
	return strings.Join(keep, "\n")
}

func configs() []progkit.Config {
	if os.Getenv("VERIF_TIER") == "thorough" {
		return []progkit.Config{{Opt: "O0"}, {Opt: "O2"}, {Opt: "Oz"}, {Opt: "O0", NoGC: true}, {Opt: "O2", NoGC: true}, {Opt: "O1"}, {Opt: "O3"}}
	}
	return []progkit.Config{{Opt: "O0"}, {Opt: "O2"}, {Opt: "O2", NoGC: true}}
}

// Run builds prog with gc and with every llgo configuration and compares them unit by unit.
func Run(t *rapid.T, c *vstat.Collector, prop string, prog gencore.Program, seq int) {
	tc := progkit.FromEnv()
	dir := filepath.Join(tc.Work, fmt.Sprintf("%s-%d", prop, seq))
	os.RemoveAll(dir)
	defer os.RemoveAll(dir)
	if err := progkit.WriteModule(dir, prog.Files); err != nil {
		t.Fatalf("VERIF-INFRA %v", err)
	}
	ref := tc.RunGc(dir, nil)
	if !ref.BuildOK {
		t.Fatalf("VERIF-INFRA generator produced a program gc rejects:\n%s\n%s", tail(ref.BuildOut, 2000), dump(prog.Files))
	}
	if ref.Timeout {
		t.Fatalf("VERIF-INFRA generated program does not terminate under gc")
	}
	refN := normalise(ref.Out)
	refUnits := progkit.SplitUnits(refN)
	for _, u := range prog.Units {
		cls := []string{"units", "tmpl_" + u.Template}
		if u.Hazard {
			cls = append(cls, "name_hazard_units")
		}
		c.Case(vstat.Hash(prop, u.Template, strings.Join(refUnits[u.ID], "\n")), true, cls...)
	}
	c.Class("programs")
	c.Class("tail_" + prog.Tail)
	c.SampleNow(map[string]any{"units": len(prog.Units), "tail": prog.Tail, "gc_output_head": tail(refN, 300)})
	for _, cfg := range configs() {
		got := tc.RunLlgo(dir, cfg, nil)
		if got.Skip {
			c.Skip("toolchain_llvm14_crash:" + cfg.String())
			continue
		}
		if !got.BuildOK {
			key := prop + ":build"
			if c.IsKnown(key) {
				c.KnownHit(key)
				continue
			}
			t.Fatalf("[%s] llgo %s cannot build a program gc accepts:\n%s\n%s", key, cfg, tail(got.BuildOut, 2000), dump(prog.Files))
		}
		gotN := normalise(got.Out)
		gotUnits := progkit.SplitUnits(gotN)
		for _, u := range prog.Units {
			a, b := strings.Join(refUnits[u.ID], "\n"), strings.Join(gotUnits[u.ID], "\n")
			if a != b {
				key := prop + ":unit:" + u.Template
				if c.IsKnown(key) {
					c.KnownHit(key)
					continue
				}
				t.Fatalf("[%s] llgo %s, unit %d (%s in package %s): gc prints %q, llgo prints %q\n%s", key, cfg, u.ID, u.Template, u.Pkg, a, b, unitSource(prog, u))
			}
		}
		if got.Code != ref.Code || strings.Join(refUnits[-1], "\n") != strings.Join(gotUnits[-1], "\n") {
			key := prop + ":termination:" + prog.Tail
			if c.IsKnown(key) {
				c.KnownHit(key)
				continue
			}
			t.Fatalf("[%s] llgo %s terminates differently: exit %d, %q; gc: exit %d, %q", key, cfg, got.Code, tail(strings.Join(gotUnits[-1], "\n"), 300), ref.Code, tail(strings.Join(refUnits[-1], "\n"), 300))
		}
	}
}

func unitSource(p gencore.Program, u gencore.Unit) string {
	marker := fmt.Sprintf("func U%d()", u.ID)
	for name, src := range p.Files {
		if i := strings.Index(src, marker); i >= 0 {
			lo := max(0, i-1500)
			hi := min(len(src), i+1500)
			return "---- " + name + " (around the unit) ----\n" + src[lo:hi]
		}
	}
	return ""
}

func tail(s string, n int) string {
	if len(s) > n {
		return s[len(s)-n:]
	}
	return s
}

func dump(files map[string]string) string {
	var names []string
	for k := range files {
		names = append(names, k)
	}
	sort.Strings(names)
	var b strings.Builder
	for _, k := range names {
		fmt.Fprintf(&b, "==== %s ====\n%s\n", k, files[k])
	}
	s := b.String()
	if len(s) > 12000 {
		s = s[:12000] + "\n…"
	}
	return s
}
