package c04

// C04: defer / panic / recover / Goexit ordering.  rapid generates programs of many independent units;
// each unit is a small tree of functions mixing unconditional, conditional and loop defers (argument
// snapshotting, closures writing named results, recoverers, re-panickers, nested calls, range-over-func
// bodies) with panics, run-time faults, early returns and Goexit.  Oracle: the same program under gc.

import (
	"fmt"
	"os"
	"path/filepath"
	"strings"
	"testing"

	"pgregory.net/rapid"
	"verif/harness/progkit"
	vstat "verifstat"
)

type gen struct {
	inRangeFunc int
	t           *rapid.T
	b           strings.Builder
	unit        int
	nfn         int
	feats       map[string]bool
	goexit      bool
	nested      bool         // this unit may run recoverers in functions called (directly or not) by a deferred call
	fi          int          // index of the function being generated
	reach       map[int]bool // function index -> it, or something it calls or defers, registers a recoverer
	curRecov    bool
	curRefs     bool
	stormy      bool // the function being generated prefers recovering and panicking deferred calls
}

// canDeferCallee reports whether `defer f<fi+1>(..)` may be emitted: a recoverer that runs in a frame below a
// deferred call while a panic is in flight is the listed finding C04:recover-below-panicking-deferred-call, confined
// to dedicated ("nested") units.
func (g *gen) canDeferCallee() bool {
	if !g.reach[g.fi+1] {
		return true
	}
	if g.nested {
		g.feats["recover_below_deferred_call"] = true
		return true
	}
	return false
}

func (g *gen) pick(n int, label string) int { return rapid.IntRange(0, n-1).Draw(g.t, label) }

const prelude = `package main

%s

type myErr struct{ code int }

func (e myErr) Error() string { return "myErr" }

//go:noinline
func pv(v any) int {
	switch x := v.(type) {
	case nil:
		return -1
	case int:
		return x
	case string:
		return 1000 + len(x)
	case myErr:
		return 2000 + x.code
	case error:
		return 3000
	}
	return 4000
}

//go:noinline
func tr(u, n, x int) { println("#", u, "t", n, x) }

func traceArg(u, n, x int) { println("#", u, "d", n, x) }

//go:noinline
func helperRecover(u int) {
	if e := recover(); e != nil {
		println("#", u, "helper-recovered", pv(e))
	}
}

var nilMap map[int]int
var short = []int{1, 2, 3}

//go:noinline
func fault(kind, i int) int {
	switch kind {
	case 0:
		return short[i]
	case 1:
		nilMap[i] = 1
	case 2:
		var p *myErr
		return p.code
	case 3:
		return 10 / (i - i)
	}
	return 0
}

func seq(n int) func(func(int) bool) {
	return func(yield func(int) bool) {
		for i := 0; i < n; i++ {
			if !yield(i) {
				return
			}
		}
	}
}
`

// body emits statements of one function at the given nesting depth. `r` is the named result, `x` a local.
func (g *gen) body(depth, budget int, inLoop bool) {
	n := 1 + g.pick(4, "nstmts")
	ind := strings.Repeat("\t", depth+1)
	for i := 0; i < n && budget > 0; i++ {
		budget--
		k := g.pick(20, "stmt")
		id := g.pick(90, "id") + 10
		switch {
		case k <= 1:
			fmt.Fprintf(&g.b, "%str(%d, %d, x)\n", ind, g.unit, id)
		case k == 2:
			fmt.Fprintf(&g.b, "%sx = x*3 + %d\n", ind, id)
		case k == 3:
			fmt.Fprintf(&g.b, "%sdefer traceArg(%d, %d, x) // arguments evaluated now\n", ind, g.unit, id)
			g.feat(inLoop, "defer_args")
		case k == 4:
			fmt.Fprintf(&g.b, "%sdefer func() { traceArg(%d, %d, x); r += %d }() // reads x later, changes the result\n", ind, g.unit, id, id)
			g.feat(inLoop, "defer_closure")
		case (k == 5 || k == 6) && g.inRangeFunc == 0:
			// (not inside range-over-func bodies: what a recover by a defer registered there means for the
			// iterator still on the stack is an unsettled corner that gc polices with its own run-time error)
			fmt.Fprintf(&g.b, "%sdefer func() {\n%s\tif e := recover(); e != nil {\n%s\t\tprintln(\"#\", %d, \"recovered\", %d, pv(e))\n%s\t\tr = r*10 + %d\n%s\t}\n%s}()\n", ind, ind, ind, g.unit, id, ind, id%7, ind, ind)
			g.feat(inLoop, "recoverer")
			g.curRecov = true
		case k == 7:
			fmt.Fprintf(&g.b, "%sdefer func() { tr(%d, %d, x); panic(%d) }() // replaces the current panic\n", ind, g.unit, id, id+500)
			g.feat(inLoop, "repanic")
		case k == 8 && depth < 2:
			fmt.Fprintf(&g.b, "%sif x%%2 == %d {\n", ind, g.pick(2, "parity"))
			g.body(depth+1, budget/2, inLoop)
			fmt.Fprintf(&g.b, "%s}\n", ind)
			g.feats["conditional"] = true
		case k == 9 && depth < 2:
			fmt.Fprintf(&g.b, "%sfor i := 0; i < %d; i++ {\n%s\tx += i\n", ind, 1+g.pick(4, "trips"), ind)
			g.body(depth+1, budget/2, true)
			fmt.Fprintf(&g.b, "%s}\n", ind)
			g.feats["loop"] = true
		case k == 10 && depth < 2:
			fmt.Fprintf(&g.b, "%sfor i := range seq(%d) {\n%s\tx += i\n", ind, 1+g.pick(3, "trips"), ind)
			g.inRangeFunc++
			g.body(depth+1, budget/2, true)
			g.inRangeFunc--
			if g.pick(3, "breakout") == 0 {
				fmt.Fprintf(&g.b, "%s\tif i == 1 {\n%s\t\tbreak\n%s\t}\n", ind, ind, ind)
			}
			fmt.Fprintf(&g.b, "%s}\n", ind)
			g.feats["rangefunc"] = true
		case k == 11:
			v := []string{fmt.Sprint(id), fmt.Sprintf("%q", strings.Repeat("s", id%5)), fmt.Sprintf("myErr{%d}", id), "error(myErr{7})"}[g.pick(4, "pval")]
			fmt.Fprintf(&g.b, "%sif x%%%d == 0 {\n%s\tpanic(%s)\n%s}\n", ind, 1+g.pick(3, "pmod"), ind, v, ind)
			g.feats["panic"] = true
		case k == 12:
			fmt.Fprintf(&g.b, "%sif x%%%d == 0 {\n%s\tx += fault(%d, x%%5+3)\n%s}\n", ind, 1+g.pick(3, "fmod"), ind, g.pick(4, "fkind"), ind)
			g.feats["fault"] = true
		case k == 13:
			fmt.Fprintf(&g.b, "%sif x%%%d == 1 {\n%s\treturn x + %d\n%s}\n", ind, 2+g.pick(2, "rmod"), ind, id, ind)
			g.feats["early_return"] = true
		case k == 14 && g.goexit:
			fmt.Fprintf(&g.b, "%sif x%%%d == 0 {\n%s\truntime.Goexit()\n%s}\n", ind, 2+g.pick(3, "gmod"), ind, ind)
			g.feats["goexit"] = true
		case k == 15 && g.nfn < 4:
			callee := g.nfn + 1
			fmt.Fprintf(&g.b, "%sx += f%d_%d(x %% 7)\n", ind, g.unit, callee)
			g.feats["call_chain"] = true
			g.curRefs = true
		case k == 16 && g.nfn < 4 && g.canDeferCallee():
			callee := g.nfn + 1
			g.curRefs = true
			fmt.Fprintf(&g.b, "%sdefer f%d_%d(x %% 5) // deferred call that has defers of its own\n", ind, g.unit, callee)
			g.feat(inLoop, "defer_call")
		default:
			fmt.Fprintf(&g.b, "%sx++\n", ind)
		}
	}
}

// deferStmt emits one defer statement of a drawn kind.
func (g *gen) deferStmt(ind string, inLoop bool) {
	id := g.pick(90, "id") + 10
	k := g.pick(6, "deferkind")
	if g.stormy && g.pick(2, "stormy") == 0 {
		k = 2 + g.pick(2, "recover_or_panic")
	}
	if k == 2 && g.inRangeFunc > 0 {
		k = 0
	}
	if k == 5 && (g.nfn >= 4 || !g.canDeferCallee()) {
		k = 1
	}
	switch k {
	case 0:
		fmt.Fprintf(&g.b, "%sdefer traceArg(%d, %d, x)\n", ind, g.unit, id)
		g.feat(inLoop, "defer_args")
	case 1:
		fmt.Fprintf(&g.b, "%sdefer func() { traceArg(%d, %d, x); r += %d }()\n", ind, g.unit, id, id)
		g.feat(inLoop, "defer_closure")
	case 2:
		fmt.Fprintf(&g.b, "%sdefer func() {\n%s\tif e := recover(); e != nil {\n%s\t\tprintln(\"#\", %d, \"recovered\", %d, pv(e))\n%s\t\tr = r*10 + %d\n%s\t}\n%s}()\n", ind, ind, ind, g.unit, id, ind, id%7, ind, ind)
		g.feat(inLoop, "recoverer")
		g.curRecov = true
	case 3:
		fmt.Fprintf(&g.b, "%sdefer func() { tr(%d, %d, x); panic(%d) }()\n", ind, g.unit, id, id+500)
		g.feat(inLoop, "repanic")
	case 4:
		fmt.Fprintf(&g.b, "%sdefer func(a, b int) { traceArg(%d, a, b) }(%d, x+1)\n", ind, g.unit, id)
		g.feat(inLoop, "defer_args")
	case 5:
		fmt.Fprintf(&g.b, "%sdefer f%d_%d(x %% 5)\n", ind, g.unit, g.nfn+1)
		g.feat(inLoop, "defer_call")
		g.curRefs = true
	}
}

// skeleton emits a function body that is a sequence of defer-registering segments (plain, conditional, counted loop,
// range-over-func) followed by a terminator, so that functions mixing several kinds of defer site, and Goexit/panic
// meeting panicking and recovering deferred calls, are common rather than a rare product of independent choices.
func (g *gen) skeleton() {
	g.feats["skeleton"] = true
	g.stormy = g.pick(3, "stormyFn") == 0
	defer func() { g.stormy = false }()
	nseg := 2 + g.pick(4, "nseg")
	shape := ""
	for s := 0; s < nseg; s++ {
		kind := g.pick(4, "segkind")
		shape += string("pclr"[kind])
		nd := 1 + g.pick(2, "ndefers")
		switch kind {
		case 0:
			for d := 0; d < nd; d++ {
				g.deferStmt("\t", false)
			}
		case 1:
			fmt.Fprintf(&g.b, "\tif x%%2 == %d {\n", g.pick(2, "parity"))
			for d := 0; d < nd; d++ {
				g.deferStmt("\t\t", false)
			}
			fmt.Fprintf(&g.b, "\t}\n")
			g.feats["conditional"] = true
		case 2:
			fmt.Fprintf(&g.b, "\tfor i := 0; i < x%%%d; i++ {\n\t\tx += i\n", 2+g.pick(3, "trips"))
			for d := 0; d < nd; d++ {
				g.deferStmt("\t\t", true)
			}
			fmt.Fprintf(&g.b, "\t}\n")
			g.feats["loop"] = true
		case 3:
			fmt.Fprintf(&g.b, "\tfor i := range seq(%d) {\n\t\tx += i\n", 1+g.pick(3, "trips"))
			g.inRangeFunc++
			for d := 0; d < nd; d++ {
				g.deferStmt("\t\t", true)
			}
			g.inRangeFunc--
			fmt.Fprintf(&g.b, "\t}\n")
			g.feats["rangefunc"] = true
		}
		if g.pick(3, "between") == 0 {
			fmt.Fprintf(&g.b, "\ttr(%d, %d, x)\n\tx = x*3 + 1\n", g.unit, 10+g.pick(90, "id"))
		}
	}
	if strings.Contains(shape, "l") && strings.Contains(shape, "c") && strings.Count(shape, "l")+strings.Count(shape, "r") >= 2 {
		g.feats["loops_around_conditional"] = true
	}
	id := g.pick(90, "id") + 10
	t := g.pick(7, "terminator")
	if g.stormy && t == 0 {
		t = 1 + 2*g.pick(2, "panic_or_goexit")
	}
	switch {
	case t == 1:
		fmt.Fprintf(&g.b, "\tif x%%%d == 0 {\n\t\tpanic(%d)\n\t}\n", 1+g.pick(2, "pmod"), id)
		g.feats["panic"] = true
	case t == 2:
		fmt.Fprintf(&g.b, "\tif x%%%d == 0 {\n\t\tx += fault(%d, x%%5+3)\n\t}\n", 1+g.pick(2, "fmod"), g.pick(4, "fkind"))
		g.feats["fault"] = true
	case (t == 3 || t == 4) && g.goexit:
		fmt.Fprintf(&g.b, "\tif x%%%d == 0 {\n\t\truntime.Goexit()\n\t}\n", 1+g.pick(2, "gmod"))
		g.feats["goexit"] = true
	case t == 5 && g.nfn < 4:
		fmt.Fprintf(&g.b, "\tx += f%d_%d(x %% 7)\n", g.unit, g.nfn+1)
		g.feats["call_chain"] = true
		g.curRefs = true
	case t == 6:
		fmt.Fprintf(&g.b, "\tif x%%2 == 1 {\n\t\treturn x + %d\n\t}\n", id)
		g.feats["early_return"] = true
	}
	fmt.Fprintf(&g.b, "\ttr(%d, %d, x)\n", g.unit, id)
}

func (g *gen) feat(inLoop bool, name string) {
	g.feats[name] = true
	if inLoop {
		g.feats["defer_in_loop"] = true
	}
}

type unitInfo struct {
	Feats  []string
	Source string
}

func (g *gen) unitSrc(u int, indirect, nested bool) unitInfo {
	g.unit, g.feats = u, map[string]bool{}
	g.nested, g.reach = nested, map[int]bool{}
	start := g.b.Len()
	// up to 5 functions f<u>_0 … ; callee indices are larger than caller's, so no recursion
	nf := 1 + g.pick(4, "nfuncs")
	for fi := nf - 1; fi >= 0; fi-- {
		g.nfn, g.fi, g.curRecov, g.curRefs = fi, fi, false, false
		if fi >= nf-1 {
			g.nfn = 4 // the last function calls nobody
		}
		fmt.Fprintf(&g.b, "func f%d_%d(x int) (r int) {\n", u, fi)
		if indirect && fi == 0 {
			// the only unusual feature of this unit: recover is called one frame below the deferred function
			fmt.Fprintf(&g.b, "\tdefer func() { helperRecover(%d) }()\n\tpanic(%d)\n}\n\n", u, 77)
			g.feats["indirect_recover"] = true
			continue
		}
		if g.pick(5, "skeleton") < 2 {
			g.skeleton()
		} else {
			g.body(0, 10, false)
		}
		g.reach[fi] = g.curRecov || (g.curRefs && g.reach[fi+1])
		fmt.Fprintf(&g.b, "\treturn r + x\n}\n\n")
	}
	// fix dangling callee references: functions with index >= nf do not exist
	src := g.b.String()[start:]
	for fi := nf; fi <= 5; fi++ {
		src = strings.ReplaceAll(src, fmt.Sprintf("f%d_%d(", u, fi), fmt.Sprintf("f%d_%d(", u, nf-1))
	}
	// a function must not call or defer itself
	for fi := 0; fi < nf; fi++ {
		self := fmt.Sprintf("func f%d_%d(x int) (r int) {", u, fi)
		i := strings.Index(src, self)
		j := strings.Index(src[i+1:], "\nfunc ")
		end := len(src)
		if j >= 0 {
			end = i + 1 + j
		}
		bodyTxt := src[i:end]
		fixed := strings.ReplaceAll(bodyTxt[len(self):], fmt.Sprintf("f%d_%d(", u, fi), "pvint(")
		src = src[:i] + self + fixed + src[end:]
	}
	var fs []string
	for k := range g.feats {
		fs = append(fs, k)
	}
	return unitInfo{Feats: fs, Source: src}
}

func (g *gen) program(nunits int) (string, []unitInfo) {
	var units []unitInfo
	var all strings.Builder
	var mainBody strings.Builder
	for u := 0; u < nunits; u++ {
		g.b.Reset()
		indirect := g.pick(12, "indirect") == 0
		nested := !indirect && g.pick(10, "nested") == 0
		ui := g.unitSrc(u, indirect, nested)
		units = append(units, ui)
		all.WriteString(ui.Source)
		arg := g.pick(7, "arg")
		inGo := g.goexit || g.pick(4, "goroutine") == 0
		if inGo {
			fmt.Fprintf(&mainBody, "\t{\n\t\tdone := make(chan int)\n\t\tgo func() {\n\t\t\tdefer close(done)\n\t\t\tdefer func() { println(\"#\", %d, \"end\", pv(recover())) }()\n\t\t\tprintln(\"#\", %d, \"res\", f%d_0(%d))\n\t\t}()\n\t\t<-done\n\t}\n", u, u, u, arg)
		} else {
			fmt.Fprintf(&mainBody, "\tfunc() {\n\t\tdefer func() { println(\"#\", %d, \"end\", pv(recover())) }()\n\t\tprintln(\"#\", %d, \"res\", f%d_0(%d))\n\t}()\n", u, u, u, arg)
		}
	}
	imports := ""
	if g.goexit {
		imports = "import (\n\t\"runtime\"\n\t_ \"sync\"\n\t_ \"sync/atomic\"\n)"
	}
	keep := ""
	if g.goexit {
		keep = "var _ = runtime.Goexit\n"
	}
	src := fmt.Sprintf(prelude, imports) + "\n" + keep + "func pvint(x int) int { return x + 1 }\n\n" + all.String() + "func main() {\n" + mainBody.String() + "}\n"
	return src, units
}

func configsFor(goexit bool) []progkit.Config {
	if goexit {
		return []progkit.Config{{Opt: "O0"}, {Opt: "Oz"}}
	}
	return []progkit.Config{{Opt: "O0"}, {Opt: "O2"}}
}

func TestC04Programs(t *testing.T) {
	c := vstat.For("C04")
	defer c.Flush()
	tc := progkit.FromEnv()
	seq := 0
	rapid.Check(t, func(t *rapid.T) {
		seq++
		g := &gen{t: t, goexit: rapid.IntRange(0, 2).Draw(t, "withGoexit") == 0}
		nunits := rapid.IntRange(8, 30).Draw(t, "nunits")
		src, units := g.program(nunits)
		dir := filepath.Join(tc.Work, fmt.Sprintf("c04-%d", seq))
		os.RemoveAll(dir)
		defer os.RemoveAll(dir)
		if err := progkit.WriteModule(dir, map[string]string{"go.mod": "module c04prog\n\ngo 1.24\n", "main.go": src}); err != nil {
			t.Fatalf("VERIF-INFRA %v", err)
		}
		ref := tc.RunGc(dir, nil)
		if !ref.BuildOK {
			t.Fatalf("VERIF-INFRA generator produced a program gc rejects:\n%s\n%s", tail(ref.BuildOut, 1500), numbered(src))
		}
		if ref.Timeout {
			t.Fatalf("VERIF-INFRA generated program does not terminate under gc")
		}
		refUnits := progkit.SplitUnits(ref.Out)
		for u, ui := range units {
			nt := len(ui.Feats) >= 2 && (has(ui.Feats, "panic") || has(ui.Feats, "fault") || has(ui.Feats, "goexit") || has(ui.Feats, "early_return"))
			cls := []string{"units"}
			for _, f := range ui.Feats {
				cls = append(cls, "unit_"+f)
			}
			if has(ui.Feats, "goexit") && has(ui.Feats, "repanic") && has(ui.Feats, "recoverer") {
				cls = append(cls, "unit_goexit_with_panicking_and_recovering_defers")
			}
			c.Case(vstat.Hash("c04", ui.Source, strings.Join(refUnits[u], "\n")), nt, cls...)
			if nt {
				c.Sample(map[string]any{"kind": "unit", "features": ui.Feats, "source": ui.Source, "gc_trace": refUnits[u]})
			}
		}
		c.Class("programs")
		for _, cfg := range configsFor(g.goexit) {
			got := tc.RunLlgo(dir, cfg, nil)
			if got.Skip {
				c.Skip("toolchain_llvm14_crash:" + cfg.String())
				continue
			}
			if !got.BuildOK {
				key := "C04:build"
				if c.IsKnown(key) {
					c.KnownHit(key)
					continue
				}
				t.Fatalf("[%s] llgo %s cannot build a program gc accepts:\n%s\n%s", key, cfg, tail(got.BuildOut, 1500), numbered(src))
			}
			gotUnits := progkit.SplitUnits(got.Out)
			for u := range units {
				a, b := strings.Join(refUnits[u], "\n"), strings.Join(gotUnits[u], "\n")
				if a == b {
					continue
				}
				key := "C04:trace"
				if has(units[u].Feats, "indirect_recover") {
					key = "C04:recover-from-helper-frame"
				} else if has(units[u].Feats, "recover_below_deferred_call") {
					key = "C04:recover-below-panicking-deferred-call"
				}
				if c.IsKnown(key) {
					c.KnownHit(key)
					continue
				}
				t.Fatalf("[%s] llgo %s, unit %d (features %v):\n--- gc ---\n%s\n--- llgo ---\n%s\n--- source of the unit ---\n%s", key, cfg, u, units[u].Feats, a, b, units[u].Source)
			}
			if got.Code != ref.Code || strings.Join(refUnits[-1], "\n") != strings.Join(gotUnits[-1], "\n") {
				key := "C04:process-outcome"
				if c.IsKnown(key) {
					c.KnownHit(key)
					continue
				}
				t.Fatalf("[%s] llgo %s: exit code %d / untagged output %q; gc: %d / %q", key, cfg, got.Code, tail(strings.Join(gotUnits[-1], "\n"), 400), ref.Code, tail(strings.Join(refUnits[-1], "\n"), 400))
			}
		}
	})
}

func has(l []string, s string) bool {
	for _, x := range l {
		if x == s {
			return true
		}
	}
	return false
}

func tail(s string, n int) string {
	if len(s) > n {
		return s[len(s)-n:]
	}
	return s
}

func numbered(src string) string {
	if len(src) > 6000 {
		return src[:6000] + "\n…"
	}
	return src
}
