package c13

// C13: builds are reproducible and the build cache never serves stale code.
//
// rapid generates a module (main -> p1 -> ... -> pN, 2-4 packages; every package has a constant folded into its
// importers at compile time, optionally an embedded file, a C side file named by LLGoFiles, a pair of
// build-tag-selected files, and init-carrying extra files) and a history of 5-12 steps over it: edit a constant
// of the main package or of a (transitive) dependency, edit an embedded file (same or different length), edit
// the C file, toggle the build tag, add / remove a source file, revert the previous edit, rewrite a file with
// identical content (touch), switch the optimisation level, rebuild without change, drop the module's entries
// from the cache, and - in dedicated steps - edit a file keeping its size AND modification time. After every
// step the module is rebuilt by the llgo under test with the same persistent cache directory and run; the
// output must be the one the model computes from the current inputs (every input is printed by construction).
// At the end of a history the module is built twice from an empty module cache and the package archives of
// both builds must have byte-identical members.

import (
	"crypto/sha256"
	"fmt"
	"os"
	"os/exec"
	"path/filepath"
	"sort"
	"strings"
	"testing"
	"time"

	"pgregory.net/rapid"
	"verif/harness/progkit"
	vstat "verifstat"
)

type pkgState struct {
	name     string
	k        int
	hasEmbed bool
	embed    string
	hasC     bool
	cval     int
	hasTag   bool
	tagOn    int
	tagOff   int
	extras   map[int]bool
	hasDecl  bool // imports a declaration-only binding package d<i> (LLGoPackage = "decl") that forwards a constant of c<i>
	declBias int
	declFwd  int
}

type module struct {
	reflectMain bool // package main builds types with reflect (type table of the entry module)
	dir         string
	mainK       int
	pkgs        []*pkgState
	tagOn       bool
	opt         string
}

func (m *module) write(rel, content string) {
	p := filepath.Join(m.dir, rel)
	os.MkdirAll(filepath.Dir(p), 0o755)
	if err := os.WriteFile(p, []byte(content), 0o644); err != nil {
		panic("VERIF-INFRA " + err.Error())
	}
}

func kFile(pkg string, k int) string { return fmt.Sprintf("package %s\n\nconst K = %d\n", pkg, k) }
func cFile(pkg string, v int) string {
	return fmt.Sprintf("int cval_%s(void) { return %d; }\n", pkg, v)
}
func declFile(i, bias int) string {
	return fmt.Sprintf("package d%[1]d\n\nimport (\n\t_ \"unsafe\"\n\n\t\"c13mod/c%[1]d\"\n)\n\nconst LLGoPackage = \"decl\"\n\nconst Fwd = c%[1]d.F\n\nconst Bias = %[2]d\n\n//go:linkname Abs C.abs\nfunc Abs(x int32) int32\n", i, bias)
}

func extraFile(pkg string, n int) string {
	return fmt.Sprintf("package %s\n\nfunc init() { Extra += %d }\n", pkg, n)
}

func (m *module) writeAll() {
	m.write("go.mod", "module c13mod\n\ngo 1.24\n")
	m.write("mk.go", kFile("main", m.mainK))
	if m.reflectMain {
		m.write("main.go", "package main\n\nimport (\n\t\"reflect\"\n\n\t\"c13mod/p1\"\n)\n\ntype rec struct {\n\tA int\n\tB string\n}\n\nfunc main() {\n\tprintln(\"main\", K, p1.Sum)\n\tp1.Report()\n"+
			"\tts := []reflect.Type{reflect.TypeOf(0), reflect.TypeOf(\"\"), reflect.TypeOf(rec{}), reflect.TypeOf(1.5), reflect.TypeOf([]byte(nil))}\n\tn := 0\n\tfor _, t := range ts {\n\t\tn += len(reflect.SliceOf(t).String()) + len(reflect.PointerTo(t).String()) + len(reflect.MapOf(reflect.TypeOf(0), t).String()) + len(reflect.ArrayOf(3, t).String())\n\t}\n\tprintln(\"reflect\", n)\n}\n")
	} else {
		m.write("main.go", "package main\n\nimport \"c13mod/p1\"\n\nfunc main() {\n\tprintln(\"main\", K, p1.Sum)\n\tp1.Report()\n}\n")
	}
	for i, p := range m.pkgs {
		var api strings.Builder
		fmt.Fprintf(&api, "package %s\n\n", p.name)
		dep := ""
		if i+1 < len(m.pkgs) {
			dep = m.pkgs[i+1].name
		}
		var imps []string
		if dep != "" {
			imps = append(imps, fmt.Sprintf("\t\"c13mod/%s\"\n", dep))
		}
		if p.hasEmbed {
			imps = append(imps, "\t_ \"embed\"\n")
		}
		if p.hasC {
			imps = append(imps, "\t_ \"unsafe\"\n")
		}
		if p.hasDecl {
			imps = append(imps, fmt.Sprintf("\t\"c13mod/d%d\"\n", i+1))
			m.write(fmt.Sprintf("d%d/d.go", i+1), declFile(i+1, p.declBias))
			m.write(fmt.Sprintf("c%d/c.go", i+1), fmt.Sprintf("package c%d\n\nconst F = %d\n", i+1, p.declFwd))
		}
		if len(imps) > 0 {
			api.WriteString("import (\n" + strings.Join(imps, "") + ")\n\n")
		}
		if dep != "" {
			fmt.Fprintf(&api, "const Sum = K + %s.Sum*3\n\n", dep)
		} else {
			api.WriteString("const Sum = K\n\n")
		}
		api.WriteString("var Extra int\n\n")
		args := []string{fmt.Sprintf("\"%s\"", p.name), "K", "Sum", "Extra"}
		if p.hasEmbed {
			api.WriteString("//go:embed data.txt\nvar Data string\n\n")
			args = append(args, "len(Data)", "Data")
			m.write(p.name+"/data.txt", p.embed)
		}
		if p.hasC {
			api.WriteString("const LLGoFiles = \"wrap/w.c\"\n\n//go:linkname cval C.cval_" + p.name + "\nfunc cval() int32\n\n")
			args = append(args, "cval()")
			m.write(p.name+"/wrap/w.c", cFile(p.name, p.cval))
		}
		if p.hasDecl {
			args = append(args, fmt.Sprintf("d%d.Bias", i+1), fmt.Sprintf("d%d.Fwd", i+1), fmt.Sprintf("d%d.Abs(-5)", i+1))
		}
		if p.hasTag {
			args = append(args, "Tag()")
			m.write(p.name+"/tag_on.go", fmt.Sprintf("//go:build taga\n\npackage %s\n\nfunc Tag() int { return %d }\n", p.name, p.tagOn))
			m.write(p.name+"/tag_off.go", fmt.Sprintf("//go:build !taga\n\npackage %s\n\nfunc Tag() int { return %d }\n", p.name, p.tagOff))
		}
		fmt.Fprintf(&api, "func Report() {\n\tprintln(%s)\n", strings.Join(args, ", "))
		if dep != "" {
			fmt.Fprintf(&api, "\t%s.Report()\n", dep)
		}
		api.WriteString("}\n")
		m.write(p.name+"/api.go", api.String())
		m.write(p.name+"/k.go", kFile(p.name, p.k))
	}
}

// expected output of the program for the current inputs
func (m *module) expected() string {
	sums := make([]int, len(m.pkgs)+1)
	for i := len(m.pkgs) - 1; i >= 0; i-- {
		sums[i] = m.pkgs[i].k + 3*sums[i+1]
	}
	var b strings.Builder
	fmt.Fprintf(&b, "main %d %d\n", m.mainK, sums[0])
	for i, p := range m.pkgs {
		extra := 0
		for n, on := range p.extras {
			if on {
				extra += n
			}
		}
		f := []string{p.name, fmt.Sprint(p.k), fmt.Sprint(sums[i]), fmt.Sprint(extra)}
		if p.hasEmbed {
			f = append(f, fmt.Sprint(len(p.embed)), p.embed)
		}
		if p.hasC {
			f = append(f, fmt.Sprint(p.cval))
		}
		if p.hasDecl {
			f = append(f, fmt.Sprint(p.declBias), fmt.Sprint(p.declFwd), "5")
		}
		if p.hasTag {
			if m.tagOn {
				f = append(f, fmt.Sprint(p.tagOn))
			} else {
				f = append(f, fmt.Sprint(p.tagOff))
			}
		}
		b.WriteString(strings.Join(f, " ") + "\n")
	}
	if m.reflectMain {
		b.WriteString("reflect 194\n")
	}
	return b.String()
}

func word(t *rapid.T, n int, label string) string {
	b := make([]byte, n)
	for i := range b {
		b[i] = byte('a' + rapid.IntRange(0, 25).Draw(t, label))
	}
	return string(b)
}

func clearModuleCache(xdg string) {
	ms, _ := filepath.Glob(filepath.Join(xdg, "llgo", "build", "*", "c13mod"))
	for _, d := range ms {
		os.RemoveAll(d)
	}
}

// archiveMembers maps every cached archive of the module's packages to the hash of its members' contents (member
// names carry a random temporary suffix and are not compared).
func archiveMembers(xdg string) (map[string]string, error) {
	out := map[string]string{}
	as, _ := filepath.Glob(filepath.Join(xdg, "llgo", "build", "*", "c13mod", "*", "*.a"))
	for _, a := range as {
		data, err := exec.Command("ar", "p", a).Output()
		if err != nil {
			return nil, fmt.Errorf("ar p %s: %v", a, err)
		}
		pkg := filepath.Base(filepath.Dir(a))
		out[pkg] += fmt.Sprintf("%x;", sha256.Sum256(data))
	}
	return out, nil
}

func TestC13Histories(t *testing.T) {
	c := vstat.For("C13")
	defer c.Flush()
	tc := progkit.FromEnv()
	seq := 0
	rapid.Check(t, func(t *rapid.T) {
		seq++
		m := &module{dir: filepath.Join(tc.Work, fmt.Sprintf("c13-%d", seq)), mainK: rapid.IntRange(1, 99).Draw(t, "mainK"), opt: "O0"}
		os.RemoveAll(m.dir)
		defer os.RemoveAll(m.dir)
		xdg := filepath.Join(tc.Work, fmt.Sprintf("c13cache-%d", seq))
		// start from the shard's warm cache (runtime and std archives) so that a history costs seconds
		os.RemoveAll(xdg)
		defer os.RemoveAll(xdg)
		np := rapid.IntRange(1, 3).Draw(t, "npkgs")
		anyEmbed := false
		for i := 0; i < np; i++ {
			p := &pkgState{name: fmt.Sprintf("p%d", i+1), k: rapid.IntRange(1, 99).Draw(t, "k"), extras: map[int]bool{}}
			p.hasEmbed = rapid.IntRange(0, 2).Draw(t, "hasEmbed") == 0
			p.hasC = rapid.IntRange(0, 2).Draw(t, "hasC") == 0
			p.hasTag = rapid.IntRange(0, 2).Draw(t, "hasTag") == 0
			p.embed = word(t, rapid.IntRange(1, 8).Draw(t, "embedlen"), "ch")
			p.cval = rapid.IntRange(1, 99).Draw(t, "cval")
			p.tagOn, p.tagOff = 1000+rapid.IntRange(0, 99).Draw(t, "tagon"), 2000+rapid.IntRange(0, 99).Draw(t, "tagoff")
			p.hasDecl = rapid.Bool().Draw(t, "hasDecl")
			p.declBias, p.declFwd = rapid.IntRange(1, 99).Draw(t, "declBias"), rapid.IntRange(1, 99).Draw(t, "declFwd")
			anyEmbed = anyEmbed || p.hasEmbed
			m.pkgs = append(m.pkgs, p)
		}
		m.reflectMain = rapid.IntRange(0, 2).Draw(t, "reflectMain") == 0
		anyEmbed = anyEmbed || m.reflectMain // reflect, like embed, keeps the module at O0 under LLVM 14
		m.writeAll()
		if m.reflectMain {
			c.Class("history_reflect_in_main")
		}
		for _, p := range m.pkgs {
			if p.hasDecl {
				c.Class("history_decl_only_binding_package")
				break
			}
		}
		bin := filepath.Join(m.dir, "prog.bin")
		build := func() (string, bool, string) {
			cfg := progkit.Config{Opt: m.opt, XDG: xdg}
			if m.tagOn {
				cfg.Tags = []string{"taga"}
			}
			b := tc.BuildLlgo(m.dir, bin, cfg)
			if b.Timeout || b.ToolchainSkip {
				return "", false, "skip"
			}
			if !b.OK {
				return b.Output, false, "build"
			}
			r := progkit.RunProg(bin, nil, 20*time.Second)
			if r.Timeout {
				return "", false, "skip"
			}
			return r.Stdout + r.Stderr, true, ""
		}
		// seed the history's cache: the first build fills it (runtime, std and the module)
		if shared := filepath.Join(tc.Work, "c13warm"); true {
			if _, err := os.Stat(shared); err == nil {
				exec.Command("cp", "-r", shared, xdg).Run()
			}
		}
		out, ok, why := build()
		if why == "skip" {
			c.Skip("toolchain_or_time_budget")
			return
		}
		if !ok {
			t.Fatalf("[C13:build] initial build fails:\n%s", tail(out, 2000))
		}
		if shared := filepath.Join(tc.Work, "c13warm"); true {
			if _, err := os.Stat(shared); err != nil {
				exec.Command("cp", "-r", xdg, shared).Run()
				clearModuleCache(shared)
			}
		}
		if out != m.expected() {
			t.Fatalf("[C13:initial-output] the first build prints\n%s\nexpected\n%s", out, m.expected())
		}
		type undo struct {
			rel, content string
			apply        func()
		}
		var last *undo
		var trace []string
		nsteps := rapid.IntRange(4, 10).Draw(t, "nsteps")
		if m.reflectMain {
			nsteps = rapid.IntRange(1, 3).Draw(t, "nstepsReflect") // every build links reflect: keep these histories short
		}
		for s := 0; s < nsteps; s++ {
			kind := rapid.SampledFrom([]string{"edit_dep_const", "edit_dep_const", "edit_leaf_const", "edit_main_const", "edit_embed", "edit_embed_same_length", "edit_c_file", "toggle_tag", "add_file", "remove_file", "revert", "touch", "noop", "clear_cache", "toggle_opt", "stealth_same_size_same_mtime", "edit_decl_const", "edit_decl_const", "edit_behind_decl", "edit_behind_decl"}).Draw(t, "step")
			pi := rapid.IntRange(0, len(m.pkgs)-1).Draw(t, "pkg")
			p := m.pkgs[pi]
			nontrivial := true
			stealth := false
			desc := kind
			readBack := func(rel string) string {
				b, _ := os.ReadFile(filepath.Join(m.dir, rel))
				return string(b)
			}
			switch kind {
			case "edit_dep_const", "edit_leaf_const":
				if kind == "edit_leaf_const" {
					pi = len(m.pkgs) - 1
					p = m.pkgs[pi]
				}
				rel, old, oldK := p.name+"/k.go", readBack(p.name+"/k.go"), p.k
				p.k = rapid.IntRange(1, 99).Draw(t, "newk")
				m.write(rel, kFile(p.name, p.k))
				pp := p
				last = &undo{rel, old, func() { pp.k = oldK }}
				desc += " " + p.name
			case "edit_main_const":
				rel, old, oldK := "mk.go", readBack("mk.go"), m.mainK
				m.mainK = rapid.IntRange(1, 99).Draw(t, "newk")
				m.write(rel, kFile("main", m.mainK))
				last = &undo{rel, old, func() { m.mainK = oldK }}
				nontrivial = false
			case "edit_embed", "edit_embed_same_length":
				if !p.hasEmbed {
					desc, nontrivial = "noop (package has no embedded file)", false
					break
				}
				rel, old, oldE := p.name+"/data.txt", p.embed, p.embed
				n := len(p.embed)
				if kind == "edit_embed" {
					n = rapid.IntRange(1, 8).Draw(t, "embedlen")
				}
				p.embed = word(t, n, "ch")
				m.write(rel, p.embed)
				pp := p
				last = &undo{rel, old, func() { pp.embed = oldE }}
				desc += " " + p.name
			case "edit_c_file":
				if !p.hasC {
					desc, nontrivial = "noop (package has no C file)", false
					break
				}
				rel, old, oldV := p.name+"/wrap/w.c", readBack(p.name+"/wrap/w.c"), p.cval
				p.cval = rapid.IntRange(1, 99).Draw(t, "cval")
				m.write(rel, cFile(p.name, p.cval))
				pp := p
				last = &undo{rel, old, func() { pp.cval = oldV }}
				desc += " " + p.name
			case "edit_decl_const", "edit_behind_decl":
				if !p.hasDecl { // prefer a package that has a binding package
					for qi, q := range m.pkgs {
						if q.hasDecl {
							pi, p = qi, q
							break
						}
					}
				}
				if !p.hasDecl {
					desc, nontrivial = "noop (package has no declaration-only binding package)", false
					break
				}
				pp := p
				if kind == "edit_decl_const" {
					rel, oldV := fmt.Sprintf("d%d/d.go", pi+1), p.declBias
					old := readBack(rel)
					p.declBias = rapid.IntRange(1, 99).Draw(t, "declBias")
					m.write(rel, declFile(pi+1, p.declBias))
					last = &undo{rel, old, func() { pp.declBias = oldV }}
				} else {
					rel, oldV := fmt.Sprintf("c%d/c.go", pi+1), p.declFwd
					old := readBack(rel)
					p.declFwd = rapid.IntRange(1, 99).Draw(t, "declFwd")
					m.write(rel, fmt.Sprintf("package c%d\n\nconst F = %d\n", pi+1, p.declFwd))
					last = &undo{rel, old, func() { pp.declFwd = oldV }}
				}
				desc += " " + p.name
			case "toggle_tag":
				m.tagOn = !m.tagOn
				last = nil
			case "add_file":
				n := rapid.IntRange(1, 9).Draw(t, "extra")
				p.extras[n] = true
				m.write(fmt.Sprintf("%s/extra_%d.go", p.name, n), extraFile(p.name, n))
				last = nil
				desc += fmt.Sprintf(" %s/extra_%d.go", p.name, n)
			case "remove_file":
				var have []int
				for n, on := range p.extras {
					if on {
						have = append(have, n)
					}
				}
				if len(have) == 0 {
					desc, nontrivial = "noop (no extra file to remove)", false
					break
				}
				sort.Ints(have)
				n := have[rapid.IntRange(0, len(have)-1).Draw(t, "which")]
				p.extras[n] = false
				os.Remove(filepath.Join(m.dir, fmt.Sprintf("%s/extra_%d.go", p.name, n)))
				last = nil
				desc += fmt.Sprintf(" %s/extra_%d.go", p.name, n)
			case "revert":
				if last == nil {
					desc, nontrivial = "noop (nothing to revert)", false
					break
				}
				m.write(last.rel, last.content)
				last.apply()
				desc += " " + last.rel
				last = nil
			case "touch":
				rel := p.name + "/k.go"
				m.write(rel, readBack(rel))
				nontrivial = false
			case "noop":
				nontrivial = false
			case "clear_cache":
				clearModuleCache(xdg)
				nontrivial = false
			case "toggle_opt":
				if anyEmbed {
					desc, nontrivial = "noop (embed needs O0 under LLVM 14)", false
					break
				}
				if m.opt == "O0" {
					m.opt = "O2"
				} else {
					m.opt = "O0"
				}
			case "stealth_same_size_same_mtime":
				// the constant keeps its number of digits; the file keeps its modification time
				rel := p.name + "/k.go"
				full := filepath.Join(m.dir, rel)
				st, err := os.Stat(full)
				if err != nil {
					t.Fatalf("VERIF-INFRA %v", err)
				}
				nk := p.k
				for nk == p.k || len(fmt.Sprint(nk)) != len(fmt.Sprint(p.k)) {
					nk = rapid.IntRange(1, 99).Draw(t, "stealthk")
				}
				p.k = nk
				m.write(rel, kFile(p.name, p.k))
				os.Chtimes(full, st.ModTime(), st.ModTime())
				stealth = true
				last = nil
				desc += " " + p.name
			}
			trace = append(trace, desc)
			c.Case(vstat.Hash("c13", seq, s, desc, m.expected()), nontrivial, "steps", "step_"+kind)
			out, ok, why := build()
			if why == "skip" {
				c.Skip("toolchain_or_time_budget")
				return
			}
			if !ok {
				t.Fatalf("[C13:build] build fails after step %d (%s):\n%s\nhistory: %s", s, desc, tail(out, 1500), strings.Join(trace, " ; "))
			}
			if want := m.expected(); out != want {
				key := "C13:stale-after:" + kind
				if stealth {
					key = "C13:stale:same-size-same-mtime"
				}
				if c.IsKnown(key) {
					c.KnownHit(key)
					// bring the tree and the cache back in step (not judged): a touch makes the edit visible
					rel := p.name + "/k.go"
					m.write(rel, readBack(rel))
					if out2, ok2, _ := build(); !ok2 || out2 != want {
						t.Fatalf("[C13:stale-after:touch] the program still prints old inputs after the edited file was rewritten:\n%s\nexpected\n%s\nhistory: %s", out2, want, strings.Join(trace, " ; "))
					}
					continue
				}
				t.Fatalf("[%s] after step %d (%s) the rebuilt program prints\n%s\nthe current inputs give\n%s\nhistory: %s", key, s, desc, out, want, strings.Join(trace, " ; "))
			}
		}
		c.SampleNow(map[string]any{"packages": len(m.pkgs) + 1, "history": trace})
		// reproducibility: two builds from an empty module cache give identical archive members
		var sets [2]map[string]string
		var exe [2][32]byte
		for k := 0; k < 2; k++ {
			clearModuleCache(xdg)
			if _, ok, why := build(); !ok {
				if why == "skip" {
					c.Skip("toolchain_or_time_budget")
					return
				}
				t.Fatalf("[C13:build] clean rebuild fails")
			}
			ms, err := archiveMembers(xdg)
			if err != nil {
				t.Fatalf("VERIF-INFRA %v", err)
			}
			sets[k] = ms
			data, err := os.ReadFile(bin)
			if err != nil {
				t.Fatalf("VERIF-INFRA %v", err)
			}
			exe[k] = sha256.Sum256(data)
		}
		c.Class("reproducibility_pairs")
		if exe[0] != exe[1] {
			key := "C13:not-reproducible:executable"
			if !c.IsKnown(key) {
				t.Fatalf("[%s] two builds of identical sources from an empty module cache produce different executables (entry module / link inputs differ)\nreflect in main: %v\nhistory: %s", key, m.reflectMain, strings.Join(trace, " ; "))
			}
			c.KnownHit(key)
		}
		if len(sets[0]) < len(m.pkgs) {
			t.Fatalf("VERIF-INFRA expected %d cached package archives, found %d", len(m.pkgs), len(sets[0]))
		}
		for pkg, h := range sets[0] {
			if sets[1][pkg] != h {
				key := "C13:not-reproducible"
				if c.IsKnown(key) {
					c.KnownHit(key)
					continue
				}
				t.Fatalf("[%s] two builds of identical sources from an empty cache produce different archive members for package %s\nhistory: %s", key, pkg, strings.Join(trace, " ; "))
			}
		}
	})
}

func tail(s string, n int) string {
	if len(s) > n {
		return s[len(s)-n:]
	}
	return s
}
