// Package interpkit builds (once per check run, in the prepare step) and starts the llgo-compiled
// interpreter programs for a set of configurations.
package interpkit

import (
	"encoding/json"
	"fmt"
	"os"
	"path/filepath"
	"sync"
	"time"

	"verif/harness/progkit"
)

type Target struct {
	Cfg progkit.Config
	Bin string
	IP  *progkit.Interp
}

// Restart replaces a dead interpreter process by a fresh one.
func (t *Target) Restart() {
	if t.IP != nil {
		t.IP.Close()
	}
	t.IP, _ = progkit.StartInterp(t.Bin, t.Cfg.String())
}

func (t *Target) Call(req []byte) ([]byte, error) {
	if t.IP == nil || t.IP.Dead() {
		t.Restart()
	}
	return t.IP.Call(req, 60*time.Second)
}

type Set struct {
	Targets []*Target
	Skipped []string // configurations that crash libLLVM-14 (toolchain limitation, counted)
	Err     string   // build failure of a valid program: a violation, not an infrastructure problem
}

type saved struct {
	Targets []struct {
		Cfg progkit.Config
		Bin string
	}
	Skipped []string
	Err     string
}

// Configs returns the standard configuration list of a tier for import-free programs.
func Configs() []progkit.Config {
	if os.Getenv("VERIF_TIER") == "thorough" {
		return []progkit.Config{{Opt: "O0"}, {Opt: "O2"}, {Opt: "Oz"}, {Opt: "O0", NoGC: true}, {Opt: "O2", NoGC: true}, {Opt: "O1"}, {Opt: "O3"}}
	}
	return []progkit.Config{{Opt: "O0"}, {Opt: "O2"}, {Opt: "Oz"}, {Opt: "O2", NoGC: true}}
}

// Load returns running interpreters for casesDir: from $VERIF_SHARED/<name>.json when the prepare
// step has built them, otherwise it builds them now (and saves them when VERIF_SHARED is set).
func Load(name, casesDir string, cfgs []progkit.Config) *Set {
	shared := os.Getenv("VERIF_SHARED")
	file := filepath.Join(shared, name+".json")
	s := &Set{}
	if shared != "" {
		if b, err := os.ReadFile(file); err == nil {
			var sv saved
			if json.Unmarshal(b, &sv) == nil {
				s.Skipped, s.Err = sv.Skipped, sv.Err
				for _, e := range sv.Targets {
					t := &Target{Cfg: e.Cfg, Bin: e.Bin}
					t.Restart()
					s.Targets = append(s.Targets, t)
				}
				return s
			}
		}
	}
	tc := progkit.FromEnv()
	res := make([]*Target, len(cfgs))
	errs := make([]string, len(cfgs))
	var wg sync.WaitGroup
	sem := make(chan struct{}, 4)
	for i, cfg := range cfgs {
		wg.Add(1)
		go func(i int, cfg progkit.Config) {
			defer wg.Done()
			sem <- struct{}{}
			defer func() { <-sem }()
			bin, r := tc.BuildInterp(casesDir, cfg)
			if !r.OK {
				if r.ToolchainSkip {
					errs[i] = "SKIP"
				} else {
					out := r.Output
					if len(out) > 2000 {
						out = out[len(out)-2000:]
					}
					errs[i] = fmt.Sprintf("llgo build %v of %s failed: %s", cfg, casesDir, out)
				}
				return
			}
			res[i] = &Target{Cfg: cfg, Bin: bin}
		}(i, cfg)
	}
	wg.Wait()
	var sv saved
	for i, e := range errs {
		switch {
		case e == "SKIP":
			s.Skipped = append(s.Skipped, cfgs[i].String())
		case e != "":
			s.Err += e + "\n"
		default:
			res[i].Restart()
			s.Targets = append(s.Targets, res[i])
			sv.Targets = append(sv.Targets, struct {
				Cfg progkit.Config
				Bin string
			}{res[i].Cfg, res[i].Bin})
		}
	}
	sv.Skipped, sv.Err = s.Skipped, s.Err
	if shared != "" {
		b, _ := json.Marshal(sv)
		os.WriteFile(file, b, 0o644)
	}
	return s
}

func (s *Set) Close() {
	for _, t := range s.Targets {
		if t.IP != nil {
			t.IP.Close()
		}
	}
}
