package c19

// C19: Go and Python exchange values and calls without loss.
//
// rapid generates a program of 12-30 units over three Go packages (main, pa, pb) that use the Python bindings of
// github.com/goplus/lib/py: values (64-bit signed/unsigned integers across the range, floats given by bit
// pattern incl. NaN, infinities, -0 and denormals, valid UTF-8 strings incl. multi-byte and NUL, byte strings,
// nested lists and tuples) are converted to Python objects and read back; bound functions of builtins and math
// are called with positional arguments whose order matters (divmod, round, format, max/min/sum, fmod, atan2,
// copysign, ldexp, pow, hypot, gcd, comb); Python callables fetched by name are invoked through every call
// protocol (CallNoArgs, CallOneArg, CallObject, CallFunctionObjArgs, Call with a tuple) with 0-6 arguments;
// module attributes are looked up by name; package-level initialisers in pa and pb use Python modules before
// main runs. The oracle is CPython itself: the harness emits a Python script that performs the same computation
// and prints the same lines, runs it with python3 (the same 3.11 the program links against), and compares line
// by line per unit. Every line is printed through ascii() so that no encoding is involved.

import (
	"encoding/hex"
	"fmt"
	"math"
	"os"
	"path/filepath"
	"strings"
	"testing"
	"time"
	"unicode/utf8"

	"pgregory.net/rapid"
	"verif/harness/progkit"
	vstat "verifstat"
)

type pval struct {
	kind  string // long ulong float str bytes list tuple raw (a native Go integer, only as an item of a list or tuple)
	gtype string // raw: the Go type
	i     int64
	u     uint64
	bits  uint64
	b     []byte
	items []*pval
}

type gen struct {
	t *rapid.T
}

func (g *gen) n(lo, hi int, l string) int { return rapid.IntRange(lo, hi).Draw(g.t, l) }

var edgeInts = []int64{0, 1, -1, 127, 128, -128, 255, 256, 32767, -32768, 65535, 2147483647, -2147483648, 4294967295, 4294967296, 9007199254740993, math.MaxInt64, math.MinInt64, math.MaxInt64 - 1, math.MinInt64 + 1}
var edgeFloats = []uint64{0, 0x8000000000000000, 0x3ff0000000000000, 0xbff0000000000000, 0x7ff0000000000000, 0xfff0000000000000, 0x7ff8000000000000, 1, 0x000fffffffffffff, 0x0010000000000000, 0x7fefffffffffffff, 0x3fb999999999999a, 0x4340000000000000, 0x4340000000000001, 0x3ca0000000000000}

func (g *gen) long() *pval {
	if g.n(0, 1, "edge") == 0 {
		return &pval{kind: "long", i: edgeInts[g.n(0, len(edgeInts)-1, "edgeint")]}
	}
	return &pval{kind: "long", i: rapid.Int64().Draw(g.t, "i64")}
}

func (g *gen) float() *pval {
	if g.n(0, 1, "edge") == 0 {
		return &pval{kind: "float", bits: edgeFloats[g.n(0, len(edgeFloats)-1, "edgefloat")]}
	}
	return &pval{kind: "float", bits: rapid.Uint64().Draw(g.t, "bits")}
}

func (g *gen) str() *pval {
	var b []byte
	for i, n := 0, g.n(0, 10, "strlen"); i < n; i++ {
		r := []rune{'a', 'Z', '0', ' ', '\'', '"', '\\', '\n', 0, 0x7f, 0xe9, 0x4f60, 0x1f600, 0xfffd, 0x10ffff, 0x80}[g.n(0, 15, "rune")]
		b = utf8.AppendRune(b, r)
	}
	return &pval{kind: "str", b: b}
}

func (g *gen) bytesv() *pval {
	var b []byte
	for i, n := 0, g.n(0, 12, "blen"); i < n; i++ {
		b = append(b, byte(g.n(0, 255, "byte")))
	}
	return &pval{kind: "bytes", b: b}
}

func (g *gen) value(depth int) *pval {
	k := g.n(0, 10, "vkind")
	if depth >= 2 && k >= 6 {
		k %= 6
	}
	allRaw := k >= 9 // a list or tuple made of native Go integers only
	switch k {
	case 0, 1:
		return g.long()
	case 2:
		return &pval{kind: "ulong", u: rapid.Uint64().Draw(g.t, "u64")}
	case 3:
		return g.float()
	case 4:
		return g.str()
	case 5:
		return g.bytesv()
	default:
		v := &pval{kind: []string{"list", "tuple"}[g.n(0, 1, "seq")]}
		for i, n := 0, g.n(0, 4, "nitems"); i < n || (allRaw && i < 3); i++ {
			if allRaw || g.n(0, 2, "rawitem") == 0 {
				// a native Go integer converted by the compiler (every width, both signs, top bit set or not)
				ty := []string{"int8", "int16", "int32", "int64", "int", "uint8", "uint16", "uint32", "uint64", "uint", "uintptr"}[g.n(0, 10, "rawtype")]
				bits := map[string]uint{"int8": 8, "int16": 16, "int32": 32, "int64": 64, "int": 64, "uint8": 8, "uint16": 16, "uint32": 32, "uint64": 64, "uint": 64, "uintptr": 64}[ty]
				pat := []uint64{0, 1, 0x7f, 0x80, 0xc8, 0xff, 0x7fff, 0x8000, 0xffff, 0x7fffffff, 0x80000000, 0xb2d05e00, 0xffffffff, 1 << 63, ^uint64(0), rapid.Uint64().Draw(g.t, "rawbits"), 0xc8c8c8c8c8c8c8c8, 0x8080808080808080, 0xfedcba9876543210, 0xf0f0f0f0f0f0f0f0}[g.n(0, 19, "rawpat")]
				if bits < 64 {
					pat &= 1<<bits - 1
				}
				r := &pval{kind: "raw", gtype: ty, u: pat}
				if ty[0] == 'i' { // sign-extend from the type's width
					r.i = int64(pat<<(64-bits)) >> (64 - bits)
				}
				v.items = append(v.items, r)
				continue
			}
			v.items = append(v.items, g.value(depth+1))
		}
		return v
	}
}

func goBytesLit(b []byte) string {
	var s strings.Builder
	s.WriteString("\"")
	for _, c := range b {
		fmt.Fprintf(&s, "\\x%02x", c)
	}
	s.WriteString("\"")
	return s.String()
}

// goExpr renders v as a Go expression of type *py.Object.
func goExpr(v *pval) string {
	switch v.kind {
	case "long":
		return fmt.Sprintf("py.LongLong(c.LongLong(%d))", v.i)
	case "ulong":
		return fmt.Sprintf("py.UlongLong(c.UlongLong(%d))", v.u)
	case "float":
		return fmt.Sprintf("py.Float(fbits(0x%x))", v.bits)
	case "str":
		return "py.Str(" + goBytesLit(v.b) + ")"
	case "bytes":
		return "mkbytes(" + goBytesLit(v.b) + ")"
	case "raw":
		if v.gtype[0] == 'i' {
			return fmt.Sprintf("rt(%s(%d))", v.gtype, v.i)
		}
		return fmt.Sprintf("rt(%s(%d))", v.gtype, v.u)
	default:
		var it []string
		for _, x := range v.items {
			it = append(it, goExpr(x))
		}
		f := "py.List"
		if v.kind == "tuple" {
			f = "py.Tuple"
		}
		return f + "(" + strings.Join(it, ", ") + ")"
	}
}

func pyExpr(v *pval) string {
	switch v.kind {
	case "long":
		return fmt.Sprintf("(%d)", v.i)
	case "ulong":
		return fmt.Sprintf("%d", v.u)
	case "float":
		return fmt.Sprintf("fbits(0x%x)", v.bits)
	case "str":
		return "bytes.fromhex('" + hex.EncodeToString(v.b) + "').decode('utf-8')"
	case "bytes":
		return "bytes.fromhex('" + hex.EncodeToString(v.b) + "')"
	case "raw":
		if v.gtype[0] == 'i' {
			return fmt.Sprintf("(%d)", v.i)
		}
		return fmt.Sprintf("%d", v.u)
	default:
		var it []string
		for _, x := range v.items {
			it = append(it, pyExpr(x))
		}
		if v.kind == "tuple" {
			if len(it) == 0 {
				return "()"
			}
			return "(" + strings.Join(it, ", ") + ",)"
		}
		return "[" + strings.Join(it, ", ") + "]"
	}
}

const goPrelude = `import (
	"unsafe"

	"github.com/goplus/lib/c"
	"github.com/goplus/lib/py"
	pymath "github.com/goplus/lib/py/math"
	"github.com/goplus/lib/py/std"
)

var _ = pymath.Sqrt
var _ unsafe.Pointer

func fbits(b uint64) float64 { return *(*float64)(unsafe.Pointer(&b)) }

//go:noinline
func rt[T any](v T) T { return v } // makes a native operand a run-time value

// goplus/lib v0.3.1 ships no bytes constructor (py/bytes.go is commented out): bound here directly
//
//go:linkname pyBytesFromStringAndSize C.PyBytes_FromStringAndSize
func pyBytesFromStringAndSize(s *c.Char, n uintptr) *py.Object

func mkbytes(s string) *py.Object {
	return pyBytesFromStringAndSize((*c.Char)(unsafe.Pointer(unsafe.StringData(s))), uintptr(len(s)))
}

func show(u int, tag *c.Char, o *py.Object) {
	if o == nil {
		py.ErrClear()
		c.Printf(c.Str("#%d %s NULL\n"), c.Int(u), tag)
		return
	}
	c.Printf(c.Str("#%d %s %s\n"), c.Int(u), tag, std.Ascii(o).CStr())
}
`

const pyPrelude = `import struct, math, sys, os, builtins

def fbits(b):
    return struct.unpack('<d', struct.pack('<Q', b))[0]

def show(u, tag, o):
    print("#%d %s %s" % (u, tag, ascii(o)))

def rev(*a):
    return ('rev', len(a)) + a[::-1]

def pick(a, b, c=7, *rest):
    return [c, b, a, rest]
`

type bound struct {
	goFn, pyFn string
	args       func(g *gen) []*pval
}

func small(g *gen, lo, hi int) *pval { return &pval{kind: "long", i: int64(g.n(lo, hi, "small"))} }
func nonzero(g *gen) *pval {
	v := g.long()
	if v.i == 0 {
		v.i = 3
	}
	return v
}
func finite(g *gen) *pval {
	v := g.float()
	for v.bits&0x7ff0000000000000 == 0x7ff0000000000000 {
		v.bits = uint64(g.n(1, 1<<30, "mant"))<<22 | 0x3ff0000000000000
	}
	return v
}

var bounds = []bound{
	{"std.Divmod", "divmod", func(g *gen) []*pval { return []*pval{g.long(), nonzero(g)} }},
	{"std.Round", "round", func(g *gen) []*pval { return []*pval{finite(g), small(g, -3, 6)} }},
	{"std.Format", "format", func(g *gen) []*pval {
		return []*pval{g.long(), {kind: "str", b: []byte([]string{"", "x", "+d", "08d", ",", "e", ">12"}[g.n(0, 6, "spec")])}}
	}},
	{"std.Format", "format", func(g *gen) []*pval {
		return []*pval{finite(g), {kind: "str", b: []byte([]string{"", ".3f", "e", "+.2g", "012.4f", "%"}[g.n(0, 5, "spec")])}}
	}},
	{"std.Max", "max", func(g *gen) []*pval {
		var a []*pval
		for i, n := 0, g.n(2, 6, "nargs"); i < n; i++ {
			a = append(a, g.long())
		}
		return a
	}},
	{"std.Min", "min", func(g *gen) []*pval {
		var a []*pval
		for i, n := 0, g.n(2, 6, "nargs"); i < n; i++ {
			a = append(a, finite(g))
		}
		return a
	}},
	{"std.Sum", "sum", func(g *gen) []*pval {
		l := &pval{kind: "list"}
		for i, n := 0, g.n(0, 5, "n"); i < n; i++ {
			l.items = append(l.items, g.long())
		}
		return []*pval{l, g.long()}
	}},
	{"std.Sorted", "sorted", func(g *gen) []*pval {
		l := &pval{kind: "list"}
		for i, n := 0, g.n(0, 6, "n"); i < n; i++ {
			l.items = append(l.items, g.long())
		}
		return []*pval{l}
	}},
	{"std.Len", "len", func(g *gen) []*pval { return []*pval{g.str()} }},
	{"std.Hex", "hex", func(g *gen) []*pval { return []*pval{g.long()} }},
	{"std.Abs", "abs", func(g *gen) []*pval { return []*pval{g.long()} }},
	{"pymath.Fmod", "math.fmod", func(g *gen) []*pval { return []*pval{finite(g), {kind: "float", bits: 0x4008000000000000}} }},
	{"pymath.Atan2", "math.atan2", func(g *gen) []*pval { return []*pval{g.float(), g.float()} }},
	{"pymath.Copysign", "math.copysign", func(g *gen) []*pval { return []*pval{g.float(), g.float()} }},
	{"pymath.Ldexp", "math.ldexp", func(g *gen) []*pval { return []*pval{finite(g), small(g, -60, 60)} }},
	// (math.Hypot is declared in goplus/lib v0.3.1 with a typed Go variadic, ...*py.Object, which is not the
	// __llgo_va_list convention the Python call lowering understands; a defect of that binding, not generated)
	{"pymath.Gcd", "math.gcd", func(g *gen) []*pval { return []*pval{g.long(), g.long(), g.long()} }},
	{"pymath.Comb", "math.comb", func(g *gen) []*pval { return []*pval{small(g, 0, 60), small(g, 0, 60)} }},
	{"pymath.Isqrt", "math.isqrt", func(g *gen) []*pval { return []*pval{{kind: "ulong", u: rapid.Uint64().Draw(g.t, "u")}} }},
}

type unitInfo struct {
	class string
	desc  string
}

func join(vs []*pval, f func(*pval) string) string {
	var s []string
	for _, v := range vs {
		s = append(s, f(v))
	}
	return strings.Join(s, ", ")
}

func TestC19Programs(t *testing.T) {
	c := vstat.For("C19")
	defer c.Flush()
	tc := progkit.FromEnv()
	libpy := "/usr/lib/x86_64-linux-gnu/python3.11"
	if _, err := os.Stat("/usr/lib/x86_64-linux-gnu/libpython3.11.so"); err != nil {
		t.Fatalf("VERIF-INFRA libpython3.11 not found")
	}
	seq := 0
	rapid.Check(t, func(t *rapid.T) {
		seq++
		g := &gen{t: t}
		var goMain, pyMain strings.Builder
		var units []unitInfo
		usesSub := false
		goDecl := map[string]*strings.Builder{"pa": {}, "pb": {}}
		nunits := g.n(12, 30, "nunits")
		for u := 0; u < nunits; u++ {
			switch k := g.n(0, 10, "unit"); {
			case k <= 2: // value to Python and back
				v := g.value(0)
				fmt.Fprintf(&goMain, "\t{\n\t\to := %s\n\t\tshow(%d, c.Str(\"value\"), o)\n", goExpr(v), u)
				fmt.Fprintf(&pyMain, "o = %s\nshow(%d, 'value', o)\n", pyExpr(v), u)
				switch v.kind {
				case "long":
					fmt.Fprintf(&goMain, "\t\tc.Printf(c.Str(\"#%d back %%lld\\n\"), o.LongLong())\n", u)
					fmt.Fprintf(&pyMain, "print('#%d back %%d' %% o)\n", u)
				case "ulong":
					fmt.Fprintf(&goMain, "\t\tc.Printf(c.Str(\"#%d back %%llu\\n\"), o.UlongLong())\n", u)
					fmt.Fprintf(&pyMain, "print('#%d back %%d' %% o)\n", u)
				case "float":
					fmt.Fprintf(&goMain, "\t\tf := o.Float64()\n\t\tc.Printf(c.Str(\"#%d back %%llx\\n\"), *(*uint64)(unsafe.Pointer(&f)))\n", u)
					fmt.Fprintf(&pyMain, "print('#%d back %%x' %% struct.unpack('<Q', struct.pack('<d', o))[0])\n", u)
				case "str":
					// (py.Object).CStrAndLen is bound to a C function with another signature in goplus/lib v0.3.1 and is
					// not used; the length comes from len() and the bytes from the UTF-8 C string up to the first NUL
					fmt.Fprintf(&goMain, "\t\tc.Printf(c.Str(\"#%d back %%ld %%d\\n\"), std.Len(o).Long(), c.Int(c.Strlen(o.CStr())))\n", u)
					fmt.Fprintf(&pyMain, "print('#%d back %%d %%d' %% (len(o), len(o.encode('utf-8').split(b'\\0')[0])))\n", u)
				case "list":
					fmt.Fprintf(&goMain, "\t\tc.Printf(c.Str(\"#%d back %%d\\n\"), c.Int(o.ListLen()))\n", u)
					fmt.Fprintf(&pyMain, "print('#%d back %%d' %% len(o))\n", u)
					for i := range v.items {
						fmt.Fprintf(&goMain, "\t\tshow(%d, c.Str(\"item\"), o.ListItem(%d))\n", u, i)
						fmt.Fprintf(&pyMain, "show(%d, 'item', o[%d])\n", u, i)
					}
				case "tuple":
					fmt.Fprintf(&goMain, "\t\tc.Printf(c.Str(\"#%d back %%d\\n\"), c.Int(o.TupleLen()))\n", u)
					fmt.Fprintf(&pyMain, "print('#%d back %%d' %% len(o))\n", u)
					for i := range v.items {
						fmt.Fprintf(&goMain, "\t\tshow(%d, c.Str(\"item\"), o.TupleItem(%d))\n", u, i)
						fmt.Fprintf(&pyMain, "show(%d, 'item', o[%d])\n", u, i)
					}
				}
				goMain.WriteString("\t}\n")
				units = append(units, unitInfo{"value_" + v.kind, pyExpr(v)})
			case k <= 5: // bound function, positional arguments
				b := bounds[g.n(0, len(bounds)-1, "bound")]
				args := b.args(g)
				fmt.Fprintf(&goMain, "\tshow(%d, c.Str(\"call\"), %s(%s))\n", u, b.goFn, join(args, goExpr))
				fmt.Fprintf(&pyMain, "try:\n    show(%d, 'call', %s(%s))\nexcept Exception:\n    print('#%d call NULL')\n", u, b.pyFn, join(args, pyExpr), u)
				units = append(units, unitInfo{"bound_call", b.pyFn + "(" + join(args, pyExpr) + ")"})
			case k <= 7: // callable fetched by name, every call protocol, arity 0-6
				var args []*pval
				for i, n := 0, g.n(0, 6, "arity"); i < n; i++ {
					args = append(args, g.value(1))
				}
				fn := []string{"rev", "pick"}[g.n(0, 1, "callee")]
				if fn == "pick" && len(args) < 2 {
					fn = "rev"
				}
				proto := g.n(0, 3, "proto")
				fmt.Fprintf(&goMain, "\t{\n\t\tf := py.AddModule(c.Str(\"__main__\")).GetAttrString(c.Str(\"%s\"))\n", fn)
				var call string
				switch {
				case len(args) == 0 && proto%2 == 0:
					call = "f.CallNoArgs()"
				case len(args) == 1 && proto%2 == 0:
					call = "f.CallOneArg(" + goExpr(args[0]) + ")"
				case proto == 1:
					call = "f.CallObject(py.Tuple(" + join(args, goExpr) + "))"
				case proto == 3:
					call = "f.Call(py.Tuple(" + join(args, goExpr) + "), nil)"
				default:
					a := join(args, goExpr)
					if a != "" {
						a += ", "
					}
					call = "f.CallFunctionObjArgs(" + a + "(*py.Object)(nil))"
				}
				fmt.Fprintf(&goMain, "\t\tshow(%d, c.Str(\"callable\"), %s)\n\t}\n", u, call)
				fmt.Fprintf(&pyMain, "show(%d, 'callable', %s(%s))\n", u, fn, join(args, pyExpr))
				units = append(units, unitInfo{fmt.Sprintf("callable_arity_%d", len(args)), fn})
			case k == 10: // functions of a module and of its dotted submodule bound in the same Go package
				usesSub = true
				a, b2 := []string{"usr", "a b", "x/y", ""}[g.n(0, 3, "pa")], []string{"lib", "z.txt", "..", "q"}[g.n(0, 3, "pb")]
				code := g.n(1, 13, "errno")
				which := g.n(0, 2, "first")
				goCalls := []string{
					fmt.Sprintf("\tshow(%d, c.Str(\"fspath\"), pyos.Fspath(py.Str(%q)))\n", u, a),
					fmt.Sprintf("\tshow(%d, c.Str(\"join\"), ospath.Join(py.Str(%q), py.Str(%q)))\n", u, a, b2),
					fmt.Sprintf("\tshow(%d, c.Str(\"basename\"), ospath.Basename(py.Str(%q)))\n", u, a+"/"+b2),
					fmt.Sprintf("\tshow(%d, c.Str(\"strerror\"), pyos.Strerror(py.Long(%d)))\n", u, code),
				}
				pyCalls := []string{
					fmt.Sprintf("show(%d, 'fspath', os.fspath(%q))\n", u, a),
					fmt.Sprintf("show(%d, 'join', os.path.join(%q, %q))\n", u, a, b2),
					fmt.Sprintf("show(%d, 'basename', os.path.basename(%q))\n", u, a+"/"+b2),
					fmt.Sprintf("show(%d, 'strerror', os.strerror(%d))\n", u, code),
				}
				for i := 0; i < 4; i++ {
					goMain.WriteString(goCalls[(i+which)%4])
					pyMain.WriteString(pyCalls[(i+which)%4])
				}
				units = append(units, unitInfo{"module_and_dotted_submodule", "os + os.path"})
			case k == 8: // attribute and module lookup by name
				mod := []string{"math", "sys", "os", "builtins"}[g.n(0, 3, "module")]
				pairs := map[string][]string{"math": {"pi", "inf", "tau", "e"}, "sys": {"maxsize", "byteorder", "maxunicode"}, "os": {"sep", "name", "curdir"}, "builtins": {"__name__"}}
				attr := pairs[mod][g.n(0, len(pairs[mod])-1, "attrname")]
				fmt.Fprintf(&goMain, "\tshow(%d, c.Str(\"attr\"), std.GetAttr(py.ImportModule(c.Str(\"%s\")), py.Str(\"%s\")))\n", u, mod, attr)
				fmt.Fprintf(&pyMain, "show(%d, 'attr', getattr(__import__('%s'), '%s'))\n", u, mod, attr)
				units = append(units, unitInfo{"attribute_lookup", mod + "." + attr})
			default: // package-level initialiser in another Go package uses a Python module before main runs
				pk := []string{"pa", "pb"}[g.n(0, 1, "pkg")]
				v := finite(g)
				w := g.long()
				fmt.Fprintf(goDecl[pk], "var V%d = pymath.Copysign(%s, pymath.Floor(%s))\n\nfunc F%d() *py.Object { return std.Divmod(%s, py.Long(7)) }\n\n", u, goExpr(v), goExpr(v), u, goExpr(w))
				fmt.Fprintf(&goMain, "\tshow(%d, c.Str(\"pkgvar\"), %s.V%d)\n\tshow(%d, c.Str(\"pkgfunc\"), %s.F%d())\n", u, pk, u, u, pk, u)
				fmt.Fprintf(&pyMain, "try:\n    show(%d, 'pkgvar', math.copysign(%s, math.floor(%s)))\nexcept Exception:\n    print('#%d pkgvar NULL')\nshow(%d, 'pkgfunc', divmod(%s, 7))\n", u, pyExpr(v), pyExpr(v), u, u, pyExpr(w))
				units = append(units, unitInfo{"package_level_initialiser_" + pk, ""})
			}
		}
		files := map[string]string{
			"go.mod": "module c19mod\n\ngo 1.24\n\nrequire github.com/goplus/lib v0.3.1\n",
			"go.sum": "github.com/goplus/lib v0.3.1 h1:Xws4DBVvgOMu58awqB972wtvTacDbk3nqcbHjdx9KSg=\ngithub.com/goplus/lib v0.3.1/go.mod h1:SgJv3oPqLLHCu0gcL46ejOP3x7/2ry2Jtxu7ta32kp0=\n",
		}
		imports := ""
		for _, pk := range []string{"pa", "pb"} {
			files[pk+"/"+pk+".go"] = "package " + pk + "\n\n" + strings.Replace(goPrelude, "func show(", "func unusedShow(", 1) + "\n" + goDecl[pk].String()
			imports += "\t\"c19mod/" + pk + "\"\n"
		}
		defs := "def rev(*a):\\n    return ('rev', len(a)) + a[::-1]\\n\\ndef pick(a, b, c=7, *rest):\\n    return [c, b, a, rest]\\n"
		if usesSub {
			imports += "\tpyos \"github.com/goplus/lib/py/os\"\n\t\"c19mod/ospath\"\n"
			files["ospath/ospath.go"] = "// Package ospath binds a few functions of the Python module os.path.\npackage ospath\n\nimport (\n\t_ \"unsafe\"\n\n\t\"github.com/goplus/lib/py\"\n)\n\nconst LLGoPackage = \"py.os.path\"\n\n//go:linkname Join py.join\nfunc Join(__llgo_va_list ...any) *py.Object\n\n//go:linkname Basename py.basename\nfunc Basename(p *py.Object) *py.Object\n"
		}
		files["main.go"] = "package main\n\n" + strings.Replace(goPrelude, "import (", "import (\n"+imports, 1) +
			"\nvar _, _ = pa.Keep, pb.Keep\n\nfunc main() {\n\tpy.RunSimpleString(c.Str(\"" + defs + "\"))\n" + goMain.String() + "}\n"
		for _, pk := range []string{"pa", "pb"} {
			files[pk+"/"+pk+".go"] += "\nconst Keep = 1\n"
		}
		dir := filepath.Join(tc.Work, fmt.Sprintf("c19-%d", seq))
		os.RemoveAll(dir)
		if true {
			defer os.RemoveAll(dir)
		}
		files["oracle.py"] = pyPrelude + "\n" + pyMain.String()
		if err := progkit.WriteModule(dir, files); err != nil {
			t.Fatalf("VERIF-INFRA %v", err)
		}
		// the oracle: CPython running the same computation
		pout, pcode, pto := progkit.RunCmd(dir, os.Environ(), nil, 60*time.Second, "/usr/bin/python3", "oracle.py")
		if pcode != 0 || pto {
			t.Fatalf("VERIF-INFRA the generated oracle script fails under python3 (exit %d):\n%s\n%s", pcode, tail(string(pout), 1500), files["oracle.py"])
		}
		refUnits := progkit.SplitUnits(string(pout))
		for u, in := range units {
			nt := !strings.HasPrefix(in.class, "attribute")
			c.Case(vstat.Hash("c19", in.class, in.desc, strings.Join(refUnits[u], "\n")), nt, "units", in.class)
			if nt {
				c.Sample(map[string]any{"class": in.class, "python": in.desc, "cpython_prints": head(refUnits[u], 3)})
			}
		}
		c.Class("programs")
		got := tc.RunLlgo(dir, progkit.Config{Opt: "O0", Env: []string{"LLGO_LIB_PYTHON=" + libpy}}, nil, "LLGO_LIB_PYTHON="+libpy)
		if got.Skip {
			c.Skip("toolchain_or_build_timeout")
			return
		}
		if !got.BuildOK {
			key := "C19:build"
			if c.IsKnown(key) {
				c.KnownHit(key)
				return
			}
			t.Fatalf("[%s] llgo cannot build the generated program:\n%s\n%s", key, tail(got.BuildOut, 2500), numbered(files["main.go"]))
		}
		if got.Timeout {
			c.Skip("run_time_budget")
			return
		}
		gotUnits := progkit.SplitUnits(got.Out)
		for u, in := range units {
			a, b := strings.Join(refUnits[u], "\n"), strings.Join(gotUnits[u], "\n")
			if a == b {
				continue
			}
			key := "C19:" + strings.SplitN(in.class, "_arity", 2)[0]
			if c.IsKnown(key) {
				c.KnownHit(key)
				continue
			}
			t.Fatalf("[%s] unit %d (%s %s)\n--- CPython ---\n%s\n--- llgo program ---\n%s\n(exit code %d)", key, u, in.class, in.desc, a, b, got.Code)
		}
		if got.Code != 0 {
			key := "C19:process-outcome"
			if c.IsKnown(key) {
				c.KnownHit(key)
				return
			}
			t.Fatalf("[%s] exit code %d; output tail:\n%s", key, got.Code, tail(got.Out, 800))
		}
	})
}

func head(l []string, n int) []string {
	if len(l) > n {
		return l[:n]
	}
	return l
}

func tail(s string, n int) string {
	if len(s) > n {
		return s[len(s)-n:]
	}
	return s
}

func numbered(src string) string {
	var b strings.Builder
	for i, ln := range strings.Split(src, "\n") {
		fmt.Fprintf(&b, "%4d  %s\n", i+1, ln)
	}
	s := b.String()
	if len(s) > 12000 {
		s = s[:12000] + "\n…"
	}
	return s
}
