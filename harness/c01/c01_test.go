package c01

// C01: compiled programs behave as the Go specification prescribes (core language).  Programs come
// from harness/gencore; oracle: the same module built and run with gc (harness/progdiff).

import (
	"testing"

	"pgregory.net/rapid"
	"verif/harness/gencore"
	"verif/harness/progdiff"
	vstat "verifstat"
)

func TestC01Programs(t *testing.T) {
	c := vstat.For("C01")
	defer c.Flush()
	seq := 0
	rapid.Check(t, func(t *rapid.T) {
		seq++
		prog := gencore.Generate(t, rapid.IntRange(10, 24).Draw(t, "nunits"), nil)
		progdiff.Run(t, c, "C01", prog, seq)
	})
}
