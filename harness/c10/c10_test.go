package c10

// C10 (compiled half): channel programs compiled by the llgo under test and run on real threads.
// rapid generates import-free programs (only sync/atomic) of 8-20 units; a unit instantiates one
// template - multi-producer FIFO, multi-producer/multi-consumer exactly-once, close waking blocked
// receivers (plain, range, select), select multiplexing over 2-3 channels, select with default on
// empty/full/nil/closed channels, a select-driven worker pool, unbuffered ping-pong, the capacity
// bound (completed sends - completed receives <= cap, observed by the consumer between receives),
// publication through a channel (plain memory written before a send is visible after the receive) -
// with drawn counts, capacities and busy-wait delays at drawn points (which perturb the interleaving).
// Every unit prints a summary that is the same under every schedule Go allows (counts, sums, number of
// invariant breaches = 0), so the oracle is the output of the gc build of the same program; every
// binary is run several times.  A run that neither ends nor consumes CPU is a deadlock (no timers
// exist in these programs) and is reported; a run that is merely slow is inconclusive.
//
// Selects with a send case are generated on buffered channels only (listed finding
// C10:lost-wakeup:unbuffered-select); one dedicated unit re-checks that finding's shape is the only
// thing excluded by keeping it out of the general population.

import (
	"bytes"
	"fmt"
	"os"
	"os/exec"
	"path/filepath"
	"strconv"
	"strings"
	"syscall"
	"testing"
	"time"

	"pgregory.net/rapid"
	"verif/harness/progkit"
	vstat "verifstat"
)

const prelude = `package main

import "sync/atomic"

var sink uint32

//go:noinline
func spin(n int) {
	for i := 0; i < n; i++ {
		atomic.AddUint32(&sink, 1)
	}
}

`

type unit struct {
	id   int
	tmpl string
	src  string
}

func d(t *rapid.T, label string) int {
	return rapid.SampledFrom([]int{0, 0, 0, 1, 5, 30, 200, 1500}).Draw(t, label)
}

func capDraw(t *rapid.T, label string) int {
	return rapid.SampledFrom([]int{0, 0, 1, 1, 2, 3, 4, 7, 16, 64}).Draw(t, label)
}

var templates = []string{"fifo_mpsc", "mpmc_once", "close_wakes", "close_wakes_range", "close_wakes_select", "select_mux", "select_default", "worker_pool", "pingpong", "capacity_bound", "publication", "nil_in_select", "close_drain", "fifo_select_send", "fifo_select_send", "fifo_select_recv", "ring_rotation"}

func genUnit(t *rapid.T, id int) unit {
	tm := rapid.SampledFrom(templates).Draw(t, "tmpl")
	var b strings.Builder
	p := func(f string, a ...any) { fmt.Fprintf(&b, f, a...) }
	p("func U%d() {\n", id)
	switch tm {
	case "fifo_mpsc":
		P, N, C := rapid.IntRange(1, 5).Draw(t, "P"), rapid.SampledFrom([]int{1, 2, 10, 100, 700}).Draw(t, "N"), capDraw(t, "C")
		dp, dc := d(t, "dp"), d(t, "dc")
		p(`	const P, N = %d, %d
	c := make(chan uint32, %d)
	done := make(chan int, P)
	for p := 0; p < P; p++ {
		go func(p int) {
			for i := 0; i < N; i++ {
				spin(%d)
				c <- uint32(p)<<16 | uint32(i)
			}
			done <- p
		}(p)
	}
	var next [P]int
	bad, sum := 0, 0
	for k := 0; k < P*N; k++ {
		spin(%d)
		v := <-c
		p, i := int(v>>16), int(v&0xffff)
		if p >= P || i != next[p] {
			bad++
		} else {
			next[p]++
		}
		sum += i
	}
	for p := 0; p < P; p++ {
		<-done
	}
	println("#%d fifo_mpsc bad", bad, "sum", sum, "len", len(c), cap(c))
`, P, N, C, dp, dc, id)
	case "mpmc_once":
		P, Q, N, C := rapid.IntRange(1, 4).Draw(t, "P"), rapid.IntRange(2, 4).Draw(t, "Q"), rapid.SampledFrom([]int{1, 3, 50, 400}).Draw(t, "N"), capDraw(t, "C")
		dp, dc, dcl := d(t, "dp"), d(t, "dc"), d(t, "dcl")
		p(`	const P, Q, N = %d, %d, %d
	c := make(chan int, %d)
	pdone := make(chan int, P)
	type res struct{ cnt, sum, bad int; seen []uint8 }
	rc := make(chan res, Q)
	for p := 0; p < P; p++ {
		go func(p int) {
			for i := 0; i < N; i++ {
				spin(%d)
				c <- p*N + i
			}
			pdone <- p
		}(p)
	}
	for q := 0; q < Q; q++ {
		go func() {
			r := res{seen: make([]uint8, P*N)}
			var last [P]int
			for i := range last {
				last[i] = -1
			}
			for v := range c {
				spin(%d)
				if v < 0 || v >= P*N {
					r.bad++
					continue
				}
				r.seen[v]++
				r.cnt++
				r.sum += v
				if v%%N <= last[v/N] {
					r.bad++ // one receiver sees one producer's values in send order
				}
				last[v/N] = v %% N
			}
			rc <- r
		}()
	}
	for p := 0; p < P; p++ {
		<-pdone
	}
	spin(%d)
	close(c)
	tot, sum, bad, dup, miss := 0, 0, 0, 0, 0
	seen := make([]int, P*N)
	for q := 0; q < Q; q++ {
		r := <-rc
		tot += r.cnt
		sum += r.sum
		bad += r.bad
		for i, s := range r.seen {
			seen[i] += int(s)
		}
	}
	for _, s := range seen {
		if s == 0 {
			miss++
		} else if s > 1 {
			dup++
		}
	}
	println("#%d mpmc_once total", tot, "sum", sum, "bad", bad, "dup", dup, "miss", miss)
`, P, Q, N, C, dp, dc, dcl, id)
	case "close_wakes", "close_wakes_range", "close_wakes_select":
		R, C := rapid.IntRange(1, 6).Draw(t, "R"), capDraw(t, "C")
		B := 0
		if C > 0 {
			B = rapid.IntRange(0, min(C, R)).Draw(t, "B")
		}
		dcl, dr := d(t, "dcl"), d(t, "dr")
		p(`	const R, B = %d, %d
	c := make(chan int, %d)
	quit := make(chan struct{})
	_ = quit
	for i := 0; i < B; i++ {
		c <- 100 + i
	}
	type res struct{ v int; ok bool }
	rc := make(chan res, R)
	for r := 0; r < R; r++ {
		go func() {
			spin(%d)
`, R, B, C, dr)
		switch tm {
		case "close_wakes":
			p("\t\t\tv, ok := <-c\n\t\t\trc <- res{v, ok}\n")
		case "close_wakes_range":
			p("\t\t\tn, s := 0, 0\n\t\t\tfor v := range c {\n\t\t\t\tn++\n\t\t\t\ts += v\n\t\t\t}\n\t\t\trc <- res{s, n > 0}\n")
		case "close_wakes_select":
			p("\t\t\tselect {\n\t\t\tcase v, ok := <-c:\n\t\t\t\trc <- res{v, ok}\n\t\t\tcase <-quit:\n\t\t\t\trc <- res{-1, false}\n\t\t\t}\n")
		}
		p(`		}()
	}
	spin(%d)
	close(c)
	oks, sum, zeros, other := 0, 0, 0, 0
	for r := 0; r < R; r++ {
		x := <-rc
		switch {
		case x.ok:
			oks++
			sum += x.v
		case x.v == 0:
			zeros++
		default:
			other++
		}
	}
	v, ok := <-c
	println("#%d %s sum", sum, "other", other, "after", v, ok, len(c))
`, dcl, id, tm)
		if tm == "close_wakes" || tm == "close_wakes_select" {
			p("\tprintln(\"#%d oks\", oks, \"zeros\", zeros)\n", id)
		} else {
			p("\t_, _ = oks, zeros\n")
		}
	case "select_mux":
		K := rapid.IntRange(2, 3).Draw(t, "K")
		p("\tconst K = %d\n\tvar cs [K]chan int\n\tns := [K]int{", K)
		for k := 0; k < K; k++ {
			p("%d, ", rapid.SampledFrom([]int{0, 1, 5, 80, 500}).Draw(t, "N"))
		}
		p("}\n\tcaps := [K]int{")
		for k := 0; k < K; k++ {
			p("%d, ", capDraw(t, "C"))
		}
		p("}\n\tdel := [K]int{")
		for k := 0; k < K; k++ {
			p("%d, ", d(t, "dp"))
		}
		p(`}
	for k := range cs {
		cs[k] = make(chan int, caps[k])
		go func(k int) {
			for i := 0; i < ns[k]; i++ {
				spin(del[k])
				cs[k] <- i
			}
			close(cs[k])
		}(k)
	}
	var sums, next, bad [K]int
	open := K
	c0, c1 := cs[0], cs[1]
	var c2 chan int // stays nil (never ready) when K == 2
	if K > 2 {
		c2 = cs[K-1]
	}
	got := func(k, v int, ok bool) bool {
		if !ok {
			return false
		}
		if v != next[k] {
			bad[k]++
		}
		next[k] = v + 1
		sums[k] += v
		return true
	}
	for open > 0 {
		spin(%d)
		select {
		case v, ok := <-c0:
			if !got(0, v, ok) {
				c0 = nil
				open--
			}
		case v, ok := <-c1:
			if !got(1, v, ok) {
				c1 = nil
				open--
			}
		case v, ok := <-c2:
			if !got(K-1, v, ok) {
				c2 = nil
				open--
			}
		}
	}
	for k := 0; k < K; k++ {
		println("#%d select_mux", k, "sum", sums[k], "bad", bad[k], "n", next[k])
	}
`, d(t, "dc"), id)
	case "select_default":
		C, extra := capDraw(t, "C"), rapid.IntRange(0, 3).Draw(t, "extra")
		p(`	const C = %d
	c := make(chan int, C)
	sent, dflt := 0, 0
	for i := 0; i < C+%d; i++ {
		select {
		case c <- i:
			sent++
		default:
			dflt++
		}
	}
	println("#%d select_default sent", sent, "default", dflt, "len", len(c))
	recvd, bad := 0, 0
	dflt = 0
	for i := 0; i < C+%d; i++ {
		select {
		case v := <-c:
			if v != recvd {
				bad++
			}
			recvd++
		default:
			dflt++
		}
	}
	println("#%d drained", recvd, "bad", bad, "default", dflt, "len", len(c))
	var nilc chan int
	select {
	case nilc <- 1:
		println("#%d nil send chosen")
	case <-nilc:
		println("#%d nil recv chosen")
	default:
		println("#%d nil default")
	}
	if C > 0 {
		c <- 7
	}
	close(c)
	for i := 0; i < 3; i++ {
		select {
		case v, ok := <-c:
			println("#%d closed recv", v, ok)
		default:
			println("#%d closed default")
		}
	}
`, C, extra, id, extra, id, id, id, id, id, id)
	case "worker_pool":
		W, J := rapid.IntRange(1, 4).Draw(t, "W"), rapid.SampledFrom([]int{1, 2, 20, 300}).Draw(t, "J")
		CJ, CR := 1+capDraw(t, "CJ"), 1+capDraw(t, "CR")
		p(`	const W, J = %d, %d
	jobs, results := make(chan int, %d), make(chan int, %d)
	for w := 0; w < W; w++ {
		go func() {
			for j := range jobs {
				spin(%d)
				results <- j * j
			}
		}()
	}
	next, got, sum := 0, 0, 0
	out := jobs
	for got < J {
		if next == J {
			out = nil
		}
		select {
		case out <- next:
			next++
		case r := <-results:
			got++
			sum += r
		}
	}
	close(jobs)
	println("#%d worker_pool got", got, "sum", sum, "next", next, len(results))
`, W, J, CJ, CR, d(t, "dw"), id)
	case "pingpong":
		N := rapid.SampledFrom([]int{1, 2, 50, 1000}).Draw(t, "N")
		p(`	const N = %d
	a, b := make(chan int), make(chan int)
	done := make(chan int)
	go func() {
		bad := 0
		for i := 0; i < N; i++ {
			v := <-a
			if v != 2*i {
				bad++
			}
			spin(%d)
			b <- v + 1
		}
		done <- bad
	}()
	bad := 0
	for i := 0; i < N; i++ {
		a <- 2 * i
		spin(%d)
		if v := <-b; v != 2*i+1 {
			bad++
		}
	}
	println("#%d pingpong bad", bad, <-done)
`, N, d(t, "d1"), d(t, "d2"), id)
	case "capacity_bound":
		P, N, C := rapid.IntRange(1, 3).Draw(t, "P"), rapid.SampledFrom([]int{3, 40, 400}).Draw(t, "N"), capDraw(t, "C")
		p(`	const P, N, C = %d, %d, %d
	c := make(chan int, C)
	var sent int64 // completed sends, incremented after the send returns
	for p := 0; p < P; p++ {
		go func() {
			for i := 0; i < N; i++ {
				spin(%d)
				c <- i
				atomic.AddInt64(&sent, 1)
			}
		}()
	}
	bad, over := 0, 0
	for r := 0; r < P*N; r++ {
		// between two receives of the only receiver: completed sends - completed receives = buffered values <= cap
		spin(%d)
		if s := atomic.LoadInt64(&sent); s-int64(r) > C {
			bad++
		}
		if len(c) > C {
			over++
		}
		<-c
	}
	println("#%d capacity_bound bad", bad, "over", over)
`, P, N, C, d(t, "dp"), rapid.SampledFrom([]int{0, 30, 200, 1500, 5000}).Draw(t, "dc"), id)
	case "publication":
		N, C := rapid.SampledFrom([]int{1, 16, 300}).Draw(t, "N"), capDraw(t, "C")
		p(`	const N = %d
	var data [N][4]int
	c := make(chan int, %d)
	go func() {
		for i := 0; i < N; i++ {
			data[i] = [4]int{i, i * 3, i ^ 5, -i}
			spin(%d)
			c <- i
		}
		close(c)
	}()
	bad, n := 0, 0
	for i := range c {
		if data[i] != [4]int{i, i * 3, i ^ 5, -i} {
			bad++
		}
		n++
	}
	println("#%d publication bad", bad, "n", n)
`, N, C, d(t, "dp"), id)
	case "nil_in_select":
		N := rapid.SampledFrom([]int{1, 10, 200}).Draw(t, "N")
		p(`	const N = %d
	c := make(chan int, %d)
	var never chan int
	go func() {
		for i := 0; i < N; i++ {
			spin(%d)
			c <- i
		}
	}()
	sum, wrong := 0, 0
	for i := 0; i < N; i++ {
		select {
		case v := <-c:
			sum += v
		case v := <-never:
			wrong += v + 1
		case never <- i:
			wrong++
		}
	}
	println("#%d nil_in_select sum", sum, "wrong", wrong)
`, N, capDraw(t, "C"), d(t, "dp"), id)
	case "fifo_select_send":
		// producers send through select (with default and retry, or blocking with a never-ready second case) into a buffered channel
		P, N, C := rapid.IntRange(1, 3).Draw(t, "P"), rapid.SampledFrom([]int{2, 10, 100, 600}).Draw(t, "N"), 1+capDraw(t, "C")
		blocking := rapid.Bool().Draw(t, "blocking")
		p(`	const P, N = %d, %d
	c := make(chan uint32, %d)
	var never chan int
	_ = never
	for p := 0; p < P; p++ {
		go func(p int) {
			for i := 0; i < N; i++ {
				spin(%d)
				v := uint32(p)<<16 | uint32(i)
`, P, N, C, d(t, "dp"))
		if blocking {
			p("\t\t\t\tselect {\n\t\t\t\tcase c <- v:\n\t\t\t\tcase <-never:\n\t\t\t\t}\n")
		} else {
			p("\t\t\t\tfor ok := false; !ok; {\n\t\t\t\t\tselect {\n\t\t\t\t\tcase c <- v:\n\t\t\t\t\t\tok = true\n\t\t\t\t\tdefault:\n\t\t\t\t\t\tspin(3)\n\t\t\t\t\t}\n\t\t\t\t}\n")
		}
		p(`			}
		}(p)
	}
	var next [P]int
	bad, sum := 0, 0
	for k := 0; k < P*N; k++ {
		spin(%d)
		v := <-c
		p, i := int(v>>16), int(v&0xffff)
		if p >= P || i != next[p] {
			bad++
		} else {
			next[p]++
		}
		sum += i
	}
	println("#%d fifo_select_send bad", bad, "sum", sum, "len", len(c))
`, d(t, "dc"), id)
	case "fifo_select_recv":
		P, N, C := rapid.IntRange(1, 3).Draw(t, "P"), rapid.SampledFrom([]int{2, 10, 100, 600}).Draw(t, "N"), capDraw(t, "C")
		p(`	const P, N = %d, %d
	c := make(chan uint32, %d)
	for p := 0; p < P; p++ {
		go func(p int) {
			for i := 0; i < N; i++ {
				spin(%d)
				c <- uint32(p)<<16 | uint32(i)
			}
		}(p)
	}
	var next [P]int
	bad, sum, k := 0, 0, 0
	for k < P*N {
		select {
		case v := <-c:
			p, i := int(v>>16), int(v&0xffff)
			if p >= P || i != next[p] {
				bad++
			} else {
				next[p]++
			}
			sum += i
			k++
		default:
			spin(%d)
		}
	}
	println("#%d fifo_select_recv bad", bad, "sum", sum, "len", len(c))
`, P, N, C, d(t, "dp"), 1+d(t, "dc"), id)
	case "ring_rotation":
		// one goroutine: a drawn schedule of select-sends, plain sends, select-receives and plain receives that never blocks
		C := rapid.IntRange(1, 9).Draw(t, "C")
		p("\tc := make(chan int, %d)\n\tnextv, expect, bad, n := 0, 0, 0, 0\n", C)
		length := 0
		steps := rapid.IntRange(4, 40).Draw(t, "steps")
		for sidx := 0; sidx < steps; sidx++ {
			op := rapid.IntRange(0, 3).Draw(t, "op")
			if length == 0 && op >= 2 {
				op -= 2
			}
			if length == C && op < 2 {
				op += 2
			}
			switch op {
			case 0:
				p("\tselect {\n\tcase c <- nextv:\n\t\tnextv++\n\tdefault:\n\t\tbad += 1000\n\t}\n")
				length++
			case 1:
				p("\tc <- nextv\n\tnextv++\n")
				length++
			case 2:
				p("\tselect {\n\tcase v := <-c:\n\t\tif v != expect {\n\t\t\tbad++\n\t\t}\n\t\texpect++\n\t\tn++\n\tdefault:\n\t\tbad += 1000\n\t}\n")
				length--
			case 3:
				p("\tif v := <-c; v != expect {\n\t\tbad++\n\t}\n\texpect++\n\tn++\n")
				length--
			}
		}
		p("\tprintln(\"#%d ring_rotation bad\", bad, \"n\", n, \"len\", len(c), \"left\", nextv-expect)\n", id)
	case "close_drain":
		C := 1 + capDraw(t, "C")
		B := rapid.IntRange(0, C).Draw(t, "B")
		p(`	c := make(chan int, %d)
	for i := 0; i < %d; i++ {
		c <- i * 7
	}
	close(c)
	n, sum := 0, 0
	for {
		v, ok := <-c
		if !ok {
			println("#%d close_drain end", v, n, sum, len(c), cap(c))
			break
		}
		n++
		sum += v
	}
	v, ok := <-c
	println("#%d again", v, ok)
`, C, B, id, id)
	}
	p("}\n\n")
	return unit{id: id, tmpl: tm, src: b.String()}
}

func genProgram(t *rapid.T) (string, []unit) {
	n := rapid.IntRange(8, 20).Draw(t, "nunits")
	var units []unit
	var b strings.Builder
	b.WriteString(prelude)
	for i := 0; i < n; i++ {
		u := genUnit(t, i)
		units = append(units, u)
		b.WriteString(u.src)
	}
	b.WriteString("func main() {\n")
	for i := 0; i < n; i++ {
		fmt.Fprintf(&b, "\tU%d()\n", i)
	}
	b.WriteString("\tprintln(\"done\")\n}\n")
	return b.String(), units
}

type runRes struct {
	out      string
	code     int
	deadlock bool // alive after the grace period without consuming CPU
	slow     bool // alive and busy: inconclusive
}

func cpuTicks(pid int) (int64, bool) {
	b, err := os.ReadFile(fmt.Sprintf("/proc/%d/stat", pid))
	if err != nil {
		return 0, false
	}
	s := string(b)
	i := strings.LastIndex(s, ")")
	if i < 0 {
		return 0, false
	}
	f := strings.Fields(s[i+1:])
	if len(f) < 14 {
		return 0, false
	}
	u, _ := strconv.ParseInt(f[11], 10, 64)
	k, _ := strconv.ParseInt(f[12], 10, 64)
	return u + k, true
}

func runBin(bin string) runRes {
	cmd := exec.Command(bin)
	var buf bytes.Buffer
	cmd.Stdout, cmd.Stderr = &buf, &buf
	cmd.SysProcAttr = &syscall.SysProcAttr{Setpgid: true}
	if err := cmd.Start(); err != nil {
		return runRes{out: "VERIF-INFRA " + err.Error(), code: 127}
	}
	done := make(chan error, 1)
	go func() { done <- cmd.Wait() }()
	var r runRes
	finish := func(err error) runRes {
		if err != nil {
			r.code = 1
			if ee, ok := err.(*exec.ExitError); ok {
				r.code = ee.ExitCode()
				if ws, ok := ee.Sys().(syscall.WaitStatus); ok && ws.Signaled() {
					r.code = 128 + int(ws.Signal())
				}
			}
		}
		r.out = buf.String()
		return r
	}
	select {
	case err := <-done:
		return finish(err)
	case <-time.After(20 * time.Second):
	}
	// still alive: blocked or slow?  Sample the process's CPU time over three seconds, twice.
	idle := 0
	for k := 0; k < 2; k++ {
		a, ok1 := cpuTicks(cmd.Process.Pid)
		select {
		case err := <-done:
			return finish(err)
		case <-time.After(3 * time.Second):
		}
		b, ok2 := cpuTicks(cmd.Process.Pid)
		if ok1 && ok2 && a == b {
			idle++
		}
	}
	if idle == 2 {
		r.deadlock = true
	} else {
		select {
		case err := <-done:
			return finish(err)
		case <-time.After(60 * time.Second):
			r.slow = true
		}
	}
	syscall.Kill(-cmd.Process.Pid, syscall.SIGKILL)
	<-done
	r.out = buf.String()
	return r
}

func configs() []progkit.Config {
	if os.Getenv("VERIF_TIER") == "thorough" {
		return []progkit.Config{{Opt: "O0"}, {Opt: "O2"}, {Opt: "Oz"}, {Opt: "O2", NoGC: true}, {Opt: "O1"}, {Opt: "O3"}}
	}
	return []progkit.Config{{Opt: "O0"}, {Opt: "O2"}}
}

func tail(s string, n int) string {
	if len(s) > n {
		return s[len(s)-n:]
	}
	return s
}

func TestC10Programs(t *testing.T) {
	c := vstat.For("C10")
	defer c.Flush()
	tc := progkit.FromEnv()
	reps := 6
	if os.Getenv("VERIF_TIER") == "thorough" {
		reps = 25
	}
	n := 0
	rapid.Check(t, func(t *rapid.T) {
		n++
		src, units := genProgram(t)
		dir := filepath.Join(tc.Work, fmt.Sprintf("c10-%d", n))
		os.RemoveAll(dir)
		defer os.RemoveAll(dir)
		if err := progkit.WriteModule(dir, map[string]string{"go.mod": "module c10mod\n\ngo 1.24\n", "main.go": src}); err != nil {
			t.Fatalf("VERIF-INFRA %v", err)
		}
		gcbin := filepath.Join(dir, "gcprog")
		if b := tc.BuildGc(dir, gcbin); !b.OK {
			t.Fatalf("VERIF-INFRA generator produced a program gc rejects:\n%s\n%s", tail(b.Output, 1500), src)
		}
		ref := runBin(gcbin)
		if ref.code != 0 || ref.deadlock || ref.slow || !strings.HasSuffix(ref.out, "done\n") {
			t.Fatalf("VERIF-INFRA reference run failed (exit %d deadlock %v slow %v):\n%s\n%s", ref.code, ref.deadlock, ref.slow, tail(ref.out, 1200), src)
		}
		// the templates are schedule-independent by construction: check it on the reference itself
		for k := 0; k < 2; k++ {
			if again := runBin(gcbin); again.out != ref.out {
				t.Fatalf("VERIF-INFRA template output depends on the schedule under gc:\n%s\n---\n%s\n%s", ref.out, again.out, src)
			}
		}
		os.Remove(gcbin)
		refUnits := progkit.SplitUnits(ref.out)
		for _, u := range units {
			c.Case(vstat.Hash("c10b", u.src), u.tmpl != "select_default" && u.tmpl != "close_drain", "compiled_units", "compiled_tmpl_"+u.tmpl)
		}
		c.Class("compiled_programs")
		c.SampleNow(map[string]any{"job": "programs", "units": len(units), "gc_output_head": strings.Split(ref.out, "\n")[:min(5, strings.Count(ref.out, "\n"))]})
		for _, cfg := range configs() {
			bin := filepath.Join(dir, "llprog")
			b := tc.BuildLlgo(dir, bin, cfg)
			if !b.OK {
				if b.ToolchainSkip || b.Timeout {
					c.Skip("toolchain_or_timeout:" + cfg.String())
					continue
				}
				key := "C10:compiled:build"
				if c.IsKnown(key) {
					c.KnownHit(key)
					continue
				}
				t.Fatalf("[%s] llgo %s cannot build a channel program gc accepts:\n%s\n%s", key, cfg, tail(b.Output, 1500), src)
			}
			for r := 0; r < reps; r++ {
				got := runBin(bin)
				c.Class("compiled_runs")
				if got.slow {
					c.Skip("run_slow_inconclusive:" + cfg.String())
					continue
				}
				if got.out == ref.out && got.code == 0 && !got.deadlock {
					continue
				}
				gu := progkit.SplitUnits(got.out)
				tm, uid := "termination", -1
				for _, u := range units {
					if strings.Join(refUnits[u.id], "\n") != strings.Join(gu[u.id], "\n") {
						tm, uid = u.tmpl, u.id
						break
					}
				}
				key := "C10:compiled:" + tm
				if got.deadlock {
					key = "C10:compiled:deadlock:" + tm
				}
				if c.IsKnown(key) {
					c.KnownHit(key)
					continue
				}
				usrc := ""
				if uid >= 0 {
					usrc = units[uid].src
				}
				t.Fatalf("[%s] llgo %s run %d: unit %d differs from every schedule Go allows (exit %d, deadlock %v)\n--- gc ---\n%s\n--- llgo ---\n%s\n--- unit ---\n%s", key, cfg, r, uid, got.code, got.deadlock,
					strings.Join(refUnits[uid], "\n"), tail(strings.Join(gu[uid], "\n")+"\n[tail] "+tail(got.out, 400), 1500), usrc)
			}
			os.Remove(bin)
		}
	})
}
