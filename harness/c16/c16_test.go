package c16

// C16 (compiled half): what a compiled program finds in its //go:embed variables.  rapid generates a
// module of 1-3 packages; every package directory holds a drawn tree of files (sizes around block
// boundaries, NUL / 0xFF / quote / backslash / CRLF bytes, empty files, hidden and underscore names,
// names with blanks and non-ASCII runes, nested directories) and 1-5 embed variables of type string,
// []byte and embed.FS (single files, directories, all: directories, globs, several patterns, the same
// file reached by two variables).  The program prints, for every variable, length and FNV hash of the
// bytes, and for every embed.FS a full walk (ReadDir listing per directory, ReadFile, Stat, chunked
// Read, Seek, ReadAt, Open of missing names, ReadFile of a directory).  Oracle: the same module built
// with gc.  Which files a pattern selects is the in-process job's subject (go list differential); here
// the bytes and the FS behaviour that reach the running program are decided.

import (
	"fmt"
	"os"
	"path/filepath"
	"sort"
	"strings"
	"testing"

	"pgregory.net/rapid"
	"verif/harness/progkit"
	vstat "verifstat"
)

var fileNames = []string{"a.txt", "b.bin", "data", "x y.txt", "ünï.txt", ".hidden", "_under", "z.json", "UPPER.TXT", "a-b", "a.b.d", "q.txt", "r.txt", "a", "a0", "B"}
var dirNames = []string{"d", "sub", "d.e", "_ud", ".hd", "a", "d-", "d0", "E"}

var sizes = []int{0, 0, 1, 2, 3, 7, 8, 9, 15, 16, 17, 31, 32, 33, 63, 64, 65, 255, 256, 257, 1023, 1024, 4095, 4096, 4097, 65537}

func genContent(t *rapid.T) ([]byte, string) {
	n := rapid.SampledFrom(sizes).Draw(t, "size")
	kind := rapid.SampledFrom([]string{"ascii", "zeros", "ff", "random", "crlf", "quotes", "utf8", "nulmix"}).Draw(t, "kind")
	b := make([]byte, n)
	switch kind {
	case "ascii":
		for i := range b {
			b[i] = byte('a' + i%26)
		}
	case "zeros":
	case "ff":
		for i := range b {
			b[i] = 0xFF
		}
	case "random":
		s := rapid.Uint64().Draw(t, "rnd")
		for i := range b {
			s = s*6364136223846793005 + 1442695040888963407
			b[i] = byte(s >> 56)
		}
	case "crlf":
		for i := range b {
			b[i] = "line\r\n\n\r"[i%8]
		}
	case "quotes":
		for i := range b {
			b[i] = "\"\\'`%\\0a\\n$"[i%11]
		}
	case "utf8":
		src := "héllo wörld ☃ 𝄞 "
		for i := range b {
			b[i] = src[i%len(src)]
		}
	case "nulmix":
		for i := range b {
			if i%3 == 0 {
				b[i] = 0
			} else {
				b[i] = byte(i)
			}
		}
	}
	return b, kind
}

type tree struct {
	files map[string][]byte // relative path -> content
	dirs  []string          // relative directory paths ("" excluded)
}

func genTree(t *rapid.T, feats map[string]bool) *tree {
	tr := &tree{files: map[string][]byte{}}
	var fill func(prefix string, depth int)
	fill = func(prefix string, depth int) {
		nf := rapid.IntRange(1, 4).Draw(t, "nfiles")
		names := rapid.Permutation(fileNames).Draw(t, "fnames")[:nf]
		if !visible(names[0]) { // every directory holds a visible file, so that directory and glob patterns always select something
			names[0] = "v.txt"
		}
		for _, n := range names {
			c, kind := genContent(t)
			tr.files[prefix+n] = c
			feats["content_"+kind] = true
			if len(c) == 0 {
				feats["empty_file"] = true
			}
			if len(c) > 4096 {
				feats["file_over_4k"] = true
			}
			if n[0] == '.' || n[0] == '_' {
				feats["hidden_or_underscore_file"] = true
			}
		}
		if depth < 3 {
			nd := rapid.IntRange(0, 2).Draw(t, "ndirs")
			dn := rapid.Permutation(dirNames).Draw(t, "dnames")
			k := 0
			for _, d := range dn {
				if k >= nd {
					break
				}
				if _, clash := tr.files[prefix+d]; clash {
					continue
				}
				k++
				tr.dirs = append(tr.dirs, prefix+d)
				if d[0] == '.' || d[0] == '_' {
					feats["hidden_or_underscore_dir"] = true
				}
				fill(prefix+d+"/", depth+1)
			}
		}
	}
	fill("", 0)
	return tr
}

func visible(p string) bool {
	for _, e := range strings.Split(p, "/") {
		if e[0] == '.' || e[0] == '_' {
			return false
		}
	}
	return true
}

// hasVisibleFile reports whether embedding directory d without all: selects at least one file.
func (tr *tree) hasVisibleFile(d string) bool {
	for p := range tr.files {
		if strings.HasPrefix(p, d+"/") && visible(p[len(d)+1:]) {
			return true
		}
	}
	return false
}

func (tr *tree) sortedFiles() []string {
	var s []string
	for p := range tr.files {
		s = append(s, p)
	}
	sort.Strings(s)
	return s
}

func quotePat(p string) string {
	if strings.ContainsAny(p, " ") {
		return "\"" + p + "\""
	}
	return p
}

const helpers = `
func h(p []byte) uint32 {
	x := uint32(2166136261)
	for _, c := range p {
		x = (x ^ uint32(c)) * 16777619
	}
	return x
}

func hs(s string) uint32 {
	x := uint32(2166136261)
	for i := 0; i < len(s); i++ {
		x = (x ^ uint32(s[i])) * 16777619
	}
	return x
}

func Walk(tag string, f embed.FS) {
	fs.WalkDir(f, ".", func(p string, d fs.DirEntry, err error) error {
		if err != nil {
			println(tag, "walkerr", p)
			return nil
		}
		if d.IsDir() {
			es, e2 := f.ReadDir(p)
			names := ""
			for _, e := range es {
				names += e.Name()
				if e.IsDir() {
					names += "/"
				}
				names += "|"
			}
			println(tag, "dir", p, len(es), e2 == nil, names, d.Type().String())
			_, e3 := f.ReadFile(p)
			println(tag, "readfile-of-dir-fails", e3 != nil)
			return nil
		}
		data, e1 := f.ReadFile(p)
		info, _ := d.Info()
		println(tag, "file", p, len(data), h(data), e1 == nil, info.Name(), info.Size(), info.Mode().String(), info.ModTime().IsZero(), info.IsDir())
		fl, e4 := f.Open(p)
		if e4 != nil {
			println(tag, "openerr", p)
			return nil
		}
		buf := make([]byte, 7)
		var all []byte
		reads := 0
		for {
			n, err := fl.Read(buf)
			all = append(all, buf[:n]...)
			reads++
			if err != nil {
				println(tag, "eof", err == io.EOF, reads)
				break
			}
			if reads > 100 {
				buf = make([]byte, 4093)
			}
		}
		println(tag, "chunked", len(all), h(all))
		if sk, ok := fl.(io.Seeker); ok && len(data) > 0 {
			o, e5 := sk.Seek(-1, io.SeekEnd)
			one := make([]byte, 4)
			n, _ := fl.Read(one)
			println(tag, "seek", o, e5 == nil, n, one[0])
			o2, e6 := sk.Seek(int64(len(data)/2), io.SeekStart)
			n2, _ := fl.Read(one)
			println(tag, "seek2", o2, e6 == nil, n2, h(one[:n2]))
			_, e7 := sk.Seek(-1, io.SeekStart)
			println(tag, "seekneg", e7 != nil)
		}
		if ra, ok := fl.(io.ReaderAt); ok {
			four := make([]byte, 4)
			n, e8 := ra.ReadAt(four, int64(len(data))-2)
			println(tag, "readat", n, e8 == io.EOF, h(four[:max(n, 0)]))
		}
		st, _ := fl.Stat()
		println(tag, "stat", st.Name(), st.Size())
		println(tag, "close", fl.Close() == nil)
		return nil
	})
	_, err := f.Open("nope/none")
	println(tag, "missing", err != nil, errors.Is(err, fs.ErrNotExist))
	_, err = f.Open("../x")
	println(tag, "invalid", err != nil)
	_, err = f.ReadDir("nope")
	println(tag, "readdir-missing", err != nil)
}
`

type embedVar struct {
	name, kind string // kind: string, bytes, fs
	pats       []string
}

func genModule(t *rapid.T) (files map[string][]byte, feats map[string]bool, nvars int) {
	feats = map[string]bool{}
	files = map[string][]byte{"go.mod": []byte("module c16mod\n\ngo 1.24\n")}
	files["hh/hh.go"] = []byte("package hh\n\nimport (\n\t\"embed\"\n\t\"errors\"\n\t\"io\"\n\t\"io/fs\"\n)\n\nfunc H(p []byte) uint32 { return h(p) }\nfunc HS(s string) uint32 { return hs(s) }\n" + helpers)
	npk := rapid.IntRange(1, 3).Draw(t, "npkgs")
	var mainBody, finalBody strings.Builder // finalBody: every string / []byte variable once more after all the writes
	var mainImports []string
	unit := 0
	for pi := 0; pi < npk; pi++ {
		pkg, dir := "main", ""
		if pi > 0 {
			pkg = fmt.Sprintf("p%d", pi)
			dir = pkg + "/"
			mainImports = append(mainImports, "c16mod/"+pkg)
		}
		tr := genTree(t, feats)
		for p, c := range tr.files {
			files[dir+p] = c
		}
		all := tr.sortedFiles()
		nv := rapid.IntRange(1, 5).Draw(t, "nvars")
		var vars []embedVar
		var reuse, lastBytes string
		for v := 0; v < nv; v++ {
			ev := embedVar{name: fmt.Sprintf("V%d", v)}
			switch rapid.IntRange(0, 5).Draw(t, "vkind") {
			case 0:
				ev.kind = "string"
			case 1, 2:
				ev.kind = "bytes"
			default:
				ev.kind = "fs"
			}
			if ev.kind != "fs" {
				f := all[rapid.IntRange(0, len(all)-1).Draw(t, "file")]
				if reuse != "" && rapid.Bool().Draw(t, "reuse") {
					f = reuse
					feats["same_file_in_two_variables"] = true
				}
				if ev.kind == "bytes" {
					if lastBytes != "" && rapid.Bool().Draw(t, "reusebytes") {
						f = lastBytes
						feats["same_file_in_two_byte_slices"] = true
					}
					lastBytes = f
				}
				reuse = f
				ev.pats = []string{f}
				if strings.Contains(f, "/") {
					feats["single_file_in_subdirectory"] = true
				}
			} else {
				np := rapid.IntRange(1, 3).Draw(t, "npats")
				for k := 0; k < np; k++ {
					switch rapid.IntRange(0, 4).Draw(t, "pkind") {
					case 0: // a file
						ev.pats = append(ev.pats, all[rapid.IntRange(0, len(all)-1).Draw(t, "pfile")])
					case 1, 2: // a directory, with or without all:
						if len(tr.dirs) == 0 {
							ev.pats = append(ev.pats, all[0])
							break
						}
						d := tr.dirs[rapid.IntRange(0, len(tr.dirs)-1).Draw(t, "pdir")]
						if rapid.Bool().Draw(t, "all") || !tr.hasVisibleFile(d) {
							ev.pats = append(ev.pats, "all:"+d)
							feats["all_prefix"] = true
						} else {
							ev.pats = append(ev.pats, d)
							feats["directory_pattern"] = true
						}
					case 3: // glob over the package directory (always matches: every level has >= 1 file; .go files match too)
						ev.pats = append(ev.pats, "*")
						feats["glob_star"] = true
					case 4:
						if len(tr.dirs) > 0 {
							d := tr.dirs[rapid.IntRange(0, len(tr.dirs)-1).Draw(t, "gdir")]
							ev.pats = append(ev.pats, d+"/*")
							feats["glob_in_directory"] = true
						} else {
							ev.pats = append(ev.pats, "*")
						}
					}
				}
				if len(ev.pats) > 1 {
					feats["several_patterns"] = true
				}
			}
			vars = append(vars, ev)
		}
		var src strings.Builder
		fmt.Fprintf(&src, "package %s\n\nimport (\n\t\"embed\"\n", pkg)
		if pkg == "main" {
			src.WriteString("\t\"c16mod/hh\"\n")
		}
		src.WriteString(")\n\nvar _ embed.FS\n\n")
		prefix := ""
		if pkg != "main" {
			prefix = pkg + "."
		}
		for _, ev := range vars {
			var qp []string
			for _, p := range ev.pats {
				qp = append(qp, quotePat(p))
			}
			typ := map[string]string{"string": "string", "bytes": "[]byte", "fs": "embed.FS"}[ev.kind]
			if len(qp) > 1 && rapid.Bool().Draw(t, "splitlines") {
				for _, q := range qp {
					fmt.Fprintf(&src, "//go:embed %s\n", q)
				}
				feats["directive_on_several_lines"] = true
			} else {
				fmt.Fprintf(&src, "//go:embed %s\n", strings.Join(qp, " "))
			}
			fmt.Fprintf(&src, "var %s %s\n\n", ev.name, typ)
			ref := prefix + ev.name
			tag := fmt.Sprintf("#%d", unit)
			switch ev.kind {
			case "string":
				fmt.Fprintf(&mainBody, "\tprintln(%q, \"string\", len(%s), hh.HS(%s))\n", tag, ref, ref)
				fmt.Fprintf(&finalBody, "\tprintln(%q, \"string-at-end\", len(%s), hh.HS(%s))\n", tag, ref, ref)
			case "bytes":
				fmt.Fprintf(&mainBody, "\tprintln(%q, \"bytes\", len(%s), cap(%s) >= len(%s), hh.H(%s))\n", tag, ref, ref, ref, ref)
				// a []byte variable is writable and private to the variable
				fmt.Fprintf(&mainBody, "\tif len(%s) > 0 { %s[len(%s)-1] ^= 0x55; println(%q, \"after-write\", hh.H(%s)) }\n", ref, ref, ref, tag, ref)
				fmt.Fprintf(&finalBody, "\tprintln(%q, \"bytes-at-end\", len(%s), hh.H(%s))\n", tag, ref, ref)
			case "fs":
				fmt.Fprintf(&mainBody, "\thh.Walk(%q, %s)\n", tag, ref)
			}
			unit++
		}
		if pkg == "main" {
			files["main.go"] = []byte(src.String())
		} else {
			files[dir+pkg+".go"] = []byte(src.String())
		}
	}
	// second pass over string variables after the []byte writes: strings must be unaffected
	ms := string(files["main.go"])
	var imp strings.Builder
	for _, im := range mainImports {
		fmt.Fprintf(&imp, "\t%q\n", im)
	}
	ms = strings.Replace(ms, "\t\"c16mod/hh\"\n", "\t\"c16mod/hh\"\n"+imp.String(), 1)
	ms += "func main() {\n" + mainBody.String() + finalBody.String() + "\tprintln(\"done\")\n}\n"
	files["main.go"] = []byte(ms)
	return files, feats, unit
}

func writeModule(dir string, files map[string][]byte) error {
	for name, c := range files {
		p := filepath.Join(dir, name)
		if err := os.MkdirAll(filepath.Dir(p), 0o755); err != nil {
			return err
		}
		if err := os.WriteFile(p, c, 0o644); err != nil {
			return err
		}
	}
	return nil
}

func dump(files map[string][]byte) string {
	var names []string
	for k := range files {
		names = append(names, k)
	}
	sort.Strings(names)
	var b strings.Builder
	for _, k := range names {
		if strings.HasSuffix(k, ".go") && k != "hh/hh.go" {
			fmt.Fprintf(&b, "==== %s ====\n%s\n", k, files[k])
		} else {
			fmt.Fprintf(&b, "==== %s (%d bytes)\n", k, len(files[k]))
		}
	}
	s := b.String()
	if len(s) > 9000 {
		s = s[:9000] + "\n…"
	}
	return s
}

func tail(s string, n int) string {
	if len(s) > n {
		return s[len(s)-n:]
	}
	return s
}

func TestC16Programs(t *testing.T) {
	c := vstat.For("C16")
	defer c.Flush()
	tc := progkit.FromEnv()
	n := 0
	rapid.Check(t, func(t *rapid.T) {
		n++
		files, feats, nvars := genModule(t)
		dir := filepath.Join(tc.Work, fmt.Sprintf("c16-%d", n))
		os.RemoveAll(dir)
		defer os.RemoveAll(dir)
		if err := writeModule(dir, files); err != nil {
			t.Fatalf("VERIF-INFRA %v", err)
		}
		ref := tc.RunGc(dir, nil)
		if !ref.BuildOK {
			t.Fatalf("VERIF-INFRA generator produced a module gc rejects:\n%s\n%s", tail(ref.BuildOut, 1500), dump(files))
		}
		if ref.Code != 0 || !strings.Contains(ref.Out, "done") {
			t.Fatalf("VERIF-INFRA reference run failed (exit %d):\n%s", ref.Code, tail(ref.Out, 1500))
		}
		var fl []string
		for k := range feats {
			fl = append(fl, k)
		}
		sort.Strings(fl)
		nt := (feats["content_zeros"] || feats["content_nulmix"] || feats["content_ff"] || feats["content_random"] || feats["empty_file"] || feats["file_over_4k"]) && nvars >= 2
		cls := []string{"compiled_modules"}
		for _, f := range fl {
			cls = append(cls, "embed_"+f)
		}
		c.Case(vstat.Hash("c16b", dump(files), ref.Out), nt, cls...)
		c.ClassN("compiled_embed_variables", nvars)
		c.SampleNow(map[string]any{"job": "programs", "features": fl, "variables": nvars, "gc_output_head": strings.Split(ref.Out, "\n")[:min(6, strings.Count(ref.Out, "\n"))]})
		got := tc.RunLlgo(dir, progkit.Config{Opt: "O0"}, nil)
		if got.Skip {
			c.Skip("toolchain_or_timeout:O0")
			return
		}
		if !got.BuildOK {
			key := "C16:compiled:build"
			if c.IsKnown(key) {
				c.KnownHit(key)
				return
			}
			t.Fatalf("[%s] llgo cannot build a module with embed variables that gc accepts:\n%s\n%s", key, tail(got.BuildOut, 1500), dump(files))
		}
		if got.Out == ref.Out && got.Code == ref.Code {
			return
		}
		ru, gu := progkit.SplitUnits(ref.Out), progkit.SplitUnits(got.Out)
		for u := 0; u < nvars; u++ {
			a, b := strings.Join(ru[u], "\n"), strings.Join(gu[u], "\n")
			if a != b {
				kind := "fs"
				if len(ru[u]) > 0 {
					f := strings.Fields(ru[u][0])
					if len(f) > 1 && (f[1] == "string" || f[1] == "bytes") {
						kind = f[1]
					}
				}
				key := "C16:compiled:" + kind
				if c.IsKnown(key) {
					c.KnownHit(key)
					continue
				}
				t.Fatalf("[%s] embed variable #%d differs from gc:\n--- gc ---\n%s\n--- llgo ---\n%s\n%s", key, u, firstDiff(ru[u], gu[u]), "", dump(files))
			}
		}
		key := "C16:compiled:termination"
		if !c.IsKnown(key) {
			t.Fatalf("[%s] llgo run ends differently: exit %d vs %d\n--- gc tail ---\n%s\n--- llgo tail ---\n%s\n%s", key, got.Code, ref.Code, tail(ref.Out, 600), tail(got.Out, 600), dump(files))
		}
		c.KnownHit(key)
	})
}

func firstDiff(a, b []string) string {
	for i := 0; i < len(a) || i < len(b); i++ {
		var x, y string
		if i < len(a) {
			x = a[i]
		}
		if i < len(b) {
			y = b[i]
		}
		if x != y {
			return fmt.Sprintf("line %d:\n  gc:   %s\n  llgo: %s", i, x, y)
		}
	}
	return "(same lines, different order?)"
}
