package c14

// C14b: link names are unique per entity and consistent across packages, observed end to end: programs
// made only of naming-hazard units (identical type, method, function, variable and closure names in two
// packages both called "pa", nested closures in methods, closures in package-level initialisers and
// init, generic functions and types instantiated with same-named function-local types from several
// packages, bound-method thunks, dotted module and package paths). Every entity returns a token of its
// own, so a merged or mis-bound symbol prints the wrong value (or fails to link); oracle: gc.

import (
	"testing"

	"pgregory.net/rapid"
	"verif/harness/gencore"
	"verif/harness/progdiff"
	vstat "verifstat"
)

func TestC14Programs(t *testing.T) {
	c := vstat.For("C14")
	defer c.Flush()
	seq := 0
	rapid.Check(t, func(t *rapid.T) {
		seq++
		prog := gencore.Generate(t, rapid.IntRange(10, 24).Draw(t, "nunits"), func(name string, hazard bool) bool { return hazard })
		progdiff.Run(t, c, "C14", prog, seq)
	})
}
