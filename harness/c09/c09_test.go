package c09

// C09: values cross the Go/C boundary intact.  rapid generates C-compatible struct shapes and call
// signatures; a Go main package (bound to a generated C file through LLGoFiles) passes them to C,
// receives them from C and hands them to Go callbacks invoked by C.  Each side folds every scalar it
// received into an FNV checksum; the expected checksums are computed by this harness from the
// generated values alone, and the C side is compiled by the host clang, which defines the ABI.

import (
	"fmt"
	"math"
	"os"
	"path/filepath"
	"sort"
	"strings"
	"testing"

	"pgregory.net/rapid"
	"verif/harness/progkit"
	vstat "verifstat"
)

type scalar struct {
	Go, C string
	Bits  int
	Float bool
	Sign  bool
}

var scalars = []scalar{{"int8", "int8_t", 8, false, true}, {"uint8", "uint8_t", 8, false, false}, {"int16", "int16_t", 16, false, true}, {"uint16", "uint16_t", 16, false, false},
	{"int32", "int32_t", 32, false, true}, {"uint32", "uint32_t", 32, false, false}, {"int64", "int64_t", 64, false, true}, {"uint64", "uint64_t", 64, false, false},
	{"float32", "float", 32, true, true}, {"float64", "double", 64, true, true}}

// field tree of a struct shape
type node struct {
	Sc     *scalar // leaf
	Arr    int     // >0: array of Elem
	Elem   *node
	Fields []*node // struct
	Name   string  // struct type name when nested
}

type value struct {
	Sc   *scalar
	Lit  string // literal valid in Go and C
	Bits uint64 // what the checksum folds
}

type gen struct {
	t           *rapid.T
	seq         int
	gosrc, csrc strings.Builder
	nstruct     int
}

func (g *gen) n(lo, hi int, l string) int { return rapid.IntRange(lo, hi).Draw(g.t, l) }

func (g *gen) scalar(l string) *scalar { return &scalars[g.n(0, len(scalars)-1, l)] }

// value draws a literal of scalar type with the top bit / a non-trivial mantissa set most of the time
func (g *gen) value(sc *scalar) value {
	if sc.Float {
		iv := int64(g.n(-32000, 32000, "fv"))
		den := []float64{1, 2, 4, 8}[g.n(0, 3, "den")]
		f := float64(iv) / den
		if sc.Bits == 32 {
			return value{sc, fmt.Sprintf("%v", f), uint64(math.Float32bits(float32(f)))}
		}
		return value{sc, fmt.Sprintf("%v", f), math.Float64bits(f)}
	}
	raw := rapid.Uint64().Draw(g.t, "iv")
	if g.n(0, 3, "hibit") > 0 {
		raw |= 1 << 63
	}
	sh := uint(64 - sc.Bits)
	if sc.Sign {
		v := int64(raw) >> sh // sign-extended value of that width
		lit := fmt.Sprint(v)
		if v == math.MinInt64 {
			lit = "(-9223372036854775807 - 1)"
		}
		return value{sc, lit, uint64(v)}
	}
	v := raw >> sh
	return value{sc, fmt.Sprintf("%d", v), v}
}

// shape draws a struct of total size <= 80 bytes, biased towards SysV classification edges
func (g *gen) shape(depth int) *node {
	nd := &node{}
	g.nstruct++
	nd.Name = fmt.Sprintf("S%d", g.nstruct)
	nf := g.n(1, 6, "nfields")
	switch g.n(0, 9, "edge") {
	case 0: // all-float
		for i := 0; i < g.n(1, 4, "nf"); i++ {
			nd.Fields = append(nd.Fields, &node{Sc: &scalars[8+g.n(0, 1, "fk")]})
		}
		return nd
	case 1: // float + int in one eightbyte
		nd.Fields = []*node{{Sc: &scalars[8]}, {Sc: &scalars[4]}, {Sc: &scalars[9]}}
		return nd
	case 2: // exactly two eightbytes of integers
		nd.Fields = []*node{{Sc: &scalars[6]}, {Sc: &scalars[7]}}
		return nd
	case 3: // double + int64
		nd.Fields = []*node{{Sc: &scalars[9]}, {Sc: &scalars[6]}}
		return nd
	}
	for i := 0; i < nf; i++ {
		k := g.n(0, 9, "fkind")
		switch {
		case k == 0 && depth < 1:
			nd.Fields = append(nd.Fields, g.shape(depth+1))
		case k == 1:
			nd.Fields = append(nd.Fields, &node{Arr: g.n(1, 4, "alen"), Elem: &node{Sc: g.scalar("aelem")}})
		default:
			nd.Fields = append(nd.Fields, &node{Sc: g.scalar("fsc")})
		}
	}
	return nd
}

func size(nd *node) (sz, al int) {
	switch {
	case nd.Sc != nil:
		return nd.Sc.Bits / 8, nd.Sc.Bits / 8
	case nd.Arr > 0:
		s, a := size(nd.Elem)
		return s * nd.Arr, a
	}
	off, maxA := 0, 1
	for _, f := range nd.Fields {
		s, a := size(f)
		off = (off + a - 1) / a * a
		off += s
		if a > maxA {
			maxA = a
		}
	}
	return (off + maxA - 1) / maxA * maxA, maxA
}

// declare emits the Go and C type declarations of a struct (nested ones first)
func (g *gen) declare(nd *node) {
	for _, f := range nd.Fields {
		if f.Fields != nil {
			g.declare(f)
		}
	}
	var gs, cs strings.Builder
	fmt.Fprintf(&gs, "type %s struct {\n", nd.Name)
	fmt.Fprintf(&cs, "typedef struct {\n")
	for i, f := range nd.Fields {
		switch {
		case f.Sc != nil:
			fmt.Fprintf(&gs, "\tf%d %s\n", i, f.Sc.Go)
			fmt.Fprintf(&cs, "\t%s f%d;\n", f.Sc.C, i)
		case f.Arr > 0:
			fmt.Fprintf(&gs, "\tf%d [%d]%s\n", i, f.Arr, f.Elem.Sc.Go)
			fmt.Fprintf(&cs, "\t%s f%d[%d];\n", f.Elem.Sc.C, i, f.Arr)
		default:
			fmt.Fprintf(&gs, "\tf%d %s\n", i, f.Name)
			fmt.Fprintf(&cs, "\t%s f%d;\n", f.Name, i)
		}
	}
	gs.WriteString("}\n\n")
	fmt.Fprintf(&cs, "} %s;\n\n", nd.Name)
	g.gosrc.WriteString(gs.String())
	g.csrc.WriteString(cs.String())
}

// leaves lists (access path, scalar) of every scalar inside the struct in declaration order
func leaves(nd *node, prefix string, out *[][2]any) {
	for i, f := range nd.Fields {
		p := fmt.Sprintf("%s.f%d", prefix, i)
		switch {
		case f.Sc != nil:
			*out = append(*out, [2]any{p, f.Sc})
		case f.Arr > 0:
			for j := 0; j < f.Arr; j++ {
				*out = append(*out, [2]any{fmt.Sprintf("%s[%d]", p, j), f.Elem.Sc})
			}
		default:
			leaves(f, p, out)
		}
	}
}

func foldGo(expr string, sc *scalar) string {
	switch {
	case sc.Float && sc.Bits == 32:
		return fmt.Sprintf("h = mix(h, uint64(f32bits(%s)))", expr)
	case sc.Float:
		return fmt.Sprintf("h = mix(h, f64bits(%s))", expr)
	case sc.Sign:
		return fmt.Sprintf("h = mix(h, uint64(int64(%s)))", expr)
	}
	return fmt.Sprintf("h = mix(h, uint64(%s))", expr)
}

func foldC(expr string, sc *scalar) string {
	switch {
	case sc.Float && sc.Bits == 32:
		return fmt.Sprintf("h = mix(h, (uint64_t)f32bits(%s));", expr)
	case sc.Float:
		return fmt.Sprintf("h = mix(h, f64bits(%s));", expr)
	case sc.Sign:
		return fmt.Sprintf("h = mix(h, (uint64_t)(int64_t)(%s));", expr)
	}
	return fmt.Sprintf("h = mix(h, (uint64_t)(%s));", expr)
}

func mix(h, v uint64) uint64 {
	for k := 0; k < 8; k++ {
		h ^= (v >> (8 * uint(k))) & 0xff
		h *= 1099511628211
	}
	return h
}

const fnvInit = uint64(14695981039346656037)

type unitInfo struct {
	Desc      string
	Expect    map[string]uint64
	StructSz  int
	IntRegs   int
	SseRegs   int
	Exhausted bool
	Strings   bool
	EmptyStr  bool
}

// classify counts the integer/SSE registers the arguments before and including the struct need (SysV)
func classify(args []*node) (ints, sses int, exhausted bool) {
	for _, a := range args {
		if a.Sc != nil {
			if a.Sc.Float {
				sses++
			} else {
				ints++
			}
			continue
		}
		sz, _ := size(a)
		if sz > 16 {
			continue // MEMORY
		}
		var ls [][2]any
		leaves(a, "", &ls)
		// eightbyte classes by walking offsets
		off := 0
		cls := [2]int{0, 0} // 0 none, 1 SSE, 2 INTEGER
		var walk func(nd *node)
		walk = func(nd *node) {
			for _, f := range nd.Fields {
				switch {
				case f.Sc != nil:
					al := f.Sc.Bits / 8
					off = (off + al - 1) / al * al
					c := 2
					if f.Sc.Float {
						c = 1
					}
					if c > cls[off/8] {
						cls[off/8] = c
					}
					off += al
				case f.Arr > 0:
					for j := 0; j < f.Arr; j++ {
						al := f.Elem.Sc.Bits / 8
						off = (off + al - 1) / al * al
						c := 2
						if f.Elem.Sc.Float {
							c = 1
						}
						if c > cls[off/8] {
							cls[off/8] = c
						}
						off += al
					}
				default:
					_, al := size(f)
					off = (off + al - 1) / al * al
					walk(f)
					off = (off + al - 1) / al * al
				}
			}
		}
		walk(a)
		needI, needS := 0, 0
		for _, c := range cls {
			if c == 2 {
				needI++
			} else if c == 1 {
				needS++
			}
		}
		if ints+needI > 6 || sses+needS > 8 {
			exhausted = true // the whole aggregate goes to memory although part of it would fit
		} else {
			ints += needI
			sses += needS
		}
	}
	return
}

func (g *gen) unit(u int) unitInfo {
	st := g.shape(0)
	for sz, _ := size(st); sz > 80; sz, _ = size(st) {
		st.Fields = st.Fields[:len(st.Fields)-1]
	}
	g.declare(st)
	var ls [][2]any
	leaves(st, "", &ls)
	info := unitInfo{Expect: map[string]uint64{}}
	info.StructSz, _ = size(st)
	// ---- direction 1: Go -> C arguments: pre scalars, the struct, post scalars
	npre, npost := g.n(0, 8, "npre"), g.n(0, 3, "npost")
	var params []*node
	var goParams, cParams, goArgs []string
	var callVals []value
	h := fnvInit
	addScalar := func(i int) {
		sc := g.scalar("psc")
		if g.n(0, 2, "biasreg") == 0 { // bias towards exhausting one register class
			sc = &scalars[[]int{6, 9}[g.n(0, 1, "cls")]]
		}
		v := g.value(sc)
		params = append(params, &node{Sc: sc})
		goParams = append(goParams, fmt.Sprintf("a%d %s", i, sc.Go))
		cParams = append(cParams, fmt.Sprintf("%s a%d", sc.C, i))
		goArgs = append(goArgs, fmt.Sprintf("%s(%s)", sc.Go, v.Lit))
		callVals = append(callVals, v)
	}
	for i := 0; i < npre; i++ {
		addScalar(i)
	}
	structPos := len(params)
	params = append(params, st)
	goParams = append(goParams, "s "+st.Name)
	cParams = append(cParams, st.Name+" s")
	goArgs = append(goArgs, fmt.Sprintf("mk%d()", u))
	for i := 0; i < npost; i++ {
		addScalar(npre + 1 + i)
	}
	// struct values
	var svals []value
	var mk strings.Builder
	fmt.Fprintf(&mk, "func mk%d() (s %s) {\n", u, st.Name)
	var cmk strings.Builder
	fmt.Fprintf(&cmk, "static %s cmk%d(void) {\n\t%s s;\n\tmemset(&s, 0, sizeof s);\n", st.Name, u, st.Name)
	for _, l := range ls {
		sc := l[1].(*scalar)
		v := g.value(sc)
		svals = append(svals, v)
		fmt.Fprintf(&mk, "\ts%s = %s\n", l[0], v.Lit)
		fmt.Fprintf(&cmk, "\ts%s = %s;\n", l[0], cLit(v))
	}
	mk.WriteString("\treturn\n}\n\n")
	fmt.Fprintf(&cmk, "\treturn s;\n}\n\n")
	// expected checksum of direction 1 (argument order)
	vi := 0
	var cBody, sumS, csumS strings.Builder
	for i, p := range params {
		if i == structPos {
			for k, l := range ls {
				h = mix(h, svals[k].Bits)
				cBody.WriteString("\t" + foldC("s"+l[0].(string), l[1].(*scalar)) + "\n")
			}
			continue
		}
		h = mix(h, callVals[vi].Bits)
		cBody.WriteString("\t" + foldC(fmt.Sprintf("a%d", paramIndex(i, structPos, npre)), p.Sc) + "\n")
		vi++
	}
	info.Expect["args"] = h
	// checksum helpers for the struct on both sides
	fmt.Fprintf(&sumS, "func sum%d(s %s) uint64 {\n\th := uint64(%d)\n", u, st.Name, fnvInit)
	fmt.Fprintf(&csumS, "static uint64_t csum%d(%s s) {\n\tuint64_t h = %dull;\n", u, st.Name, fnvInit)
	hs := fnvInit
	for k, l := range ls {
		sumS.WriteString("\t" + foldGo("s"+l[0].(string), l[1].(*scalar)) + "\n")
		csumS.WriteString("\t" + foldC("s"+l[0].(string), l[1].(*scalar)) + "\n")
		hs = mix(hs, svals[k].Bits)
	}
	sumS.WriteString("\treturn h\n}\n\n")
	csumS.WriteString("\treturn h;\n}\n\n")
	info.Expect["ret"] = hs
	info.Expect["cb_seen"] = h
	info.Expect["cb_ret"] = hs
	g.gosrc.WriteString(mk.String() + sumS.String())
	g.csrc.WriteString(cmk.String() + csumS.String())
	// C: f (args), g (return), h (callback)
	fmt.Fprintf(&g.csrc, "uint64_t f%d(%s) {\n\tuint64_t h = %dull;\n%s\treturn h;\n}\n\n", u, strings.Join(cParams, ", "), fnvInit, cBody.String())
	fmt.Fprintf(&g.csrc, "%s g%d(void) { return cmk%d(); }\n\n", st.Name, u, u)
	var cArgs []string
	vi = 0
	for i := range params {
		if i == structPos {
			cArgs = append(cArgs, fmt.Sprintf("cmk%d()", u))
			continue
		}
		cArgs = append(cArgs, cLit(callVals[vi]))
		vi++
	}
	fmt.Fprintf(&g.csrc, "typedef %s (*cb%d)(%s);\nuint64_t h%d(cb%d cb) { return csum%d(cb(%s)); }\n\n", st.Name, u, strings.Join(cParams, ", "), u, u, u, strings.Join(cArgs, ", "))
	// Go declarations and the unit driver
	fmt.Fprintf(&g.gosrc, "//go:linkname f%d C.f%d\nfunc f%d(%s) uint64\n\n//go:linkname g%d C.g%d\nfunc g%d() %s\n\n//llgo:type C\ntype cb%d func(%s) %s\n\n//go:linkname h%d C.h%d\nfunc h%d(cb cb%d) uint64\n\n",
		u, u, u, strings.Join(goParams, ", "), u, u, u, st.Name, u, strings.Join(goParams, ", "), st.Name, u, u, u, u)
	var goBody strings.Builder
	vi = 0
	for i, p := range params {
		if i == structPos {
			for _, l := range ls {
				goBody.WriteString("\t\t" + foldGo("s"+l[0].(string), l[1].(*scalar)) + "\n")
			}
			continue
		}
		goBody.WriteString("\t\t" + foldGo(fmt.Sprintf("a%d", paramIndex(i, structPos, npre)), p.Sc) + "\n")
		vi++
	}
	// The callback is a function literal or a named function. It does not capture variables: a bare C
	// function pointer has no place for closure state (the C signature carries no context argument), so
	// what the callback observed is published through a package-level variable.
	literal := g.n(0, 1, "literal") == 1
	closure := literal
	cbDef := fmt.Sprintf("func(%s) %s {\n\t\th := uint64(%d)\n%s\t\tseen%d = h\n\t\treturn s\n\t}", strings.Join(goParams, ", "), st.Name, fnvInit, goBody.String(), u)
	cbExpr := cbDef
	if !literal {
		fmt.Fprintf(&g.gosrc, "func named%d(%s) %s {\n\th := uint64(%d)\n%s\tseen%d = h\n\treturn s\n}\n\n", u, strings.Join(goParams, ", "), st.Name, fnvInit, goBody.String(), u)
		cbExpr = fmt.Sprintf("named%d", u)
	}
	fmt.Fprintf(&g.gosrc, "var seen%d uint64\n\nfunc U%d() {\n\tprintln(\"#%d\", \"args\", f%d(%s))\n\tprintln(\"#%d\", \"ret\", sum%d(g%d()))\n\tr := h%d(%s)\n\tprintln(\"#%d\", \"cb_seen\", seen%d)\n\tprintln(\"#%d\", \"cb_ret\", r)\n}\n\n",
		u, u, u, u, strings.Join(goArgs, ", "), u, u, u, u, cbExpr, u, u, u)
	ints, sses, ex := classify(params)
	info.IntRegs, info.SseRegs, info.Exhausted = ints, sses, ex
	info.Desc = fmt.Sprintf("struct of %d bytes %s at position %d of %d args (int regs %d, sse regs %d, exhausted %v, function-literal callback %v)", info.StructSz, describe(st), structPos, len(params), ints, sses, ex, closure)
	return info
}

// stringUnit: Go strings and byte slices cross to C as C strings / buffers and come back.
func (g *gen) stringUnit(u int) unitInfo {
	info := unitInfo{Expect: map[string]uint64{}, Strings: true}
	ns := g.n(1, 5, "nstrings")
	var tab []byte
	var bounds [][2]int
	var strs [][]byte
	for i := 0; i < ns; i++ {
		var b []byte
		switch g.n(0, 5, "strshape") {
		case 0: // empty
		case 1: // contains a NUL: C sees it cut there
			b = []byte{byte(g.n(1, 255, "b")), 0, byte(g.n(1, 255, "b"))}
		default:
			for k, n := 0, g.n(1, 24, "strlen"); k < n; k++ {
				b = append(b, byte(g.n(1, 255, "b")))
			}
		}
		bounds = append(bounds, [2]int{len(tab), len(tab) + len(b)})
		tab = append(tab, b...)
		strs = append(strs, b)
	}
	tab = append(tab, 1) // never empty
	cut := func(b []byte) []byte {
		for i, c := range b {
			if c == 0 {
				return b[:i]
			}
		}
		return b
	}
	hashStrs := func() uint64 {
		h := fnvInit
		for _, b := range strs {
			c := cut(b)
			h = mix(h, uint64(len(c)))
			for _, x := range c {
				h = mix(h, uint64(x))
			}
		}
		return h
	}
	info.Expect["cstr"], info.Expect["cstrheap"], info.Expect["back"], info.Expect["argv"] = hashStrs(), hashStrs(), hashStrs(), hashStrs()
	bh := fnvInit
	for _, x := range tab {
		bh = mix(bh, uint64(x))
	}
	info.Expect["buf"] = bh
	nfill, seed := g.n(1, 40, "nfill"), g.n(0, 100, "fillseed")
	fh := fnvInit
	for i := 0; i < nfill; i++ {
		fh = mix(fh, uint64(byte(seed*7+i*13)))
	}
	info.Expect["fill"] = fh
	var lits, sl []string
	for _, x := range tab {
		lits = append(lits, fmt.Sprint(x))
	}
	for _, b := range bounds {
		sl = append(sl, fmt.Sprintf("string(tab%d[%d:%d])", u, b[0], b[1]))
	}
	fmt.Fprintf(&g.gosrc, `var tab%[1]d = []byte{%[2]s}

func U%[1]d() {
	strs := []string{%[3]s}
	h := uint64(%[4]d)
	for _, s := range strs {
		sink += scribble(int32(len(s)))
		h = csHash(h, allocaCStr(s))
	}
	println("#%[1]d", "cstr", h)
	h = uint64(%[4]d)
	for _, s := range strs {
		h = csHash(h, allocCStr(s))
	}
	println("#%[1]d", "cstrheap", h)
	h = uint64(%[4]d)
	for _, s := range strs {
		sink += scribble(int32(len(s)) + 1)
		back := goString(csKeep(allocaCStr(s)))
		h = mix(h, uint64(len(back)))
		for i := 0; i < len(back); i++ {
			h = mix(h, uint64(back[i]))
		}
	}
	println("#%[1]d", "back", h)
	sink += scribble(3)
	println("#%[1]d", "argv", csArgv(allocaCStrs(strs, true)))
	println("#%[1]d", "buf", bufHash(&tab%[1]d[0], int32(len(tab%[1]d))))
	fill := make([]byte, %[5]d)
	bufFill(&fill[0], %[5]d, %[6]d)
	h = uint64(%[4]d)
	for _, x := range fill {
		h = mix(h, uint64(x))
	}
	println("#%[1]d", "fill", h)
}

`, u, strings.Join(lits, ", "), strings.Join(sl, ", "), fnvInit, nfill, seed)
	empty, nul := 0, 0
	for _, b := range strs {
		if len(b) == 0 {
			empty++
		} else if len(cut(b)) != len(b) {
			nul++
		}
	}
	info.Desc = fmt.Sprintf("strings unit: %d Go strings (%d empty, %d with an embedded NUL) to C strings and back, argv vector, %d-byte buffer to C, %d bytes filled by C", ns, empty, nul, len(tab), nfill)
	info.EmptyStr = empty > 0
	return info
}

func paramIndex(i, structPos, npre int) int {
	if i < structPos {
		return i
	}
	return i // post parameters were named with their absolute position
}

func describe(nd *node) string {
	var parts []string
	for _, f := range nd.Fields {
		switch {
		case f.Sc != nil:
			parts = append(parts, f.Sc.Go)
		case f.Arr > 0:
			parts = append(parts, fmt.Sprintf("[%d]%s", f.Arr, f.Elem.Sc.Go))
		default:
			parts = append(parts, describe(f))
		}
	}
	return "{" + strings.Join(parts, ",") + "}"
}

func cLit(v value) string {
	if v.Sc.Float {
		lit := v.Lit
		if !strings.ContainsAny(lit, ".e") {
			lit += ".0"
		}
		if v.Sc.Bits == 32 {
			return lit + "f"
		}
		return lit
	}
	if v.Sc.Sign {
		if v.Sc.Bits == 64 {
			if strings.HasPrefix(v.Lit, "(") {
				return "(-9223372036854775807ll - 1)"
			}
			return "((int64_t)" + v.Lit + "ll)"
		}
		return v.Lit
	}
	return v.Lit + "ull"
}

const goPrelude = `package main

import "unsafe"

const LLGoFiles = "wrap/wrap.c"

func mix(h, v uint64) uint64 {
	for k := 0; k < 8; k++ {
		h ^= (v >> (8 * uint(k))) & 0xff
		h *= 1099511628211
	}
	return h
}

func f32bits(f float32) uint32 { return *(*uint32)(unsafe.Pointer(&f)) }
func f64bits(f float64) uint64 { return *(*uint64)(unsafe.Pointer(&f)) }

// Go string / byte slice <-> C string / buffer (llgo's conversion intrinsics)

//go:linkname allocaCStr llgo.allocaCStr
func allocaCStr(s string) *int8

//go:linkname allocCStr llgo.allocCStr
func allocCStr(s string) *int8

//go:linkname allocaCStrs llgo.allocaCStrs
func allocaCStrs(strs []string, endWithNil bool) **int8

//go:linkname goString llgo.string
func goString(cstr *int8, __llgo_va_list ...any) string

//go:linkname scribble C.scribble
func scribble(seed int32) int32

//go:linkname csHash C.cs_hash
func csHash(h uint64, s *int8) uint64

//go:linkname csKeep C.cs_keep
func csKeep(s *int8) *int8

//go:linkname csArgv C.cs_argv
func csArgv(v **int8) uint64

//go:linkname bufHash C.buf_hash
func bufHash(p *byte, n int32) uint64

//go:linkname bufFill C.buf_fill
func bufFill(p *byte, n int32, seed int32)

var sink int32

`

const cPrelude = `#include <stdint.h>
#include <string.h>

static uint64_t mix(uint64_t h, uint64_t v) {
	for (int k = 0; k < 8; k++) {
		h ^= (v >> (8 * k)) & 0xff;
		h *= 1099511628211ull;
	}
	return h;
}
static uint32_t f32bits(float f) { uint32_t u; memcpy(&u, &f, 4); return u; }
static uint64_t f64bits(double f) { uint64_t u; memcpy(&u, &f, 8); return u; }

// leaves non-zero bytes below the caller's frame, as any earlier deep call would
int scribble(int seed) {
	volatile char buf[8192];
	int i, s = 0;
	for (i = 0; i < (int)sizeof(buf); i++) buf[i] = (char)('A' + (seed + i) % 26);
	for (i = 0; i < (int)sizeof(buf); i += 997) s += buf[i];
	return s;
}
uint64_t cs_hash(uint64_t h, const char *s) {
	size_t n = strlen(s);
	h = mix(h, n);
	for (size_t i = 0; i < n; i++) h = mix(h, (uint8_t)s[i]);
	return h;
}
static char keepbuf[512];
const char *cs_keep(const char *s) {
	strncpy(keepbuf, s, sizeof(keepbuf) - 1);
	keepbuf[sizeof(keepbuf) - 1] = 0;
	return keepbuf;
}
uint64_t cs_argv(char **v) {
	uint64_t h = 14695981039346656037ull;
	for (; *v; v++) h = cs_hash(h, *v);
	return h;
}
uint64_t buf_hash(const uint8_t *p, int n) {
	uint64_t h = 14695981039346656037ull;
	for (int i = 0; i < n; i++) h = mix(h, p[i]);
	return h;
}
void buf_fill(uint8_t *p, int n, int seed) {
	for (int i = 0; i < n; i++) p[i] = (uint8_t)(seed * 7 + i * 13);
}

`

func TestC09Programs(t *testing.T) {
	c := vstat.For("C09")
	defer c.Flush()
	tc := progkit.FromEnv()
	seq := 0
	rapid.Check(t, func(t *rapid.T) {
		seq++
		g := &gen{t: t}
		g.gosrc.WriteString(goPrelude)
		g.csrc.WriteString(cPrelude)
		nunits := rapid.IntRange(10, 30).Draw(t, "nunits")
		var infos []unitInfo
		var mainBody strings.Builder
		for u := 0; u < nunits; u++ {
			if rapid.IntRange(0, 5).Draw(t, "stringsUnit") == 0 {
				infos = append(infos, g.stringUnit(u))
			} else {
				infos = append(infos, g.unit(u))
			}
			fmt.Fprintf(&mainBody, "\tU%d()\n", u)
		}
		g.gosrc.WriteString("func main() {\n" + mainBody.String() + "}\n")
		dir := filepath.Join(tc.Work, fmt.Sprintf("c09-%d", seq))
		os.RemoveAll(dir)
		defer os.RemoveAll(dir)
		files := map[string]string{"go.mod": "module c09prog\n\ngo 1.24\n", "main.go": g.gosrc.String(), "wrap/wrap.c": g.csrc.String()}
		if err := progkit.WriteModule(dir, files); err != nil {
			t.Fatalf("VERIF-INFRA %v", err)
		}
		// the generated C must be valid for the host compiler (it defines the ABI)
		if out, code, _ := progkit.RunCmd(dir, os.Environ(), nil, 60e9, "/usr/lib/llvm-14/bin/clang", "-c", "-Wall", "-Werror=implicit-function-declaration", "-o", filepath.Join(dir, "wrap.o"), "wrap/wrap.c"); code != 0 {
			t.Fatalf("VERIF-INFRA generated C rejected by clang:\n%s", tail(string(out), 1500))
		}
		os.Remove(filepath.Join(dir, "wrap.o"))
		for u, in := range infos {
			nt := in.StructSz > 16 || in.Exhausted || in.SseRegs > 0 || strings.Contains(in.Desc, "function-literal callback true")
			cls := []string{"units"}
			if in.Strings {
				nt = true
				cls = append(cls, "strings_and_buffers")
				if in.EmptyStr {
					cls = append(cls, "empty_string_to_c")
				}
			} else if in.StructSz > 16 {
				cls = append(cls, "struct_memory_class")
			} else if in.StructSz > 8 {
				cls = append(cls, "struct_two_eightbytes")
			} else {
				cls = append(cls, "struct_one_eightbyte")
			}
			if in.Exhausted {
				cls = append(cls, "registers_exhausted")
			}
			c.Case(vstat.Hash("c09", in.Desc, u), nt, cls...)
			if nt {
				c.Sample(in.Desc)
			}
		}
		c.Class("programs")
		for _, cfg := range []progkit.Config{{Opt: "O0"}, {Opt: "O2"}, {Opt: "Oz"}} {
			got := tc.RunLlgo(dir, cfg, nil)
			if got.Skip {
				c.Skip("toolchain_llvm14_crash:" + cfg.String())
				continue
			}
			if !got.BuildOK {
				key := "C09:build"
				if c.IsKnown(key) {
					c.KnownHit(key)
					continue
				}
				t.Fatalf("[%s] llgo %s cannot build the generated Go/C pair:\n%s", key, cfg, tail(got.BuildOut, 2500))
			}
			units := progkit.SplitUnits(got.Out)
			for u, in := range infos {
				seen := map[string]uint64{}
				for _, ln := range units[u] {
					var uu int
					var what string
					var v uint64
					if n, _ := fmt.Sscanf(ln, "#%d %s %d", &uu, &what, &v); n == 3 {
						seen[what] = v
					}
				}
				var whats []string
				for w := range in.Expect {
					whats = append(whats, w)
				}
				sort.Strings(whats)
				for _, what := range whats {
					if got, ok := seen[what]; !ok || got != in.Expect[what] {
						key := "C09:" + what
						if in.Exhausted {
							key += ":registers-exhausted"
						}
						if c.IsKnown(key) {
							c.KnownHit(key)
							continue
						}
						t.Fatalf("[%s] llgo %s, unit %d: %s: checksum of the values that arrived is %d (printed: %v); the values sent give %d\n%s\nexit %d, output tail: %s", key, cfg, u, what, got, ok, in.Expect[what], in.Desc, gotCode(units), tail(strings.Join(units[-1], "\n"), 300))
					}
				}
			}
		}
	})
}

func gotCode(m map[int][]string) int { return len(m) }

func tail(s string, n int) string {
	if len(s) > n {
		return s[len(s)-n:]
	}
	return s
}
