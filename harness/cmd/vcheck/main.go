// vcheck is the driver behind /verif/check: it rebuilds what a property's check needs from the
// repository's current working tree, runs the property's jobs (sharded over cores), merges their
// partial statistics into /verif/evidence/<ID>.json and maps the outcome to the exit-code contract
// (0 held / 1 VIOLATION / 2 infrastructure).
package main

import (
	"bytes"
	"encoding/json"
	"fmt"
	"os"
	"os/exec"
	"path/filepath"
	"regexp"
	"sort"
	"strconv"
	"strings"
	"sync"
	"syscall"
	"time"

	"verifstat"
)

type Job struct {
	Name    string
	Kind    string   // "inject": test files overlaid into a /repo package; "harness": package of the verif module
	Pkg     string   // inject: package dir relative to repo root; harness: ./<dir> in /verif/harness
	Files   []string // inject: file names under /verif/overlay/inject/<Pkg>/
	Tags    string
	Run     string // -test.run regexp
	Checks  [2]int // rapid.checks per shard: quick, thorough
	Shards  [2]int
	Timeout [2]time.Duration
	Env     []string
	NeedLlgo bool // build llgo from the working tree first and export VERIF_LLGO
	ThoroughOnly bool
	Lift     []LiftFile    // kind "lift": runtime source files copied from the working tree into the stand-in module
	Prepare  string        // test run once per package before the shards (builds shared artefacts into $VERIF_SHARED)
	Fuzz     string        // native fuzz target (thorough only)
	FuzzTime time.Duration
}

// LiftFile names a source file of the repository that is copied verbatim (optionally without its
// //go:linkname lines and build constraint) into the scratch module built from /verif/standins.
type LiftFile struct {
	Src, Dst     string
	DropLinkname bool
}

type Prop struct {
	ID    string
	Level string
	Rule  string
	Assumptions []string
	Jobs  []Job
}

var (
	verifRoot = envOr("VERIF_ROOT", "/verif")
	buildDir  = envOr("VERIF_BUILD", filepath.Join(verifRoot, ".build"))
	repo      = envOr("VERIF_REPO", "/repo")
	shim      = filepath.Join(buildDir, "shim")
)

func envOr(k, d string) string {
	if v := os.Getenv(k); v != "" {
		return v
	}
	return d
}

func die(code int, f string, a ...any) {
	fmt.Fprintf(os.Stderr, "vcheck: "+f+"\n", a...)
	os.Exit(code)
}

func baseEnv() []string {
	goroot := filepath.Join(shim, "goroot")
	env := []string{}
	for _, e := range os.Environ() {
		k := strings.SplitN(e, "=", 2)[0]
		switch k {
		case "GOROOT", "GOFLAGS", "GOPROXY", "GOSUMDB", "GOTOOLCHAIN", "PATH", "LLVM_CONFIG", "LLGO_ROOT", "GOWORK", "CGO_ENABLED":
			continue
		}
		env = append(env, e)
	}
	gocache := envOr("GOCACHE", "/root/.cache/go-build")
	env = append(env,
		"GOROOT="+goroot,
		"PATH="+filepath.Join(goroot, "bin")+":"+os.Getenv("PATH"),
		"GOFLAGS=-mod=mod", "GOPROXY=off", "GOSUMDB=off", "GOTOOLCHAIN=local", "GOWORK=off", "CGO_ENABLED=1",
		"GOCACHE="+gocache,
		"LLVM_CONFIG="+filepath.Join(shim, "bin", "llvm-config"),
		"LLGO_ROOT="+repo,
		"VERIF_ROOT="+verifRoot, "VERIF_BUILD="+buildDir, "VERIF_REPO="+repo, "VERIF_SHIM="+shim,
		"VERIF_FINDINGS="+filepath.Join(verifRoot, "known_findings.json"),
	)
	return env
}

func run(dir string, env []string, timeout time.Duration, name string, args ...string) (string, int, bool) {
	cmd := exec.Command(name, args...)
	cmd.Dir = dir
	cmd.Env = env
	var out bytes.Buffer
	cmd.Stdout = &out
	cmd.Stderr = &out
	cmd.SysProcAttr = &syscall.SysProcAttr{Setpgid: true}
	if err := cmd.Start(); err != nil {
		return err.Error(), 127, false
	}
	done := make(chan error, 1)
	go func() { done <- cmd.Wait() }()
	timedOut := false
	var err error
	select {
	case err = <-done:
	case <-time.After(timeout):
		timedOut = true
		syscall.Kill(-cmd.Process.Pid, syscall.SIGKILL)
		err = <-done
	}
	code := 0
	if err != nil {
		code = 1
		if ee, ok := err.(*exec.ExitError); ok {
			code = ee.ExitCode()
		}
	}
	return out.String(), code, timedOut
}

func ensureShim(env []string) {
	// The libuv stub must define every uv_* the working tree binds: rebuild when the list changes.
	stamp := filepath.Join(shim, "stamp")
	want := uvList()
	if b, err := os.ReadFile(stamp); err == nil && string(b) == want {
		if _, err := os.Stat(filepath.Join(shim, "lib", "libuv.a")); err == nil {
			return
		}
	}
	out, code, _ := run(verifRoot, os.Environ(), 2*time.Minute, filepath.Join(verifRoot, "toolchain", "mkshim.sh"), repo, shim)
	if code != 0 {
		die(2, "mkshim failed: %s", out)
	}
	os.WriteFile(stamp, []byte(want), 0o644)
}

func uvList() string {
	files, _ := filepath.Glob(filepath.Join(repo, "runtime/internal/clite/libuv/*.go"))
	re := regexp.MustCompile(`C\.uv_[A-Za-z0-9_]+`)
	set := map[string]bool{}
	for _, f := range files {
		b, _ := os.ReadFile(f)
		for _, m := range re.FindAll(b, -1) {
			set[string(m)] = true
		}
	}
	var l []string
	for k := range set {
		l = append(l, k)
	}
	sort.Strings(l)
	return strings.Join(l, "\n")
}

var llgoOnce sync.Once
var llgoPath string

func buildLlgo(work string, env []string) string {
	llgoOnce.Do(func() {
		llgoPath = filepath.Join(work, "llgo")
		out, code, to := run(verifRoot, append(env, "VERIF_REPO="+repo), 10*time.Minute, filepath.Join(verifRoot, "toolchain", "buildllgo.sh"), repo, llgoPath)
		if code != 0 || to {
			fmt.Fprintf(os.Stderr, "%s\n", out)
			die(2, "building llgo from %s failed (exit %d)", repo, code)
		}
	})
	return llgoPath
}

type shardResult struct {
	job     *Job
	shard   int
	out     string
	code    int
	timeout bool
	stats   *verifstat.Partial
	fails   []string // rapid fail files (copied to replays)
	testNames []string
}

func main() {
	if len(os.Args) < 3 {
		die(2, "usage: vcheck <ID> <quick|thorough> [--replay file]")
	}
	id, tier := os.Args[1], os.Args[2]
	replay := ""
	for i := 3; i < len(os.Args); i++ {
		if os.Args[i] == "--replay" && i+1 < len(os.Args) {
			replay = os.Args[i+1]
			i++
		}
	}
	if v := os.Getenv("VERIF_TIER"); v != "" && (v == "quick" || v == "thorough") && len(os.Args) < 3 {
		tier = v
	}
	ti := 0
	if tier == "thorough" {
		ti = 1
	} else if tier != "quick" {
		die(2, "tier must be quick or thorough")
	}
	prop, ok := props[id]
	if !ok {
		die(2, "no check registered for %s", id)
	}
	seed := int64(1)
	if s := os.Getenv("VERIF_SEED"); s != "" {
		if v, err := strconv.ParseInt(s, 10, 64); err == nil {
			seed = v
		}
	}
	if seed <= 0 {
		seed = -seed + 1
	}
	seed = seed % 1000000

	start := time.Now()
	os.MkdirAll(filepath.Join(buildDir, "work"), 0o755)
	work, err := os.MkdirTemp(filepath.Join(buildDir, "work"), id+"-")
	if err != nil {
		die(2, "mktemp: %v", err)
	}
	defer os.RemoveAll(work)
	env := baseEnv()
	ensureShim(env)
	replayDir := filepath.Join(envOr("VERIF_REPLAY_ROOT", filepath.Join(verifRoot, "replays")), id) // the override is for sensitivity trials against scratch worktrees only
	os.MkdirAll(replayDir, 0o755)
	env = append(env, "VERIF_REPLAY_DIR="+replayDir, "VERIF_TIER="+tier, "VERIF_SEED="+strconv.FormatInt(seed, 10), "VERIF_PROPERTY="+id)

	var results []*shardResult
	infra := false
	prepared := map[string]bool{}
	var prepViolations []string
	for ji := range prop.Jobs {
		job := &prop.Jobs[ji]
		if job.ThoroughOnly && ti == 0 {
			continue
		}
		// development aids (never set by registered commands): restrict to one job, override case count / shards
		if j := os.Getenv("VERIF_DEV_JOB"); j != "" && j != job.Name {
			continue
		}
		if v, err := strconv.Atoi(os.Getenv("VERIF_DEV_CHECKS")); err == nil && v > 0 {
			job.Checks[ti] = v
		}
		if v, err := strconv.Atoi(os.Getenv("VERIF_DEV_SHARDS")); err == nil && v > 0 {
			job.Shards[ti] = v
		}
		jw := filepath.Join(work, fmt.Sprintf("job%d", ji))
		os.MkdirAll(jw, 0o755)
		jenv := append([]string{}, env...)
		jenv = append(jenv, job.Env...)
		if job.NeedLlgo {
			jenv = append(jenv, "VERIF_LLGO="+buildLlgo(work, env))
		}
		bin, berr := buildTest(job, jw, jenv)
		if berr != "" {
			fmt.Fprintf(os.Stderr, "vcheck: job %s: build failed:\n%s\n", job.Name, berr)
			infra = true
			continue
		}
		shared := filepath.Join(work, "shared-"+strings.NewReplacer("/", "_", ".", "_").Replace(job.Pkg))
		jenv = append(jenv, "VERIF_SHARED="+shared)
		if job.Prepare != "" && !prepared[shared] {
			prepared[shared] = true
			os.MkdirAll(filepath.Join(shared, "tmp"), 0o755)
			penv := append(append([]string{}, jenv...), "VERIF_WORK="+shared, "TMPDIR="+filepath.Join(shared, "tmp"))
			out, code, to := run(shared, penv, 30*time.Minute, bin, "-test.run", job.Prepare, "-test.v", "-test.timeout", "0")
			if code != 0 || to {
				fmt.Fprintf(os.Stderr, "vcheck: job %s: prepare step failed (exit %d):\n%s\n", job.Name, code, tail(out, 4000))
				if strings.Contains(out, "[C") && !strings.Contains(out, "VERIF-INFRA") && !to {
					// the artefact under test could not be built from valid input: that is a violation in itself
					p := filepath.Join(replayDir, fmt.Sprintf("%s-%s-prepare-seed%d.log", id, job.Name, seed))
					os.WriteFile(p, []byte(out), 0o644)
					prepViolations = append(prepViolations, p)
				} else {
					infra = true
				}
				continue
			}
		}
		if replay != "" {
			r := runReplay(job, bin, jw, jenv, replay)
			if r != nil {
				results = append(results, r)
			}
			continue
		}
		shards := job.Shards[ti]
		if shards <= 0 {
			shards = 1
		}
		var wg sync.WaitGroup
		rs := make([]*shardResult, shards)
		for s := 0; s < shards; s++ {
			wg.Add(1)
			go func(s int) {
				defer wg.Done()
				rs[s] = runShard(job, bin, jw, jenv, ti, s, seed, replayDir)
			}(s)
		}
		wg.Wait()
		results = append(results, rs...)
	}

	// merge
	ev := merge(prop, results)
	violations := 0
	var lines []string
	seenReplay := map[string]bool{}
	for _, p := range prepViolations {
		lines = append(lines, fmt.Sprintf("VIOLATION property=%s replay=%s", id, p))
		violations++
	}
	seenKey := map[string]bool{}
	for _, r := range results {
		if r.timeout {
			fmt.Fprintf(os.Stderr, "vcheck: job %s shard %d: hard timeout (infrastructure)\n", r.job.Name, r.shard)
			infra = true
			continue
		}
		if r.stats != nil {
			for _, v := range r.stats.Violations {
				if seenKey[v.Key] { // one line per root-cause key; the other replay files stay on disk
					continue
				}
				seenKey[v.Key] = true
				if !seenReplay[v.Replay] {
					seenReplay[v.Replay] = true
					lines = append(lines, fmt.Sprintf("VIOLATION property=%s replay=%s", id, v.Replay))
					fmt.Fprintf(os.Stderr, "vcheck: %s: %s: %s\n", id, v.Key, v.Msg)
					violations++
				}
			}
		}
		for _, f := range r.fails {
			if !seenReplay[f] {
				seenReplay[f] = true
				lines = append(lines, fmt.Sprintf("VIOLATION property=%s replay=%s", id, f))
				violations++
			}
		}
		if r.code != 0 {
			hasV := len(r.fails) > 0 || (r.stats != nil && len(r.stats.Violations) > 0)
			if !hasV {
				if strings.Contains(r.out, "--- FAIL") && !strings.Contains(r.out, "panic: test timed out") && !strings.Contains(r.out, "VERIF-INFRA") {
					// a plain (non-rapid) test failure: keep its log as the replay artefact
					p := filepath.Join(replayDir, fmt.Sprintf("%s-%s-s%d-seed%d.log", id, r.job.Name, r.shard, seed))
					os.WriteFile(p, []byte(r.out), 0o644)
					lines = append(lines, fmt.Sprintf("VIOLATION property=%s replay=%s", id, p))
					violations++
				} else {
					infra = true
				}
			}
			fmt.Fprintf(os.Stderr, "---- job %s shard %d exit %d ----\n%s\n", r.job.Name, r.shard, r.code, tail(r.out, 6000))
		}
	}
	// known findings
	known := loadFindings(id)
	for _, f := range known {
		if f.Status != "known" {
			continue
		}
		if ev.knownHits[f.Key] > 0 {
			fmt.Printf("KNOWN-FINDING: property=%s %s: %s\n", id, f.Key, f.What)
		} else {
			fmt.Fprintf(os.Stderr, "vcheck: note: listed finding %s was not reproduced in this run\n", f.Key)
		}
	}
	for _, l := range lines {
		fmt.Println(l)
	}
	ev.write(prop, id, tier, seed, time.Since(start).Seconds(), violations)
	if violations > 0 {
		os.RemoveAll(work)
		os.Exit(1)
	}
	if infra {
		os.RemoveAll(work)
		os.Exit(2)
	}
	fmt.Printf("OK property=%s tier=%s seed=%d evaluations=%d distinct_nontrivial=%d wall=%.1fs\n", id, tier, seed, ev.evaluations, ev.distinct, time.Since(start).Seconds())
}

func tail(s string, n int) string {
	if len(s) > n {
		return "…" + s[len(s)-n:]
	}
	return s
}

func loadFindings(id string) []verifstat.Finding {
	b, err := os.ReadFile(filepath.Join(verifRoot, "known_findings.json"))
	if err != nil {
		return nil
	}
	var fs []verifstat.Finding
	if err := json.Unmarshal(b, &fs); err != nil {
		die(2, "known_findings.json: %v", err)
	}
	var out []verifstat.Finding
	for _, f := range fs {
		if f.Property == id {
			out = append(out, f)
		}
	}
	return out
}

// buildTest compiles the job's test binary; returns its path or an error text.
func buildTest(job *Job, jw string, env []string) (string, string) {
	bin := filepath.Join(jw, "t.test")
	switch job.Kind {
	case "inject":
		// modfile: copy of repo go.mod with absolute runtime replace + rapid + verifstat
		gm, err := os.ReadFile(filepath.Join(repo, "go.mod"))
		if err != nil {
			return "", err.Error()
		}
		s := strings.Replace(string(gm), "=> ./runtime", "=> "+filepath.Join(repo, "runtime"), 1)
		s += "\nrequire pgregory.net/rapid v1.3.0\nrequire verifstat v0.0.0\nreplace verifstat => " + filepath.Join(verifRoot, "vstat") + "\n"
		os.WriteFile(filepath.Join(jw, "go.mod"), []byte(s), 0o644)
		gs, _ := os.ReadFile(filepath.Join(repo, "go.sum"))
		extra, _ := os.ReadFile(filepath.Join(verifRoot, "go.sum"))
		os.WriteFile(filepath.Join(jw, "go.sum"), append(gs, extra...), 0o644)
		ov := map[string]map[string]string{"Replace": {}}
		for _, f := range job.Files {
			ov["Replace"][filepath.Join(repo, job.Pkg, f)] = filepath.Join(verifRoot, "overlay", "inject", job.Pkg, f)
		}
		ov["Replace"][filepath.Join(repo, "ssa", "zz_verif_opaque_llvm14.go")] = filepath.Join(verifRoot, "overlay", "ssa", "zz_verif_opaque_llvm14.go")
		b, _ := json.Marshal(ov)
		os.WriteFile(filepath.Join(jw, "ov.json"), b, 0o644)
		tags := "verif"
		if job.Tags != "" {
			tags += "," + job.Tags
		}
		args := []string{"test", "-c", "-vet=off", "-buildvcs=false", "-modfile=" + filepath.Join(jw, "go.mod"), "-overlay=" + filepath.Join(jw, "ov.json"), "-tags", tags, "-o", bin, "./" + job.Pkg}
		out, code, to := run(repo, env, 15*time.Minute, "go", args...)
		if code != 0 || to {
			return "", out
		}
	case "harness":
		args := []string{"test", "-c", "-vet=off", "-o", bin, job.Pkg}
		out, code, to := run(verifRoot, env, 15*time.Minute, "go", args...)
		if code != 0 || to {
			return "", out
		}
	case "lift":
		mod := filepath.Join(jw, "mod")
		if out, code, _ := run(verifRoot, env, time.Minute, "cp", "-r", filepath.Join(verifRoot, "standins"), mod); code != 0 {
			return "", out
		}
		for _, lf := range job.Lift {
			b, err := os.ReadFile(filepath.Join(repo, lf.Src))
			if err != nil {
				return "", err.Error()
			}
			if lf.DropLinkname {
				var keep []string
				for _, ln := range strings.Split(string(b), "\n") {
					if strings.HasPrefix(ln, "//go:linkname") || strings.HasPrefix(ln, "//go:build") {
						continue
					}
					keep = append(keep, ln)
				}
				b = []byte(strings.Join(keep, "\n"))
			}
			os.MkdirAll(filepath.Dir(filepath.Join(mod, lf.Dst)), 0o755)
			if err := os.WriteFile(filepath.Join(mod, lf.Dst), b, 0o644); err != nil {
				return "", err.Error()
			}
		}
		gm := "module github.com/goplus/llgo/runtime\n\ngo 1.24\n\nrequire pgregory.net/rapid v1.3.0\nrequire verifstat v0.0.0\nreplace verifstat => " + filepath.Join(verifRoot, "vstat") + "\n"
		os.WriteFile(filepath.Join(mod, "go.mod"), []byte(gm), 0o644)
		out, code, to := run(mod, env, 15*time.Minute, "go", "test", "-c", "-vet=off", "-o", bin, job.Pkg)
		if code != 0 || to {
			return "", out
		}
	default:
		return "", "unknown job kind " + job.Kind
	}
	return bin, ""
}

func runShard(job *Job, bin, jw string, env []string, ti, s int, seed int64, replayDir string) *shardResult {
	sd := filepath.Join(jw, fmt.Sprintf("s%d", s))
	os.MkdirAll(filepath.Join(sd, "tmp"), 0o755)
	stats := filepath.Join(sd, "stats.json")
	shardSeed := seed*1000 + int64(s) + 1
	e := append([]string{}, env...)
	e = append(e, "VERIF_STATS="+stats, "VERIF_SHARD="+strconv.Itoa(s), "VERIF_NSHARDS="+strconv.Itoa(max(job.Shards[ti], 1)),
		"VERIF_SHARD_SEED="+strconv.FormatInt(shardSeed, 10), "VERIF_WORK="+sd, "TMPDIR="+filepath.Join(sd, "tmp"))
	to := job.Timeout[ti]
	if to == 0 {
		to = 20 * time.Minute
	}
	args := []string{"-test.run", job.Run, "-test.timeout", "0", "-test.count", "1", "-test.v",
		"-rapid.seed", strconv.FormatInt(shardSeed, 10), "-rapid.shrinktime", "20s"}
	if job.Checks[ti] > 0 {
		args = append(args, "-rapid.checks", strconv.Itoa(job.Checks[ti]))
	}
	out, code, timedOut := run(sd, e, to, bin, args...)
	r := &shardResult{job: job, shard: s, out: out, code: code, timeout: timedOut}
	if b, err := os.ReadFile(stats); err == nil {
		var p verifstat.Partial
		if json.Unmarshal(b, &p) == nil {
			r.stats = &p
		}
	}
	// rapid fail files (a failure flagged VERIF-INFRA is a harness/generator problem, never a violation)
	if strings.Contains(out, "VERIF-INFRA") {
		return r
	}
	filepath.Walk(filepath.Join(sd, "testdata"), func(p string, info os.FileInfo, err error) error {
		if err == nil && !info.IsDir() && strings.HasSuffix(p, ".fail") {
			tn := filepath.Base(filepath.Dir(p))
			dst := filepath.Join(replayDir, fmt.Sprintf("%s-%s-seed%d.fail", job.Name, tn, shardSeed))
			b, _ := os.ReadFile(p)
			// prepend the failure text as comments so the replay file is self-describing
			hdr := "# job=" + job.Name + " test=" + tn + "\n"
			for _, ln := range strings.Split(tail(failText(out), 3000), "\n") {
				hdr += "# " + ln + "\n"
			}
			os.WriteFile(dst, append([]byte(hdr), b...), 0o644)
			r.fails = append(r.fails, dst)
		}
		return nil
	})
	return r
}

func failText(out string) string {
	i := strings.Index(out, "[rapid] failed")
	if i < 0 {
		i = strings.Index(out, "--- FAIL")
	}
	if i < 0 {
		return tail(out, 2000)
	}
	return out[i:]
}

// runReplay re-executes a saved failure: a rapid .fail file (through -rapid.failfile) or a JSON
// replay (handed to the job's TestReplay through VERIF_REPLAY).
func runReplay(job *Job, bin, jw string, env []string, path string) *shardResult {
	b, err := os.ReadFile(path)
	if err != nil {
		die(2, "replay: %v", err)
	}
	sd := filepath.Join(jw, "replay")
	os.MkdirAll(filepath.Join(sd, "tmp"), 0o755)
	e := append([]string{}, env...)
	e = append(e, "VERIF_STATS="+filepath.Join(sd, "stats.json"), "VERIF_WORK="+sd, "TMPDIR="+filepath.Join(sd, "tmp"))
	var args []string
	if strings.HasSuffix(path, ".fail") {
		m := regexp.MustCompile(`# job=(\S+) test=(\S+)`).FindSubmatch(b)
		if m == nil || string(m[1]) != job.Name {
			return nil
		}
		// strip our comment header into a clean copy
		clean := filepath.Join(sd, "r.fail")
		var keep []string
		for _, ln := range strings.Split(string(b), "\n") {
			if strings.HasPrefix(ln, "# job=") {
				continue
			}
			keep = append(keep, ln)
		}
		os.WriteFile(clean, []byte(strings.Join(keep, "\n")), 0o644)
		args = []string{"-test.run", "^" + string(m[2]) + "$", "-test.v", "-rapid.failfile", clean, "-rapid.nofailfile"}
	} else {
		e = append(e, "VERIF_REPLAY="+path)
		args = []string{"-test.run", "TestReplay", "-test.v", "-rapid.nofailfile"}
	}
	out, code, to := run(sd, e, 10*time.Minute, bin, args...)
	r := &shardResult{job: job, out: out, code: code, timeout: to}
	if code != 0 && !to {
		r.fails = append(r.fails, path)
	}
	fmt.Fprintln(os.Stderr, tail(out, 4000))
	return r
}

type merged struct {
	evaluations int64
	distinct    int64
	nontrivTotal int64
	classes     map[string]int
	skipped     map[string]int
	excluded    map[string]int
	knownHits   map[string]int
	samples     []any
	notes       []string
	exhaustive  bool
	capped      bool
	jobs        []map[string]any
}

func merge(prop Prop, rs []*shardResult) *merged {
	m := &merged{classes: map[string]int{}, skipped: map[string]int{}, excluded: map[string]int{}, knownHits: map[string]int{}}
	seen := map[uint64]struct{}{}
	exAll := true
	anyStats := false
	perJob := map[string]map[string]any{}
	var sampleLists [][]any
	for _, r := range rs {
		if r == nil {
			continue
		}
		j := perJob[r.job.Name]
		if j == nil {
			j = map[string]any{"job": r.job.Name, "shards": 0, "evaluations": int64(0)}
			perJob[r.job.Name] = j
			m.jobs = append(m.jobs, j)
		}
		j["shards"] = j["shards"].(int) + 1
		if r.stats == nil {
			continue
		}
		anyStats = true
		p := r.stats
		j["evaluations"] = j["evaluations"].(int64) + p.Evaluations
		m.evaluations += p.Evaluations
		m.nontrivTotal += p.Nontrivial
		for _, h := range p.Hashes {
			seen[h] = struct{}{}
		}
		for k, v := range p.Classes {
			m.classes[k] += v
		}
		for k, v := range p.Skipped {
			m.skipped[k] += v
		}
		for k, v := range p.Excluded {
			m.excluded[k] += v
		}
		for k, v := range p.Known {
			m.knownHits[k] += v
		}
		if len(p.Samples) > 0 {
			sampleLists = append(sampleLists, p.Samples)
		}
		m.notes = append(m.notes, p.Notes...)
		if !p.Exhaustive {
			exAll = false
		}
		if p.HashesCap {
			m.capped = true
		}
	}
	for i := 0; len(m.samples) < 12 && i < 24; i++ { // round-robin over jobs/shards, later (larger) samples first
		for _, l := range sampleLists {
			if i < len(l) && len(m.samples) < 12 {
				m.samples = append(m.samples, l[len(l)-1-i])
			}
		}
	}
	m.distinct = int64(len(seen)) + int64(m.classes["bulk_distinct_nontrivial"])
	m.exhaustive = anyStats && exAll
	return m
}

func (m *merged) write(prop Prop, id, tier string, seed int64, wall float64, violations int) {
	cov := map[string]any{
		"evaluations":         m.evaluations,
		"distinct_nontrivial": m.distinct,
		"nontrivial_total":    m.nontrivTotal,
		"rule":                prop.Rule,
		"samples":             m.samples,
		"classes":             m.classes,
		"skipped":             m.skipped,
		"excluded_known":      m.excluded,
		"known_finding_hits":  m.knownHits,
		"jobs":                m.jobs,
	}
	if m.exhaustive {
		cov["exhaustive"] = true
	}
	if m.capped {
		cov["distinct_count_capped"] = true
	}
	if len(m.notes) > 0 {
		cov["notes"] = m.notes
	}
	if m.samples == nil {
		cov["samples"] = []any{}
	}
	ev := map[string]any{
		"property_id": id, "tier": tier, "seed": seed, "level": prop.Level,
		"coverage": cov, "assumptions": prop.Assumptions, "wall_s": wall, "violations": violations,
		"repo": repo,
	}
	b, _ := json.MarshalIndent(ev, "", " ")
	evDir := envOr("VERIF_EVIDENCE_DIR", filepath.Join(verifRoot, "evidence")) // the override is for sensitivity trials against scratch worktrees only
	os.MkdirAll(evDir, 0o755)
	os.WriteFile(filepath.Join(evDir, id+".json"), b, 0o644)
}
