package main

import "time"

const (
	min = time.Minute
)

func inj(name, pkg, file, tags, run string, quick, thorough, qShards, tShards int) Job {
	return Job{Name: name, Kind: "inject", Pkg: pkg, Files: []string{file}, Tags: tags, Run: run,
		Checks: [2]int{quick, thorough}, Shards: [2]int{qShards, tShards}, Timeout: [2]time.Duration{10 * min, 40 * min}}
}

var props = map[string]Prop{
	"C17": {
		ID: "C17", Level: "exploration",
		Rule: "rapid-generated cases per parser: argument lists rendered by a quoter written from the documented quoting rules (shellparse), pkg-config style flag lists (safesplit, clang flag merging, ExpandEnvToArgs with a fake pkg-config/llvm-config on PATH), +build expressions x -tags spellings (oracle: go/build/constraint), {key} templates, -X arguments. Non-trivial: an argument containing a blank, quote or backslash or being empty (shell); a flag value containing a blank or backslash (pkg-config); an expression with negation or mixing AND and OR (tags); >= 2 expansions in one template; a -X value containing '=', '.', blank or a dotted import path; env and config flags both present (merge). Distinct by hash of the rendered input.",
		Assumptions: []string{
			"go/build/constraint with the go command's tag set (GOOS, GOARCH, compiler, cgo, unix, release/tool tags, -tags) is the reference for build-tag evaluation",
			"only one -tags flag per command line is generated (the go tool lets the last one win, llgo's own tests expect accumulation; neither is asserted)",
			"pkg-config flag values do not start with '-', do not end in a blank or backslash, and contain no '$' (as pkg-config output never does)",
			"ExpandEnvWithDefault values are free of '{' (single-pass substitution is asserted only on that domain)",
		},
		Jobs: []Job{
			inj("shellparse", "internal/shellparse", "zz_verif_c17_test.go", "", "TestVerifC17", 60000, 1500000, 1, 4),
			inj("safesplit", "xtool/safesplit", "zz_verif_c17_test.go", "", "TestVerifC17", 60000, 1500000, 1, 4),
			inj("buildtags", "internal/buildtags", "zz_verif_c17_test.go", "", "TestVerifC17", 4000, 100000, 1, 4),
			inj("xenv", "xtool/env", "zz_verif_c17_test.go", "", "TestVerifC17", 1500, 40000, 2, 8),
			inj("ienv", "internal/env", "zz_verif_c17_test.go", "", "TestVerifC17", 40000, 1000000, 1, 2),
			inj("clang", "internal/clang", "zz_verif_c17_test.go", "", "TestVerifC17", 30000, 800000, 1, 2),
			inj("xflag", "internal/build", "zz_verif_c17_test.go", "llvm14", "TestVerifC17", 30000, 500000, 1, 2),
		},
	},
}
