package main

import "time"

const (
	min = time.Minute
)

func prog(name, pkg, run string, quick, thorough, qShards, tShards int) Job {
	return Job{Name: name, Kind: "harness", Pkg: pkg, Run: run, NeedLlgo: true,
		Checks: [2]int{quick, thorough}, Shards: [2]int{qShards, tShards}, Timeout: [2]time.Duration{20 * min, 90 * min}}
}

func har(name, pkg, run string, needLlgo bool, quick, thorough, qShards, tShards int) Job {
	return Job{Name: name, Kind: "harness", Pkg: pkg, Run: run, NeedLlgo: needLlgo, Prepare: "^TestPrepare$",
		Checks: [2]int{quick, thorough}, Shards: [2]int{qShards, tShards}, Timeout: [2]time.Duration{15 * min, 60 * min}}
}

func inj(name, pkg, file, tags, run string, quick, thorough, qShards, tShards int) Job {
	return Job{Name: name, Kind: "inject", Pkg: pkg, Files: []string{file}, Tags: tags, Run: run,
		Checks: [2]int{quick, thorough}, Shards: [2]int{qShards, tShards}, Timeout: [2]time.Duration{10 * min, 40 * min}}
}

var props = map[string]Prop{
	"C17": {
		ID: "C17", Level: "exploration",
		Rule: "rapid-generated cases per parser: argument lists rendered by a quoter written from the documented quoting rules (shellparse), pkg-config style flag lists (safesplit, clang flag merging, ExpandEnvToArgs with a fake pkg-config/llvm-config on PATH), +build expressions x -tags spellings (oracle: go/build/constraint), {key} templates, -X arguments. Non-trivial: an argument containing a blank, quote or backslash or being empty (shell); a flag value containing a blank or backslash (pkg-config); an expression with negation or mixing AND and OR (tags); >= 2 expansions in one template; a -X value containing '=', '.', blank or a dotted import path; env and config flags both present (merge). Distinct by hash of the rendered input.",
		Assumptions: []string{
			"go/build/constraint with the go command's tag set (GOOS, GOARCH, compiler, cgo, unix, release/tool tags, -tags) is the reference for build-tag evaluation",
			"only one -tags flag per command line is generated (the go tool lets the last one win, llgo's own tests expect accumulation; neither is asserted)",
			"pkg-config flag values do not start with '-', do not end in a blank or backslash, and contain no '$' (as pkg-config output never does)",
			"ExpandEnvWithDefault values are free of '{' (single-pass substitution is asserted only on that domain)",
		},
		Jobs: []Job{
			inj("shellparse", "internal/shellparse", "zz_verif_c17_test.go", "", "TestVerifC17", 60000, 1500000, 1, 4),
			inj("safesplit", "xtool/safesplit", "zz_verif_c17_test.go", "", "TestVerifC17", 60000, 1500000, 1, 4),
			inj("buildtags", "internal/buildtags", "zz_verif_c17_test.go", "", "TestVerifC17", 4000, 100000, 1, 4),
			inj("xenv", "xtool/env", "zz_verif_c17_test.go", "", "TestVerifC17", 1500, 40000, 2, 8),
			inj("ienv", "internal/env", "zz_verif_c17_test.go", "", "TestVerifC17", 40000, 1000000, 1, 2),
			inj("clang", "internal/clang", "zz_verif_c17_test.go", "", "TestVerifC17", 30000, 800000, 1, 2),
			inj("xflag", "internal/build", "zz_verif_c17_test.go", "llvm14", "TestVerifC17", 30000, 500000, 1, 2),
		},
	},
	"C18": {
		ID: "C18", Level: "exploration",
		Rule: "(1) every shipped targets/*.json loaded with a fresh loader, through LoadAll and in rapid-drawn orders through a shared loader; (2) rapid-generated acyclic inheritance forests (1-12 descriptions, depth <= 5, 0-3 parents, duplicates and diamonds) over every Config field found by reflection, each node resolved fresh, warm, twice and through LoadAll and compared field by field with an independent resolver over the raw JSON; (3) ill-formed forests (missing parent, self-inheritance, 2- and 3-cycles, cycle behind the second parent, malformed JSON) resolved in a helper process that must answer with an error. Non-trivial: shipped target with an inherits list; forest with a diamond or >= 3 levels in which some field is defined at two levels of one chain; every ill-formed forest. Distinct by hash of target name / forest JSON.",
		Assumptions: []string{
			"explicit zero values in a child (\"\", false, []) are outside the generated domain: the loader documents that only non-empty values override",
			"the helper process lowers debug.SetMaxStack to 32 MiB so that runaway recursion is observed as a crash within a second",
		},
		Jobs: []Job{
			inj("shipped", "internal/targets", "zz_verif_c18_test.go", "", "TestVerifC18Shipped", 300, 5000, 1, 1),
			inj("forest", "internal/targets", "zz_verif_c18_test.go", "", "TestVerifC18Forest", 1500, 60000, 4, 16),
			inj("illformed", "internal/targets", "zz_verif_c18_test.go", "", "TestVerifC18IllFormed", 400, 20000, 2, 8),
		},
	},
	"C20": {
		ID: "C20", Level: "exploration",
		Rule: "rapid-generated archives in the three formats (tar.gz and zip written with the standard library, tar.xz by piping the tar through xz) with entry names from {plain, nested, ./-prefixed, '..' at any depth, '..' that stays inside, absolute (also naming a watched path), empty/./trailing-slash/doubled-slash, duplicates, file-vs-directory clashes, destination-prefix siblings}, symlink and hard-link entries followed by writes through them (tar), contents 0-64 KiB, with and without explicit parent directories; extracted into root/dest while the whole root (sentinel files, sibling dirs) is snapshotted before and after. Non-trivial: archive with an escaping entry, a link, a clash, a duplicate, a destination-prefix sibling or a missing parent directory; every concurrent-request case. Distinct by hash of (format, entry list).",
		Assumptions: []string{
			"an entry 'escapes' when filepath.Join(dest, name) is neither dest nor below it; absolute names are mapped below dest by Join / GNU tar and need no error",
			"tar.xz is delegated to the system GNU tar 1.34, whose behaviour is part of what is observed",
			"confinement against a concurrently hostile filesystem is out of scope",
			"concurrency: goroutines inside one process against a local httptest server; server-side delays are rapid draws but OS scheduling is not controlled",
		},
		Jobs: []Job{
			inj("extract", "internal/crosscompile", "zz_verif_c20_test.go", "llvm14", "TestVerifC20Extract", 1500, 40000, 4, 16),
			inj("concurrent", "internal/crosscompile", "zz_verif_c20_test.go", "llvm14", "TestVerifC20Concurrent", 60, 1500, 2, 8),
		},
	},
	"C16": {
		ID: "C16", Level: "exploration",
		Rule: "rapid generates modules of 4-12 packages; each package directory holds a random tree (depth <= 4; names with leading . and _, spaces, unicode, names module.CheckFilePath rejects, .git, empty directories, symlinks, nested go.mod) and one //go:embed line built from a pattern list (existing files and directories, globs derived from them, all: prefix, quoted and back-quoted spellings, duplicates, invalid and non-matching patterns, odd directive prefixes, trailing junk); one `go list -e -json ./...` per module is the reference for EmbedPatterns, EmbedFiles and acceptance. Non-trivial: package with a hidden/underscore/invalid name, a symlink, a nested module, a glob, all:, quoting, a special pattern or an odd directive. Distinct by hash of (tree, directive line). Second job: rapid-generated file sets (names chosen so that directories have siblings sorting before '/') are passed through BuildFSEntries and the resulting table is installed into a real embed.FS value, whose own ReadFile/ReadDir/WalkDir must find every file and directory; non-trivial there = the set contains a directory. Third job (compiled): rapid generates modules of 1-3 packages with drawn file trees (sizes 0..65537 around block boundaries; NUL, 0xFF, CR/LF, quote/backslash, UTF-8 and pseudo-random bytes; hidden/underscore/blank/non-ASCII names; nested directories) and 1-5 embed variables per package of type string, []byte and embed.FS (files, directories, all:, globs, several patterns, one file in two variables); the program built by the llgo under test prints length+FNV hash of every variable, writes through every []byte variable, and walks every embed.FS (ReadDir listings, ReadFile, Info, chunked Read, Seek, ReadAt, Stat, Close, missing and invalid names); output compared line by line with the gc build of the same module. Non-trivial there = a module with >= 2 variables and a file that is empty, larger than 4 KiB or holds NUL/0xFF/random bytes.",
		Assumptions: []string{
			"`go list -e -json` of the go1.24 toolchain is the reference for which files are embedded and which packages are rejected",
			"errors are compared as accept/reject only, not by message",
			"each generated package carries one //go:embed variable, so go list's per-package union equals that variable's file list",
			"compiled job: gc (go1.24) output is the reference; nil-ness of a []byte variable embedding an empty file is not compared (contents are); O0 only (LLVM 14)",
		},
		Jobs: []Job{
			inj("golist", "internal/goembed", "zz_verif_c16_test.go", "", "TestVerifC16GoList", 60, 2500, 6, 16),
			inj("fstable", "internal/goembed", "zz_verif_c16_fs_test.go", "", "TestVerifC16FSTable", 20000, 1000000, 1, 4),
			prog("programs", "./harness/c16", "TestC16Programs", 2, 12, 4, 16),
		},
	},
	"C07": {
		ID: "C07", Level: "exploration",
		Rule: "rapid generates Go source for 2-3 packages: named, alias, generic and interface declarations, variables of composite type expressions from a recursive grammar, verbatim copies of an expression in another package, one-attribute near-miss mutants (field name/tag/embeddedness/order/exportedness, array length, chan direction, variadic vs slice, parameter order, result count, method name/result, type argument, other named type, alias) and function-local types with equal names in different functions and scopes; the source is type-checked in-process and for every pair of pool types Builder.TypeName equality is compared with types.Identical (both directions). Non-trivial pair: one side is a mutant, a copy, an alias, or both are local types. Distinct by hash of both type strings and origins.",
		Assumptions: []string{
			"go/types.Identical is the reference for type identity",
			"the in-process part queries abi.Builder.TypeName on the go/types types (64-bit sizes), as ssa/abitype.go does for descriptor globals; the compiled end-to-end part (assertions, type switches, interface-keyed maps) is covered by the generated-program job when built",
			"generated source that go/types rejects is skipped and counted (generator limitation)",
		},
		Jobs: []Job{
			inj("typename", "ssa/abi", "zz_verif_c07_test.go", "", "TestVerifC07TypeNameIdentity", 5000, 150000, 4, 16),
			prog("programs", "./harness/c07", "TestC07Programs", 2, 12, 8, 16),
		},
	},
	"C02": {
		ID: "C02", Level: "exploration",
		Rule: "programs/evalnum: one non-inlined function per (operator, type), per ordered conversion pair, per (operand type, count type) shift pair and per constant-operand variant (4086 functions). (1) rapid draws (function, operand bit patterns) with boundary-biased values (0, +-1, +-2, min, max, 2^k, 2^k+-1, width extremes, shift counts around every width and type extreme, float specials / rounding halfway cases / integer-range edges) - non-trivial = at least one operand from a boundary class; distinct by (function, operands). (2) every function whose run-time operands are 8-bit (and 16-bit unary/conversion functions) is enumerated completely (all 65,536 pairs; shifts: all 256 operands x ~170 counts) and compared by checksum, then point by point on mismatch. Each case is evaluated natively (gc) and by the llgo-compiled program at every listed configuration.",
		Assumptions: []string{
			"reference = the same Go functions compiled by gc (go1.24, amd64) and called in-process",
			"float->integer conversions of NaN/out-of-range values are excluded (implementation-defined); NaN results compare equal to any NaN",
			"LLVM 14.0.6 with -opaque-pointers compiles llgo's IR faithfully; configurations that make libLLVM-14 crash are skipped and counted",
			"32/64-bit operand spaces are sampled at boundaries, not enumerated",
			"complex64 multiplication and division are compared with a tolerance of 8 float32 ulps of the larger component (the spec leaves their intermediate precision open: gc widens to float64, single-precision evaluation is valid too); every other operator is compared bit for bit",
		},
		Jobs: []Job{
			har("exhaustive8", "./harness/c02", "TestC02Exhaustive8", true, 0, 0, 4, 16),
			har("random", "./harness/c02", "TestC02Random", true, 40000, 1500000, 8, 16),
		},
	},
	"C05": {
		ID: "C05", Level: "exploration",
		Rule: "programs/seqops compiled by the llgo under test (O0, O2, Oz, O2+nogc; thorough adds O1, O3, O0+nogc). Slices: rapid state machine of 1-30 steps over 8 slice registers of one element type (sizes 0, 1, 2, 3, 8, 24 bytes): make, literal, nil, append of k values, append of a window of another or the same register, the delete idiom append(s[:i], s[i+1:]...), append loops, copy (incl. self-overlap), 2- and 3-index reslicing up to capacity, clear, element store; lengths cross the growth thresholds (0..33, 255-257, 511-513, 1023-1025). After every step every register is dumped and compared with an explicit model (backing id, offset, len, cap; capacity chosen on reallocation is observed, only required >= len); the model runs against gc natively too and must agree with it. Non-trivial: history with both a reallocating and an in-place append, or an overlapping copy/append, or a zero-size element type. Strings: rapid byte strings built from valid, overlong, surrogate, truncated and out-of-range sequences x 16 operations, compared byte for byte with native execution; non-trivial = operand with a byte >= 0x80.",
		Assumptions: []string{
			"the slice model is the Go spec's description of append/copy/slice expressions; capacity growth is not asserted",
			"string operations: gc's own string runtime (same functions executed in-process) is the reference",
		},
		Jobs: []Job{
			har("modelselftest", "./harness/c05", "TestC05ModelSelfTest", true, 3000, 200000, 1, 4),
			har("slices", "./harness/c05", "TestC05Slices", true, 1200, 60000, 8, 16),
			har("strings", "./harness/c05", "TestC05Strings", true, 20000, 800000, 4, 8),
		},
	},
	"C06": {
		ID: "C06", Level: "exploration",
		Rule: "programs/mapops (14 key/value type pairs: int64, uint8, string, float64 with +-0 and NaN, complex128, bool, [2]int32, structs with padding / blank field / float, interface keys of mixed dynamic type, 160-byte indirect keys and values) compiled by the llgo under test at O0, O2, Oz, O2+nogc. (1) point histories: rapid sequences of 1-60 operations (set, get in both forms, delete, len, clear, make(hint), nil map, full dump, bulk insert/delete of up to 20000 keys with strides, unhashable interface keys) compared after every step with gc's own map executing the same interpreter natively (dumps as multisets); non-trivial = history crossing a growth or doing bulk churn or using +-0/NaN/special tokens. (2) range loops with interleaved mutation: maps of 0-2500 keys, optionally after churn (insert, delete 90 percent), a script of up to 8 mutations keyed by iteration step (overwrite, delete, insert, bulk insert forcing growth, clear) and optional early break; the transcript must satisfy Go's guarantees (only present keys, current values, no key twice, every key present throughout yielded once on natural termination) and the final map must equal the model; the predicate is run on gc's transcript too. Distinct by hash of the history.",
		Assumptions: []string{
			"gc's map (go1.24) executing the same interpreter in-process is the reference for point operations",
			"the range predicate encodes exactly the spec's guarantees for iteration under mutation; it is validated against gc on every case",
		},
		Jobs: []Job{
			har("point", "./harness/c06", "TestC06Point", true, 600, 30000, 8, 16),
			har("rangemut", "./harness/c06", "TestC06RangeMutation", true, 300, 15000, 8, 16),
		},
	},
	"C03": {
		ID: "C03", Level: "exploration",
		Rule: "programs/bounds: 390 operation functions (index read/write/address on arrays, array pointers, slices, strings, zero-size and nested slices x 11 index types; 2- and 3-index slice expressions x 5 index types incl. constant bounds; make of slices/maps/chans with element sizes 0/1/8/4096; slice->array conversions; nil dereference in every syntactic position with fields at offsets 0..8 MiB and values of 8 B..1 MiB; nil map, type assertions, integer division, channel misuse; side-effect ordering around the faulting operand) each shaped trace(1); op; trace(2) and run `repeat` times under a deferred recover. rapid draws (operation, len, cap, lo, hi, max, idx, nil-ness flags, dynamic type, repeat): half of the tuples in range, the rest from {-1, 0, 1, len-1, len, len+1, cap-1, cap, cap+1, type extremes, 2^31, 2^32, 2^63}. Compared with native gc execution: panicked or not, normalised error class, trace points, helper call order, surviving side effects, result, and (separately keyed) whether the recovered value is a runtime.Error. Non-trivial: a coordinate within +-1 of a bound or at a type extreme, or repeat >= 2; distinct by the whole tuple.",
		Assumptions: []string{
			"panic messages are compared by class (index / slice / nil dereference / nil map / assertion / divide / make / conversion / channel), not by text",
			"make sizes are either < 2^17 or absurd (negative, >= 2^56): sizes in between would really allocate",
		},
		Jobs: []Job{
			har("tuples", "./harness/c03", "TestC03Tuples", true, 12000, 1000000, 8, 16),
		},
	},
	"C10": {
		ID: "C10", Level: "exploration",
		Rule: "runtime/internal/runtime/z_chan.go is copied verbatim from the working tree into a scratch module whose clite and pthread/sync imports are stand-ins that hand every Lock/Unlock/Wait/Signal/Broadcast to a deterministic scheduler; rapid draws a script (1-3 channels of capacity 0-2, 2-4 threads x 1-4 operations: send, receive, close (one closer per channel), len, blocking select and non-blocking select with 1-4 cases incl. nil channels and repeated channels) and every scheduling decision (next thread, which waiter a Signal wakes, up to 3 spurious wake-ups; uniform or PCT-style priorities). A monitor checks over the history: tokens received were sent, once, on that channel, in per-(sender,receiver) FIFO order; completed sends <= cap + started receives; ok=true receives <= started sends; ok=false only under close, with zero value, never overtaking tokens sent before the close; sends after a completed close never succeed; no pthread misuse; and at quiescence no blocked operation is enabled in the Go channel model (lost wake-up). Non-trivial: >= 2 context switches. Distinct by (script, steps, switches). Second job (compiled): rapid generates import-free programs of 8-20 units from 16 templates (multi-producer FIFO, multi-producer/multi-consumer exactly-once, close waking blocked plain/range/select receivers, select multiplexing with nil-ed channels, select with default on empty/full/nil/closed channels, select-driven worker pool, select-send producers, select-receive consumers, single-goroutine ring rotation mixing select and plain operations, unbuffered ping-pong, capacity bound observed between receives, publication of plain memory through a channel) with drawn counts, capacities 0-64 and busy-wait delays; built by gc and by the llgo under test (O0, O2; thorough adds Oz, O2+nogc, O1, O3), every llgo binary run 6 (25) times; outputs must equal the gc output. Non-trivial there = every unit with at least two goroutines.",
		Assumptions: []string{
			"schedules are sampled (uniform and priority-based) at lock/wait/signal granularity, not enumerated",
			"the stand-in mutex/condvar implement POSIX semantics including what POSIX leaves open (which waiter wins, spurious wake-ups)",
			"the schedule job decides the algorithm in z_chan.go as written; the compiled job (programs) runs generated channel programs built by the llgo under test on hardware threads, several runs per binary, interleavings perturbed only by drawn busy-wait delays (sampled, not controlled)",
			"compiled job: every unit's summary is schedule-independent by construction (checked on the gc build by running it three times); a run that is alive after 20 s and consumes no CPU in two 3 s windows is a deadlock (the programs have no timers), a run that is busy is inconclusive; selects with a send case use buffered channels only (listed finding)",
		},
		Jobs: []Job{
			{Name: "schedules", Kind: "lift", Pkg: "./internal/runtime", Run: "TestVerifC10", Lift: []LiftFile{{Src: "runtime/internal/runtime/z_chan.go", Dst: "internal/runtime/z_chan.go"}},
				Checks: [2]int{100000, 3000000}, Shards: [2]int{8, 16}, Timeout: [2]time.Duration{10 * min, 60 * min}},
			prog("programs", "./harness/c10", "TestC10Programs", 2, 10, 8, 16),
		},
	},
	"C11": {
		ID: "C11", Level: "exploration",
		Rule: "runtime/internal/lib/runtime/sema_llgo.go is copied from the working tree (without //go:linkname lines) into the stand-in module; its pthread mutex/cond/once and its atomics are scheduling points of the deterministic scheduler. (1) semaphores: 2-4 threads x 1-4 semaAcquire/semaRelease on 1-2 addresses with initial counts 0-2; invariants: completed acquires <= initial + started releases, a release never blocks, at quiescence nobody is blocked in acquire while the count is positive. (2) notify lists: threads shaped like sync.Cond (ticket = Add, then Wait(ticket)) against NotifyOne/NotifyAll at arbitrary points; invariants: Wait(t) returns only if a started NotifyAll can cover t or enough NotifyOne calls were started, and at quiescence no waiter whose ticket is already covered (notify > ticket) is still blocked. Scheduling choices (next thread, which waiter a Signal wakes, spurious wake-ups, PCT priorities) are rapid draws. Non-trivial: >= 2 context switches; distinct by (script, steps, switches).",
		Assumptions: []string{
			"schedules are sampled, not enumerated; fairness (every waiter eventually admitted) is checked only in its safety form (no waiter left blocked at quiescence although its wake-up condition holds)",
			"the compiled sync.Mutex/RWMutex/WaitGroup/Once/Cond/atomic stress programs are a separate job (when built)",
		},
		Jobs: []Job{
			{Name: "sema", Kind: "lift", Pkg: "./internal/lib/runtime", Run: "TestVerifC11", Lift: []LiftFile{{Src: "runtime/internal/lib/runtime/sema_llgo.go", Dst: "internal/lib/runtime/sema_llgo.go", DropLinkname: true}},
				Checks: [2]int{60000, 2000000}, Shards: [2]int{8, 16}, Timeout: [2]time.Duration{10 * min, 60 * min}},
			prog("litmus", "./harness/c11", "TestC11Litmus", 8, 48, 8, 16),
		},
	},
	"C04": {
		ID: "C04", Level: "exploration",
		Rule: "rapid generates import-free programs (a third of them import runtime for Goexit) of 8-30 independent units; a unit is a call tree of 1-5 functions with a named result whose bodies are drawn from a statement language: trace, defer with arguments evaluated at the defer statement, deferred closures reading locals later and writing the named result, direct recoverers, re-panicking deferred functions, deferred calls of functions that have defers of their own, placed unconditionally, under if, inside for loops (1-4 trips) and inside range-over-func bodies (with early break); panics with int/string/error/custom values, run-time faults (index, nil map, nil pointer, divide), early returns, runtime.Goexit, calls down the chain; units run on the main goroutine or in a goroutine. Each program is built by gc and by llgo at O0 and O2 (O0 and Oz when it imports runtime) and compared unit by unit: ordered trace, recovered values, final results, process outcome. Non-trivial unit: >= 2 features and control leaves by panic, fault, Goexit or early return; distinct by hash of (unit source, reference trace).",
		Assumptions: []string{
			"gc (go1.24) output of the same program is the reference; programs are deterministic by construction",
			"recover called one frame below the deferred function is generated only in dedicated units (listed finding)",
		},
		Jobs: []Job{
			prog("programs", "./harness/c04", "TestC04Programs", 3, 16, 8, 16),
		},
	},
	"C12": {
		ID: "C12", Level: "exploration",
		Rule: "rapid generates modules of 2-8 packages forming an import DAG (plus a tracing leaf package): 1-3 files per package with names whose lexical order differs from generation order; 1-6 package-level variables per package whose initialisers trace and depend on variables of higher dependency rank declared anywhere (later, other files), on functions that read variables (hidden dependencies), on variables and functions of imported packages, optionally wrapped in closures; 0-3 init functions per file; blank imports where a file does not use an import; main importing a random subset in an order unrelated to the DAG. A quarter of the modules also initialise through sync/atomic, sync.Once, sync.Map, reflect and strconv (std packages llgo overlays), at O0 only; the others are import-free and built at O0 and O2 (thorough: also Oz and O2+nogc). The complete trace and exit code must equal gc's. Non-trivial: some variable initialised out of declaration order because of a dependency AND (some package reachable by >= 2 import paths or an initialiser reading another package); distinct by module hash.",
		Assumptions: []string{
			"gc (go1.24) defines the order (the spec fixes it for these programs)",
			"only build mode exe is exercised",
		},
		Jobs: []Job{
			prog("modules", "./harness/c12", "TestC12Modules", 2, 12, 8, 16),
		},
	},
	"C08": {
		ID: "C08", Level: "exploration",
		Rule: "rapid builds go/types types from a recursive grammar (every scalar width, complex, string, unsafe.Pointer, pointers, slices, maps, chans, funcs, empty and non-empty interfaces, arrays of length 0/1/2/3/5, structs of 0-6 fields with blank fields, named types; depth <= 4) and evaluates each on six targets (linux/amd64, arm64, riscv64, 386, arm, wasip1/wasm; Program and types.Sizes set up exactly as internal/build.Do does): (a) Program.TypeSizes Sizeof/Alignof/Offsetsof (what folds unsafe.Sizeof etc.), (b) the LLVM data layout of Program.Type(T) (size, ABI alignment, element offsets = what generated code and descriptor field offsets use), (c) abi.Builder.Size/Align (descriptor). All must coincide. Non-trivial: type containing a struct, func, zero-length array or complex; distinct by (type, target). Third job (clayout): batches of 1-10 C-compatible struct shapes (1-7 fields of int8..uint64, float32/64, bool, uintptr, unsafe.Pointer, *int32, arrays of 1-5 elements incl. nested arrays, nested structs to depth 3; named and unnamed) are emitted as go/types types and as C declarations; clang prints sizeof, _Alignof and offsetof of every field for each of the six targets and all three llgo computations must equal them. Non-trivial there = a struct with an array or nested struct field.",
		Assumptions: []string{
			"32-bit and non-x86 targets are evaluated in-process only (their code cannot be executed here)",
			"C agreement: clang 14 (the host C compiler; other targets through -target with clang's built-in target description, no sysroot needed because only sizeof/_Alignof/__builtin_offsetof constants are emitted) defines the C layout; Go bool = _Bool, uintptr = unsigned long, unsafe.Pointer/*T = pointer; shapes on which llgo's three computations already disagree (listed findings) are counted under excluded_known, not compared",
		},
		Jobs: []Job{
			inj("layout", "ssa", "zz_verif_c08_test.go", "llvm14", "TestVerifC08Layout", 4000, 150000, 4, 16),
			inj("mapdesc", "ssa", "zz_verif_c08_test.go", "llvm14", "TestVerifC08MapDescriptor", 1500, 40000, 2, 8),
			{Name: "clayout", Kind: "inject", Pkg: "ssa", Files: []string{"zz_verif_c08_test.go", "zz_verif_c08c_test.go"}, Tags: "llvm14", Run: "TestVerifC08CLayout",
				Checks: [2]int{80, 2500}, Shards: [2]int{4, 16}, Timeout: [2]time.Duration{15 * min, 60 * min}},
		},
	},
	"C01": {
		ID: "C01", Level: "exploration",
		Rule: "harness/gencore: rapid composes import-free modules of 5 packages (main, pa, q.r/pa, pb, pc/sub; module path with a dot) from 10-24 independent units; each unit instantiates one of 15 templates of the core language with drawn constants, types and package placement (labelled break/continue/goto/fallthrough; closures capturing by reference, per-iteration loop variables, closures in struct fields, package-level initialisers and across packages; value/pointer receivers, method values and expressions, embedding with promotion and shadowing; interface dispatch, embedding, type switches, nil pointer in interface; generic functions and types with ~constraints, local and named type arguments, instantiation from two packages; struct/array copy semantics and aliasing; two-phase multiple assignment; every range form incl. range-over-func with break and return; variadics, mutual recursion; defer/recover; mixed-width integer and string operations; bound methods) and main ends normally, with an uncaught panic or with a run-time fault. Each module is built by gc and by llgo at O0, O2 and O2+nogc (thorough: also Oz, O0+nogc, O1, O3); per-unit output lines, the normalised panic line and the exit status must agree. Non-trivial: every unit (each executes several constructs of the property's list); distinct by (template, reference output).",
		Assumptions: []string{
			"gc (go1.24) output is the reference; units avoid unspecified behaviour by construction (no map order, addresses, float formatting, unspecified evaluation order)",
			"uncaught-panic output is compared after normalisation (first panic line by class, exit status; goroutine dumps dropped)",
			"LLVM 14: configurations that crash libLLVM are skipped and counted; loops over large temporaries are not generated (listed C06 stack finding)",
		},
		Jobs: []Job{
			prog("programs", "./harness/c01", "TestC01Programs", 2, 14, 8, 16),
		},
	},
	"C14": {
		ID: "C14", Level: "exploration",
		Rule: "harness/gencore restricted to its naming-hazard templates: programs of 10-24 units over packages main, pa, q.r/pa (two packages named pa), pb, pc/sub in module ex.io/m.v: identical type/method/function/variable names in two packages, methods Val/Val2 with nested closures on value and pointer receivers, closures in package-level initialisers and in init, generic types and functions instantiated with same-named function-local types from two packages and with named, composite and local type arguments across packages, bound-method values and method expressions, closures passed across packages. Every entity yields its own token; the program built by llgo (O0, O2, O2+nogc; thorough more) must print exactly what gc prints. Non-trivial: every unit (each contains >= 1 pair of entities whose short names coincide while their qualified identity differs); distinct by (template, reference output).",
		Assumptions: []string{
			"gc output is the reference: a merged, duplicated or mis-bound symbol shows as a wrong token, a link failure or a crash",
			"the in-process injectivity check of the naming functions and the inspection of mergeable (linkonce/weak) definitions across modules are not built; linkname/export directives are not generated",
		},
		Jobs: []Job{
			prog("programs", "./harness/c14", "TestC14Programs", 2, 12, 8, 16),
		},
	},
	"C13": {
		ID: "C13", Level: "exploration",
		Rule: "rapid generates a module main -> p1 -> ... (2-4 packages; per package a constant folded into its importers, optionally an embedded file, a C file named by LLGoFiles, build-tag-selected files, init-carrying extra files) and a history of 5-12 steps (edit the constant of main / a dependency / the leaf, edit an embedded file with the same or another length, edit the C file, toggle the build tag, add or remove a source file, revert the previous edit, rewrite a file unchanged, switch -O0/-O2, rebuild unchanged, drop the module's cache entries, and a dedicated edit that keeps size and modification time); after every step the module is rebuilt with the same cache directory and run, and must print what the model computes from the current inputs; at the end two builds from an empty module cache must give byte-identical archive members. A case is one step; non-trivial = the step changes an input of a package whose archive is in the cache. Third-round additions: a package may import a declaration-only binding package d<i> (LLGoPackage = decl, a linkname'd C function, a constant of its own and one forwarded from a further package c<i>) with steps editing d<i> and c<i>; package main may build types with reflect.SliceOf/PointerTo/MapOf/ArrayOf (short histories); at the end the executables of the two builds from an empty module cache must be byte-identical too.",
		Assumptions: []string{
			"every input is printed by the program by construction, so the model's expected output is exact",
			"-X overrides are not reachable from the llgo command line (only through build.Config.GlobalRewrites) and behaviour-affecting environment variables have no observable effect on these programs: neither is generated",
			"programs with an embedded file are built at -O0 only (LLVM 14)",
			"archive member names carry a random temporary suffix and are not compared; member contents are",
		},
		Jobs: []Job{
			prog("histories", "./harness/c13", "TestC13Histories", 1, 6, 8, 16),
		},
	},
	"C19": {
		ID: "C19", Level: "exploration",
		Rule: "rapid generates programs of 12-30 units over three Go packages using github.com/goplus/lib/py: values (64-bit signed/unsigned integers incl. the range limits, floats by bit pattern incl. NaN/inf/-0/denormals, valid UTF-8 strings incl. multi-byte and NUL, byte strings, nested lists/tuples) converted to Python objects and read back; bound builtins/math functions called with order-sensitive positional arguments; callables fetched by name invoked through CallNoArgs/CallOneArg/CallObject/CallFunctionObjArgs/Call with 0-6 arguments; module attributes looked up by name; package-level initialisers of two other Go packages using Python modules before main. A Python script generated alongside performs the same computation under python3 (CPython 3.11, the library the program links) and every line is compared per unit. Non-trivial = every unit except plain attribute lookups.",
		Assumptions: []string{
			"CPython 3.11 running the generated oracle script is the reference",
			"only valid UTF-8 is passed to py.Str; domains avoid Python exceptions except where both sides print NULL",
			"'each module imported once' is observed only as: use from package-level initialisers of several Go packages works before main; import counts are not instrumented",
			"O0 only",
		},
		Jobs: []Job{
			prog("programs", "./harness/c19", "TestC19Programs", 3, 40, 8, 16),
		},
	},
	"C15": {
		ID: "C15", Level: "exploration",
		Rule: "rapid generates a pool of 8-22 named types in two packages (named basics, structs with tags / unexported / embedded value and pointer fields, generic structs and instances, named interfaces, named composites, a recursive struct; 0-3 methods each on value and pointer receivers incl. String/Error/GoString) plus 4-10 unnamed composites, 1-3 values per type; the generated program walks every type with reflect, exercises the values and formats them with ~40 fmt verb/flag combinations, in one of three modes (full walker / constant MethodByName only / formatting only); gc's output of the same program is the oracle, compared line by line per type. A case is one (type, mode); non-trivial = the type has at least two of {embedded field, embedded pointer, embedded generic instance, pointer-receiver method, value-receiver method, fmt interface method, tag, unexported field, generic instance, recursion, named composite}.",
		Assumptions: []string{
			"gc (go1.24) running the same program is the reference for reflect and fmt",
			"documented difference excluded by construction: sizes/offsets of types containing func values, anything that prints an address (non-nil nested pointers, chans, funcs)",
			"type arguments spelled byte/rune are not generated (C07 listed finding)",
			"O0 only (programs importing fmt/reflect cannot be optimised by LLVM 14 here)",
		},
		Jobs: []Job{
			prog("programs", "./harness/c15", "TestC15Programs", 2, 12, 8, 16),
		},
	},
	"C09": {
		ID: "C09", Level: "exploration",
		Rule: "rapid generates pairs of a Go main package and a C file (bound through LLGoFiles) of 10-30 units; a unit draws a C-compatible struct shape (1-6 fields of int8..int64, uint8..uint64, float, double, arrays of 1-4 scalars, one level of nesting; <= 80 bytes; biased to the SysV classification edges: all-float, float+int in one eightbyte, exactly two integer eightbytes, double+int64) and a signature that puts it after 0-8 and before 0-3 scalar arguments (biased to exhausting the integer or SSE registers). Three crossings per unit: Go calls C with the values, C returns the struct to Go, C calls a Go callback (named function or non-capturing function literal) with the values and checks the struct it returns. Each receiving side folds every scalar it sees (sign-extended / as IEEE bits) into an FNV-1a checksum; the expected checksums are computed by the harness from the generated literals. The C file is compiled by the host clang. Built at O0, O2 and Oz. Non-trivial: struct classified MEMORY (> 16 bytes), or with an SSE part, or registers exhausted, or a function-literal callback; distinct by unit description.",
		Assumptions: []string{
			"host ABI only (x86-64 SysV); other architectures' classifiers cannot be executed here",
			"callbacks handed to C as bare function pointers do not capture variables: a C signature without a context argument has no place for closure state (capturing closures crash in llgo; not generated)",
			"values are integers with the top bit set and dyadic floats; strings/byte buffers (c.AllocaCStr, c.GoString) are not part of this job",
		},
		Jobs: []Job{
			prog("programs", "./harness/c09", "TestC09Programs", 3, 20, 8, 16),
		},
	},
}
