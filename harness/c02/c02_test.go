package c02

// C02: every numeric operator and conversion, for every operand value, yields the value Go defines.
// Oracle: the very same functions (programs/evalnum/cases) linked into this gc-compiled test binary
// and called natively; subject: the same package compiled by the llgo under test at several
// optimisation levels / runtime configurations, driven over a framed pipe protocol.

import (
	"encoding/binary"
	"encoding/json"
	"fmt"
	"math"
	"os"
	"path/filepath"
	"strconv"
	"strings"
	"sync"
	"testing"
	"time"

	"pgregory.net/rapid"
	"verif/harness/progkit"
	"verif/programs/evalnum/cases"
	vstat "verifstat"
)

var width = map[string]int{"int8": 8, "int16": 16, "int32": 32, "int64": 64, "int": 64, "uint8": 8, "uint16": 16, "uint32": 32, "uint64": 64, "uint": 64, "uintptr": 64, "bool": 1, "float32": 32, "float64": 64}

func isInt(t string) bool    { return strings.HasPrefix(t, "int") || strings.HasPrefix(t, "uint") }
func isSigned(t string) bool { return strings.HasPrefix(t, "int") }

type target struct {
	cfg progkit.Config
	ip  *progkit.Interp
	bin string
}

var (
	setupOnce sync.Once
	targets   []*target
	setupErr  string
	skipped   []string
)

func configs() []progkit.Config {
	if os.Getenv("VERIF_TIER") == "thorough" {
		return []progkit.Config{{Opt: "O0"}, {Opt: "O2"}, {Opt: "Oz"}, {Opt: "O0", NoGC: true}, {Opt: "O2", NoGC: true}, {Opt: "O1"}, {Opt: "O3"}, {Opt: "Os"}}
	}
	return []progkit.Config{{Opt: "O0"}, {Opt: "O2"}, {Opt: "Oz"}, {Opt: "O2", NoGC: true}}
}

// TestPrepare builds the interpreter once per check run into $VERIF_SHARED; the shards start from there.
func TestPrepare(t *testing.T) {
	if os.Getenv("VERIF_SHARED") == "" {
		t.Skip("no VERIF_SHARED")
	}
	setup(t)
	type ent struct {
		Cfg progkit.Config
		Bin string
	}
	var l []ent
	for _, tg := range targets {
		l = append(l, ent{tg.cfg, tg.bin})
		tg.ip.Close()
	}
	b, _ := json.Marshal(map[string]any{"targets": l, "skipped": skipped})
	if err := os.WriteFile(filepath.Join(os.Getenv("VERIF_SHARED"), "targets.json"), b, 0o644); err != nil {
		t.Fatalf("VERIF-INFRA %v", err)
	}
}

func setup(t testing.TB) {
	setupOnce.Do(func() {
		if b, err := os.ReadFile(filepath.Join(os.Getenv("VERIF_SHARED"), "targets.json")); err == nil && os.Getenv("VERIF_SHARED") != "" {
			var doc struct {
				Targets []struct {
					Cfg progkit.Config
					Bin string
				} `json:"targets"`
				Skipped []string `json:"skipped"`
			}
			if json.Unmarshal(b, &doc) == nil && len(doc.Targets) > 0 {
				skipped = doc.Skipped
				for _, e := range doc.Targets {
					ip, err := progkit.StartInterp(e.Bin, e.Cfg.String())
					if err != nil {
						setupErr += "VERIF-INFRA " + err.Error() + "\n"
						continue
					}
					targets = append(targets, &target{cfg: e.Cfg, ip: ip, bin: e.Bin})
				}
				return
			}
		}
		tc := progkit.FromEnv()
		cfgs := configs()
		res := make([]*target, len(cfgs))
		errs := make([]string, len(cfgs))
		var wg sync.WaitGroup
		sem := make(chan struct{}, 4)
		for i, cfg := range cfgs {
			wg.Add(1)
			go func(i int, cfg progkit.Config) {
				defer wg.Done()
				sem <- struct{}{}
				defer func() { <-sem }()
				bin, r := tc.BuildInterp("/verif/programs/evalnum/cases", cfg)
				if !r.OK {
					if r.ToolchainSkip {
						errs[i] = "SKIP"
						return
					}
					errs[i] = fmt.Sprintf("build %v failed: %s", cfg, tail(r.Output, 1500))
					return
				}
				ip, err := progkit.StartInterp(bin, cfg.String())
				if err != nil {
					errs[i] = err.Error()
					return
				}
				res[i] = &target{cfg: cfg, ip: ip, bin: bin}
			}(i, cfg)
		}
		wg.Wait()
		for i, e := range errs {
			switch {
			case e == "SKIP":
				skipped = append(skipped, cfgs[i].String())
			case e != "":
				setupErr += e + "\n"
			default:
				targets = append(targets, res[i])
			}
		}
	})
	if setupErr != "" {
		// llgo cannot compile a valid, import-free Go package that gc accepts: the property's
		// "executable yields the value" fails before it starts
		t.Fatalf("[C02:build] %s", setupErr)
	}
	if len(targets) == 0 {
		t.Fatalf("VERIF-INFRA no configuration could be built (all skipped: %v)", skipped)
	}
}

func tail(s string, n int) string {
	if len(s) > n {
		return s[len(s)-n:]
	}
	return s
}

type tuple struct {
	ID             int
	A0, A1, B0, B1 uint64
}

type result struct {
	R0, R1 uint64
	Panic  bool
}

func encodeBatch(ts []tuple) []byte {
	b := make([]byte, 9, 9+40*len(ts))
	b[0] = 0
	binary.LittleEndian.PutUint64(b[1:], uint64(len(ts)))
	for _, t := range ts {
		var w [40]byte
		binary.LittleEndian.PutUint64(w[0:], uint64(t.ID))
		binary.LittleEndian.PutUint64(w[8:], t.A0)
		binary.LittleEndian.PutUint64(w[16:], t.A1)
		binary.LittleEndian.PutUint64(w[24:], t.B0)
		binary.LittleEndian.PutUint64(w[32:], t.B1)
		b = append(b, w[:]...)
	}
	return b
}

func decodeBatch(b []byte, n int) ([]result, bool) {
	if len(b) != 17*n {
		return nil, false
	}
	rs := make([]result, n)
	for i := range rs {
		rs[i] = result{binary.LittleEndian.Uint64(b[17*i:]), binary.LittleEndian.Uint64(b[17*i+8:]), b[17*i+16] != 0}
	}
	return rs, true
}

func isNaNWord(t string, w uint64) bool {
	switch t {
	case "float32":
		return math.IsNaN(float64(math.Float32frombits(uint32(w))))
	case "float64":
		return math.IsNaN(math.Float64frombits(w))
	}
	return false
}

// same reports whether two results agree; NaN equals any NaN (payload and sign of NaN are not specified).
func same(fi cases.FuncInfo, a, b result) bool {
	if a.Panic != b.Panic {
		return false
	}
	if a.Panic {
		return true
	}
	if fi.Kind == "cbin" && fi.R == "complex64" && (strings.Contains(fi.Name, "*") || strings.Contains(fi.Name, "/")) {
		// The spec does not fix the intermediate precision of complex multiplication and division:
		// gc evaluates complex64 products in float64 and narrows, single-precision evaluation is equally
		// valid. Compare with a stated tolerance: each component within 8 float32 ulps of the larger
		// component magnitude (absolute floor 2^-140), same NaN-ness, and the same infinities.
		ar, ai := float64(math.Float32frombits(uint32(a.R0))), float64(math.Float32frombits(uint32(a.R1)))
		br, bi := float64(math.Float32frombits(uint32(b.R0))), float64(math.Float32frombits(uint32(b.R1)))
		if math.IsNaN(ar) || math.IsNaN(ai) || math.IsNaN(br) || math.IsNaN(bi) || math.IsInf(ar, 0) || math.IsInf(ai, 0) || math.IsInf(br, 0) || math.IsInf(bi, 0) {
			// non-finite results of complex64 * and / depend on the evaluation strategy as well
			// (overflow in single vs double precision): only require that both are non-finite somewhere
			nf := func(x, y float64) bool { return math.IsNaN(x) || math.IsNaN(y) || math.IsInf(x, 0) || math.IsInf(y, 0) }
			return nf(ar, ai) && nf(br, bi) || (ar == br && ai == bi)
		}
		scale := math.Max(math.Max(math.Abs(ar), math.Abs(ai)), math.Max(math.Abs(br), math.Abs(bi)))
		tol := math.Max(scale*math.Ldexp(1, -20), math.Ldexp(1, -140))
		return math.Abs(ar-br) <= tol && math.Abs(ai-bi) <= tol
	}
	part := fi.R
	switch fi.R {
	case "complex64":
		part = "float32"
	case "complex128":
		part = "float64"
	}
	eq := func(x, y uint64) bool { return x == y || (isNaNWord(part, x) && isNaNWord(part, y)) }
	return eq(a.R0, b.R0) && eq(a.R1, b.R1)
}

func describe(tp tuple) string {
	fi := cases.Table[tp.ID]
	f := func(t string, w0, w1 uint64) string {
		switch {
		case t == "":
			return ""
		case isInt(t):
			if isSigned(t) {
				sh := uint(64 - width[t])
				return fmt.Sprintf("%s(%d)", t, int64(w0<<sh)>>sh)
			}
			sh := uint(64 - width[t])
			return fmt.Sprintf("%s(%d)", t, w0<<sh>>sh)
		case t == "float32":
			return fmt.Sprintf("float32(%v /*%#x*/)", math.Float32frombits(uint32(w0)), uint32(w0))
		case t == "float64":
			return fmt.Sprintf("float64(%v /*%#x*/)", math.Float64frombits(w0), w0)
		case t == "bool":
			return fmt.Sprint(w0&1 != 0)
		case t == "complex64":
			return fmt.Sprintf("complex64(%v,%v)", math.Float32frombits(uint32(w0)), math.Float32frombits(uint32(w1)))
		default:
			return fmt.Sprintf("complex128(%v,%v)", math.Float64frombits(w0), math.Float64frombits(w1))
		}
	}
	return fmt.Sprintf("#%d [%s] x=%s y=%s", tp.ID, fi.Name, f(fi.A, tp.A0, tp.A1), f(fi.B, tp.B0, tp.B1))
}

func showResult(fi cases.FuncInfo, r result) string {
	if r.Panic {
		return "panic"
	}
	return describeWord(fi.R, r.R0, r.R1)
}

func describeWord(t string, w0, w1 uint64) string {
	switch {
	case isInt(t) && isSigned(t):
		sh := uint(64 - width[t])
		return fmt.Sprintf("%d", int64(w0<<sh)>>sh)
	case isInt(t):
		return fmt.Sprintf("%d", w0)
	case t == "bool":
		return fmt.Sprint(w0 != 0)
	case t == "float32":
		return fmt.Sprintf("%v(%#x)", math.Float32frombits(uint32(w0)), uint32(w0))
	case t == "float64":
		return fmt.Sprintf("%v(%#x)", math.Float64frombits(w0), w0)
	case t == "complex64":
		return fmt.Sprintf("(%v,%v)", math.Float32frombits(uint32(w0)), math.Float32frombits(uint32(w1)))
	}
	return fmt.Sprintf("(%v,%v)", math.Float64frombits(w0), math.Float64frombits(w1))
}

// key of a disagreement: the operator family, so that one root cause is one finding
func keyOf(tp tuple, ref result) string {
	fi := cases.Table[tp.ID]
	switch fi.Kind {
	case "shift", "cshift_r", "cshift_l":
		return "C02:shift"
	case "cbin":
		if strings.Contains(fi.Name, "/") {
			return "C02:complex-division"
		}
	}
	return "C02:" + fi.Kind
}

// evalAll evaluates tuples natively and on every target; returns the first disagreement.
func evalAll(ts []tuple) (bad int, tgt *target, ref, got result, err error) {
	req := encodeBatch(ts)
	refs, ok := decodeBatch(cases.Handle(req), len(ts))
	if !ok {
		return -1, nil, result{}, result{}, fmt.Errorf("VERIF-INFRA native evaluation returned a malformed frame")
	}
	for _, tg := range targets {
		resp, e := tg.ip.Call(req, 60*time.Second)
		if e != nil {
			// the interpreter process died on this batch: restart it for later cases
			nip, _ := progkit.StartInterp(tg.bin, tg.cfg.String())
			tg.ip = nip
			return 0, tg, refs[0], result{}, e
		}
		gots, ok := decodeBatch(resp, len(ts))
		if !ok {
			return 0, tg, refs[0], result{}, fmt.Errorf("malformed response frame (%d bytes for %d tuples)", len(resp), len(ts))
		}
		for i := range ts {
			if !same(cases.Table[ts[i].ID], refs[i], gots[i]) {
				return i, tg, refs[i], gots[i], nil
			}
		}
	}
	return -1, nil, result{}, result{}, nil
}

// ---------- operand generators ----------

func genInt(t *rapid.T, w int, label string) (v uint64, boundary bool) {
	switch rapid.IntRange(0, 5).Draw(t, label+"class") {
	case 0:
		return uint64(int64(rapid.IntRange(-3, 3).Draw(t, label+"small"))), true
	case 1, 2:
		k := rapid.IntRange(0, 63).Draw(t, label+"k")
		d := rapid.IntRange(-1, 1).Draw(t, label+"d")
		v = uint64(1)<<uint(k) + uint64(int64(d))
		if rapid.Bool().Draw(t, label+"neg") {
			v = -v
		}
		return v, true
	case 3:
		// extremes of the width ± small
		d := uint64(int64(rapid.IntRange(-2, 2).Draw(t, label+"d")))
		switch rapid.IntRange(0, 3).Draw(t, label+"ext") {
		case 0:
			return uint64(1)<<uint(w-1) + d, true // signed min / unsigned mid
		case 1:
			return uint64(1)<<uint(w-1) - 1 + d, true // signed max
		case 2:
			return ^uint64(0) + d, true // unsigned max / -1
		}
		return d, true
	}
	return rapid.Uint64().Draw(t, label+"rand"), false
}

func genShiftCount(t *rapid.T, opW int, label string) uint64 {
	switch rapid.IntRange(0, 4).Draw(t, label+"class") {
	case 0:
		return uint64(rapid.SampledFrom([]int{0, 1, 2, opW - 1, opW, opW + 1, 7, 8, 9, 15, 16, 17, 31, 32, 33, 63, 64, 65, 127, 128, 255, 256, 257}).Draw(t, label+"near"))
	case 1:
		k := rapid.IntRange(0, 63).Draw(t, label+"k")
		return uint64(1)<<uint(k) + uint64(int64(rapid.IntRange(-1, 1).Draw(t, label+"d")))
	case 2:
		return uint64(int64(rapid.SampledFrom([]int64{-1, -2, -128, -32768, math.MinInt32, math.MinInt64, math.MaxInt64, math.MaxInt32, math.MaxInt16, math.MaxInt8}).Draw(t, label+"ext")))
	case 3:
		return uint64(rapid.IntRange(0, 70).Draw(t, label+"lin"))
	}
	return rapid.Uint64().Draw(t, label+"rand")
}

var f64Specials = []float64{0, math.Copysign(0, -1), 1, -1, 0.5, 1.5, 2.5, -2.5, math.SmallestNonzeroFloat64, -math.SmallestNonzeroFloat64, math.MaxFloat64, -math.MaxFloat64,
	math.Inf(1), math.Inf(-1), math.NaN(), math.MaxFloat32, math.SmallestNonzeroFloat32, 1 << 23, 1<<23 + 1, 1 << 24, 1<<24 + 1, 1<<24 - 1, 1 << 52, 1<<52 + 1, 1 << 53, 1<<53 + 1, 1<<53 - 1,
	1 << 31, 1<<31 - 1, -(1 << 31), 1 << 32, 1<<32 - 1, 1 << 63, -(1 << 63), 1 << 62, 127, 128, -128, -129, 255, 256, 32767, 32768, -32768, 65535, 65536,
	1.0000000596046448 /* halfway float32 */, 16777217, 2147483647.5, 0.1, 1e-320, 1e308, 3.4028235677973366e+38 /* rounds to +Inf in float32 */}

func genFloat(t *rapid.T, bits int, label string) uint64 {
	var f float64
	switch rapid.IntRange(0, 3).Draw(t, label+"class") {
	case 0, 1:
		f = rapid.SampledFrom(f64Specials).Draw(t, label+"special")
		if rapid.IntRange(0, 3).Draw(t, label+"nudge") == 0 {
			f = math.Nextafter(f, math.Inf(rapid.SampledFrom([]int{-1, 1}).Draw(t, label+"dir")))
		}
	case 2:
		i, _ := genInt(t, 64, label+"asint")
		f = float64(int64(i))
	default:
		if bits == 32 {
			return uint64(rapid.Uint32().Draw(t, label+"bits32"))
		}
		return rapid.Uint64().Draw(t, label+"bits64")
	}
	if bits == 32 {
		return uint64(math.Float32bits(float32(f)))
	}
	return math.Float64bits(f)
}

// inRangeForInt reports whether float word w (of float type ft) converts to integer type it with a
// value Go defines (finite, and the truncated value representable).
func inRangeForInt(ft string, w uint64, it string) bool {
	var f float64
	if ft == "float32" {
		f = float64(math.Float32frombits(uint32(w)))
	} else {
		f = math.Float64frombits(w)
	}
	if math.IsNaN(f) || math.IsInf(f, 0) {
		return false
	}
	f = math.Trunc(f)
	wd := width[it]
	if isSigned(it) {
		return f >= -math.Ldexp(1, wd-1) && f < math.Ldexp(1, wd-1)
	}
	return f >= 0 && f < math.Ldexp(1, wd)
}

func genOperand(t *rapid.T, typ string, label string) (w0, w1 uint64, boundary bool) {
	switch {
	case typ == "":
		return 0, 0, false
	case typ == "bool":
		return uint64(rapid.IntRange(0, 1).Draw(t, label+"b")), 0, true
	case isInt(typ):
		v, b := genInt(t, width[typ], label)
		return v, 0, b
	case typ == "float32" || typ == "float64":
		return genFloat(t, width[typ], label), 0, true
	case typ == "complex64":
		return genFloat(t, 32, label+"re"), genFloat(t, 32, label+"im"), true
	default:
		return genFloat(t, 64, label+"re"), genFloat(t, 64, label+"im"), true
	}
}

func drawTuple(t *rapid.T, c *vstat.Collector) (tuple, bool) {
	id := rapid.IntRange(0, len(cases.Table)-1).Draw(t, "func")
	fi := cases.Table[id]
	tp := tuple{ID: id}
	var ba, bb bool
	tp.A0, tp.A1, ba = genOperand(t, fi.A, "x")
	if fi.Kind == "shift" {
		tp.B0 = genShiftCount(t, width[fi.A], "count")
		bb = true
	} else if fi.Kind == "cshift_l" {
		tp.A0 = genShiftCount(t, width[fi.R], "count")
		ba = true
	} else {
		tp.B0, tp.B1, bb = genOperand(t, fi.B, "y")
	}
	if fi.Kind == "conv_fi" && !inRangeForInt(fi.A, tp.A0, fi.R) {
		// out-of-range float→integer conversion is implementation-defined: replace by an in-range value
		c.Exclude("float-to-int-out-of-range")
		v, _ := genInt(t, width[fi.R], "inrange")
		sh := uint(64 - width[fi.R])
		var f float64
		if isSigned(fi.R) {
			f = float64(int64(v<<sh) >> sh)
		} else {
			f = float64(v << sh >> sh)
		}
		if fi.A == "float32" {
			tp.A0 = uint64(math.Float32bits(float32(f)))
		} else {
			tp.A0 = math.Float64bits(f)
		}
		if !inRangeForInt(fi.A, tp.A0, fi.R) {
			tp.A0 = 0
		}
	}
	return tp, ba || bb
}

func TestC02Random(t *testing.T) {
	c := vstat.For("C02")
	defer c.Flush()
	setup(t)
	for _, s := range skipped {
		c.Skip("toolchain_llvm14_crash:" + s)
	}
	rapid.Check(t, func(t *rapid.T) {
		tp, boundary := drawTuple(t, c)
		fi := cases.Table[tp.ID]
		c.Case(vstat.Hash("tuple", tp.ID, tp.A0, tp.A1, tp.B0, tp.B1), boundary, "random", "kind_"+fi.Kind)
		c.Sample(describe(tp))
		bad, tg, ref, got, err := evalAll([]tuple{tp})
		if err != nil {
			if strings.Contains(err.Error(), "VERIF-INFRA") {
				t.Fatalf("%v", err)
			}
			key := keyOf(tp, ref) + ":crash"
			if c.IsKnown(key) {
				c.KnownHit(key)
				return
			}
			t.Fatalf("[%s] %s: configuration %s: %v", key, describe(tp), tg.cfg, err)
		}
		if bad >= 0 {
			key := keyOf(tp, ref)
			if c.IsKnown(key) {
				c.KnownHit(key)
				return
			}
			t.Fatalf("[%s] %s: Go gives %s, llgo %s gives %s", key, describe(tp), showResult(fi, ref), tg.cfg, showResult(fi, got))
		}
	})
}

// ---------- exhaustive grids over the 8-bit (and 16-bit unary) operand spaces ----------

func gridReq(id int, alo, ahi uint64, bs []uint64) []byte {
	b := make([]byte, 33, 33+8*len(bs))
	b[0] = 1
	binary.LittleEndian.PutUint64(b[1:], uint64(id))
	binary.LittleEndian.PutUint64(b[9:], alo)
	binary.LittleEndian.PutUint64(b[17:], ahi)
	binary.LittleEndian.PutUint64(b[25:], uint64(len(bs)))
	for _, v := range bs {
		var w [8]byte
		binary.LittleEndian.PutUint64(w[:], v)
		b = append(b, w[:]...)
	}
	return b
}

func countList(opW int, ct string) []uint64 {
	set := map[uint64]bool{}
	add := func(v uint64) { set[v] = true }
	for _, v := range []int{0, 1, 2, 3, opW - 1, opW, opW + 1, 7, 8, 9, 15, 16, 17, 31, 32, 33, 63, 64, 65, 127, 128, 129, 255, 256, 257, 511, 512, 65535, 65536, 65537} {
		add(uint64(v))
	}
	for k := 0; k < 64; k++ {
		add(uint64(1) << uint(k))
		add(uint64(1)<<uint(k) - 1)
	}
	add(^uint64(0))
	add(uint64(1) << 63)
	var l []uint64
	for v := range set {
		l = append(l, v)
	}
	return l
}

func TestC02Exhaustive8(t *testing.T) {
	c := vstat.For("C02")
	defer c.Flush()
	setup(t)
	shard, _ := strconv.Atoi(os.Getenv("VERIF_SHARD"))
	nshards, _ := strconv.Atoi(os.Getenv("VERIF_NSHARDS"))
	if nshards <= 0 {
		nshards = 1
	}
	all256 := make([]uint64, 256)
	for i := range all256 {
		all256[i] = uint64(i)
	}
	thorough := os.Getenv("VERIF_TIER") == "thorough"
	ngrids := 0
	for id, fi := range cases.Table {
		if id%nshards != shard {
			continue
		}
		wa, wb := width[fi.A], width[fi.B]
		var ahi uint64
		var bs []uint64
		switch {
		case wa == 8 && fi.B == "":
			ahi, bs = 256, []uint64{0}
		case wa == 8 && wb == 8:
			ahi, bs = 256, all256
		case wa == 8 && (fi.Kind == "shift"):
			ahi, bs = 256, countList(8, fi.B)
		case wa == 16 && fi.B == "" && isInt(fi.A):
			ahi, bs = 65536, []uint64{0}
		case wa == 16 && fi.Kind == "shift" && thorough:
			ahi, bs = 65536, countList(16, fi.B)
		case wa == 16 && wb == 16 && thorough && (strings.Contains(fi.Name, "/") || strings.Contains(fi.Name, "%")):
			ahi, bs = 65536, countList(16, fi.B)
		case fi.Kind == "bbin" || fi.Kind == "bun":
			ahi, bs = 2, []uint64{0, 1}
		default:
			continue
		}
		if fi.Kind == "cshift_l" { // the run-time operand is the count: enumerate it over the listed counts instead
			continue
		}
		ngrids++
		req := gridReq(id, 0, ahi, bs)
		ref := cases.Handle(req)
		n := int64(ahi) * int64(len(bs))
		c.Bulk(n, n, "exhaustive_grid_points")
		c.Class("exhaustive_functions")
		for _, tg := range targets {
			got, err := tg.ip.Call(req, 300*time.Second)
			if err != nil {
				t.Fatalf("[C02:crash] grid over %s on %s: %v", fi.Name, tg.cfg, err)
			}
			if string(got) == string(ref) {
				continue
			}
			// locate a minimal disagreeing operand pair by evaluating the grid point by point
			tp, r, g := locate(id, ahi, bs, tg)
			key := keyOf(tp, r)
			msg := fmt.Sprintf("[%s] %s: Go gives %s, llgo %s gives %s", key, describe(tp), showResult(fi, r), tg.cfg, showResult(fi, g))
			if c.IsKnown(key) {
				c.KnownHit(key)
				continue
			}
			if c.Report(key, msg, map[string]any{"tuple": tp, "config": tg.cfg.String(), "go": showResult(fi, r), "llgo": showResult(fi, g), "func": fi.Name}) {
				t.Errorf("%s", msg)
			}
		}
	}
	c.SampleNow(fmt.Sprintf("exhaustive: %d functions with 8-bit (or 16-bit unary) operands enumerated completely in shard %d/%d", ngrids, shard, nshards))
}

func locate(id int, ahi uint64, bs []uint64, tg *target) (tuple, result, result) {
	var batch []tuple
	for a := uint64(0); a < ahi; a++ {
		for _, b := range bs {
			batch = append(batch, tuple{ID: id, A0: a, B0: b})
			if len(batch) == 4096 {
				if tp, r, g, ok := firstBad(batch, tg); ok {
					return tp, r, g
				}
				batch = batch[:0]
			}
		}
	}
	tp, r, g, _ := firstBad(batch, tg)
	return tp, r, g
}

func firstBad(batch []tuple, tg *target) (tuple, result, result, bool) {
	if len(batch) == 0 {
		return tuple{}, result{}, result{}, false
	}
	req := encodeBatch(batch)
	refs, _ := decodeBatch(cases.Handle(req), len(batch))
	resp, err := tg.ip.Call(req, 120*time.Second)
	if err != nil {
		return batch[0], refs[0], result{}, true
	}
	gots, ok := decodeBatch(resp, len(batch))
	if !ok {
		return batch[0], refs[0], result{}, true
	}
	for i := range batch {
		if !same(cases.Table[batch[i].ID], refs[i], gots[i]) {
			return batch[i], refs[i], gots[i], true
		}
	}
	return tuple{}, result{}, result{}, false
}

// TestReplay re-evaluates one saved tuple (VERIF_REPLAY=<json written by Report>).
func TestReplay(t *testing.T) {
	p := os.Getenv("VERIF_REPLAY")
	if p == "" {
		t.Skip("no VERIF_REPLAY")
	}
	b, err := os.ReadFile(p)
	if err != nil {
		t.Fatal(err)
	}
	var doc struct {
		Case struct {
			Tuple tuple `json:"tuple"`
		} `json:"case"`
	}
	if err := json.Unmarshal(b, &doc); err != nil {
		t.Fatal(err)
	}
	setup(t)
	tp := doc.Case.Tuple
	bad, tg, ref, got, err := evalAll([]tuple{tp})
	if err != nil {
		t.Fatalf("%s: %v", describe(tp), err)
	}
	if bad >= 0 {
		fi := cases.Table[tp.ID]
		t.Fatalf("%s: Go gives %s, llgo %s gives %s", describe(tp), showResult(fi, ref), tg.cfg, showResult(fi, got))
	}
}
