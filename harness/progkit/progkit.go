// Package progkit builds Go programs with the llgo under test (and with gc as reference), runs them
// with limits, and drives persistent "interpreter" programs over a framed stdin/stdout protocol.
package progkit

import (
	"bytes"
	"encoding/binary"
	"errors"
	"fmt"
	"io"
	"os"
	"os/exec"
	"path/filepath"
	"strings"
	"sync"
	"syscall"
	"time"
)

type Toolchain struct {
	Llgo  string // llgo binary built from the working tree
	Repo  string // LLGO_ROOT
	Shim  string
	Work  string // scratch root of this test process
	Cache string // llgo build cache (XDG_CACHE_HOME) shared by the builds of this process
}

var (
	tcOnce sync.Once
	tc     *Toolchain
)

// FromEnv returns the toolchain described by the environment the driver sets (VERIF_LLGO, VERIF_REPO,
// VERIF_SHIM, VERIF_WORK).
func FromEnv() *Toolchain {
	tcOnce.Do(func() {
		w := os.Getenv("VERIF_WORK")
		if w == "" {
			w, _ = os.MkdirTemp("", "verif-work-")
		}
		tc = &Toolchain{Llgo: os.Getenv("VERIF_LLGO"), Repo: envOr("VERIF_REPO", "/repo"), Shim: envOr("VERIF_SHIM", "/verif/.build/shim"), Work: w}
		tc.Cache = envOr("VERIF_LLGO_CACHE", filepath.Join(w, "llgo-cache"))
		os.MkdirAll(tc.Cache, 0o755)
	})
	return tc
}

func envOr(k, d string) string {
	if v := os.Getenv(k); v != "" {
		return v
	}
	return d
}

// Config is one build configuration of llgo.
type Config struct {
	Opt  string // "O0", "O2", "Oz", …
	NoGC bool
	Tags []string
	Env  []string
	XDG  string // private cache dir; "" = the process-wide one
}

func (c Config) String() string {
	s := c.Opt
	if c.NoGC {
		s += "+nogc"
	}
	if len(c.Tags) > 0 {
		s += "+" + strings.Join(c.Tags, ",")
	}
	return s
}

type BuildResult struct {
	OK            bool
	Output        string
	ToolchainSkip bool // llgo died inside libLLVM-14 (a limitation of this sandbox's LLVM, not of llgo)
	Timeout       bool
	Dur           time.Duration
}

var tmpSeq struct {
	sync.Mutex
	n int
}

func (t *Toolchain) scratch(kind string) string {
	tmpSeq.Lock()
	tmpSeq.n++
	n := tmpSeq.n
	tmpSeq.Unlock()
	d := filepath.Join(t.Work, fmt.Sprintf("%s%d", kind, n))
	os.MkdirAll(d, 0o755)
	return d
}

// BuildLlgo compiles the main package in dir (a module root or a package dir inside a module) to out.
func (t *Toolchain) BuildLlgo(dir, out string, cfg Config, extraArgs ...string) BuildResult {
	if t.Llgo == "" {
		return BuildResult{Output: "VERIF-INFRA: VERIF_LLGO not set"}
	}
	tmp := t.scratch("tmp")
	defer os.RemoveAll(tmp)
	args := []string{"build", "-" + cfg.Opt}
	tags := append([]string{}, cfg.Tags...)
	if cfg.NoGC {
		tags = append(tags, "nogc")
	}
	if len(tags) > 0 {
		args = append(args, "-tags", strings.Join(tags, ","))
	}
	args = append(args, extraArgs...)
	args = append(args, "-o", out, ".")
	xdg := cfg.XDG
	if xdg == "" {
		xdg = t.Cache
	}
	env := append(os.Environ(), "LLGO_ROOT="+t.Repo, "XDG_CACHE_HOME="+xdg, "TMPDIR="+tmp)
	env = append(env, cfg.Env...)
	start := time.Now()
	outb, code, to := RunCmd(dir, env, nil, 300*time.Second, t.Llgo, args...)
	r := BuildResult{OK: code == 0 && !to, Output: string(outb), Timeout: to, Dur: time.Since(start)}
	if !r.OK && (strings.Contains(r.Output, "_Cfunc_LLVMRunPasses") || strings.Contains(r.Output, "_Cfunc_LLVMTargetMachineEmitToMemoryBuffer") ||
		strings.Contains(r.Output, "LLVM ERROR") || strings.Contains(r.Output, "signal arrived during cgo execution")) {
		r.ToolchainSkip = true
	}
	return r
}

// BuildGc compiles the same package with the reference toolchain (same GOROOT).
func (t *Toolchain) BuildGc(dir, out string, tags ...string) BuildResult {
	args := []string{"build", "-o", out}
	if len(tags) > 0 {
		args = append(args, "-tags", strings.Join(tags, ","))
	}
	args = append(args, ".")
	start := time.Now()
	outb, code, to := RunCmd(dir, os.Environ(), nil, 180*time.Second, "go", args...)
	return BuildResult{OK: code == 0 && !to, Output: string(outb), Timeout: to, Dur: time.Since(start)}
}

// RunCmd runs a command with a hard timeout, killing the whole process group on expiry.
func RunCmd(dir string, env []string, stdin []byte, timeout time.Duration, name string, args ...string) (out []byte, code int, timedOut bool) {
	cmd := exec.Command(name, args...)
	cmd.Dir = dir
	cmd.Env = env
	if stdin != nil {
		cmd.Stdin = bytes.NewReader(stdin)
	}
	var buf bytes.Buffer
	cmd.Stdout = &buf
	cmd.Stderr = &buf
	cmd.SysProcAttr = &syscall.SysProcAttr{Setpgid: true}
	if err := cmd.Start(); err != nil {
		return []byte(err.Error()), 127, false
	}
	done := make(chan error, 1)
	go func() { done <- cmd.Wait() }()
	var err error
	select {
	case err = <-done:
	case <-time.After(timeout):
		timedOut = true
		syscall.Kill(-cmd.Process.Pid, syscall.SIGKILL)
		err = <-done
	}
	if err != nil {
		code = 1
		var ee *exec.ExitError
		if errors.As(err, &ee) {
			code = ee.ExitCode()
			if ws, ok := ee.Sys().(syscall.WaitStatus); ok && ws.Signaled() {
				code = 128 + int(ws.Signal())
			}
		}
	}
	return buf.Bytes(), code, timedOut
}

// RunResult of a finished program.
type RunResult struct {
	Stdout, Stderr string
	Code           int
	Timeout        bool
}

func RunProg(bin string, stdin []byte, timeout time.Duration, env ...string) RunResult {
	cmd := exec.Command(bin)
	cmd.Env = append(os.Environ(), env...)
	if stdin != nil {
		cmd.Stdin = bytes.NewReader(stdin)
	}
	var so, se bytes.Buffer
	cmd.Stdout, cmd.Stderr = &so, &se
	cmd.SysProcAttr = &syscall.SysProcAttr{Setpgid: true}
	if err := cmd.Start(); err != nil {
		return RunResult{Stderr: err.Error(), Code: 127}
	}
	done := make(chan error, 1)
	go func() { done <- cmd.Wait() }()
	var err error
	r := RunResult{}
	select {
	case err = <-done:
	case <-time.After(timeout):
		r.Timeout = true
		syscall.Kill(-cmd.Process.Pid, syscall.SIGKILL)
		err = <-done
	}
	if err != nil {
		r.Code = 1
		var ee *exec.ExitError
		if errors.As(err, &ee) {
			r.Code = ee.ExitCode()
			if ws, ok := ee.Sys().(syscall.WaitStatus); ok && ws.Signaled() {
				r.Code = 128 + int(ws.Signal())
			}
		}
	}
	r.Stdout, r.Stderr = so.String(), se.String()
	return r
}

// WriteModule writes files (relative path -> content) under dir, creating directories.
func WriteModule(dir string, files map[string]string) error {
	for rel, content := range files {
		p := filepath.Join(dir, rel)
		if err := os.MkdirAll(filepath.Dir(p), 0o755); err != nil {
			return err
		}
		if err := os.WriteFile(p, []byte(content), 0o644); err != nil {
			return err
		}
	}
	return nil
}

// ---------------------------------------------------------------------------------------------
// Interpreter programs: a pure, import-free package `cases` with `func Handle(req []byte) []byte`
// plus the fixed main below, exchanging length-prefixed frames over fd 0/1 through C.read/C.write.

const InterpMain = `package main

import (
	"unsafe"

	"prog/cases"
)

//go:linkname cread C.read
func cread(fd int32, buf unsafe.Pointer, n uintptr) int

//go:linkname cwrite C.write
func cwrite(fd int32, buf unsafe.Pointer, n uintptr) int

func readFull(p []byte) bool {
	for len(p) > 0 {
		n := cread(0, unsafe.Pointer(&p[0]), uintptr(len(p)))
		if n <= 0 {
			return false
		}
		p = p[n:]
	}
	return true
}

func writeFull(p []byte) {
	for len(p) > 0 {
		n := cwrite(1, unsafe.Pointer(&p[0]), uintptr(len(p)))
		if n <= 0 {
			return
		}
		p = p[n:]
	}
}

func main() {
	var hdr [4]byte
	for {
		if !readFull(hdr[:]) {
			return
		}
		n := int(hdr[0]) | int(hdr[1])<<8 | int(hdr[2])<<16 | int(hdr[3])<<24
		req := make([]byte, n)
		if n > 0 && !readFull(req) {
			return
		}
		resp := cases.Handle(req)
		m := len(resp)
		out := make([]byte, 4+m)
		out[0], out[1], out[2], out[3] = byte(m), byte(m>>8), byte(m>>16), byte(m>>24)
		copy(out[4:], resp)
		writeFull(out)
	}
}
`

// BuildInterp copies the cases package from casesDir into a scratch module and builds it with llgo.
func (t *Toolchain) BuildInterp(casesDir string, cfg Config) (bin string, res BuildResult) {
	dir := t.scratch("interp")
	files := map[string]string{"go.mod": "module prog\n\ngo 1.24\n", "main.go": InterpMain}
	ents, err := os.ReadDir(casesDir)
	if err != nil {
		return "", BuildResult{Output: "VERIF-INFRA: " + err.Error()}
	}
	for _, e := range ents {
		if strings.HasSuffix(e.Name(), ".go") && !strings.HasSuffix(e.Name(), "_test.go") {
			b, _ := os.ReadFile(filepath.Join(casesDir, e.Name()))
			files["cases/"+e.Name()] = string(b)
		}
	}
	if err := WriteModule(dir, files); err != nil {
		return "", BuildResult{Output: "VERIF-INFRA: " + err.Error()}
	}
	bin = filepath.Join(dir, "interp-"+cfg.String())
	res = t.BuildLlgo(dir, bin, cfg)
	return
}

// Interp is a running interpreter process.
type Interp struct {
	Name string
	cmd  *exec.Cmd
	in   io.WriteCloser
	out  io.ReadCloser
	errb bytes.Buffer
	dead error
}

func StartInterp(bin, name string, env ...string) (*Interp, error) {
	cmd := exec.Command(bin)
	cmd.Env = append(os.Environ(), env...)
	in, _ := cmd.StdinPipe()
	out, _ := cmd.StdoutPipe()
	ip := &Interp{Name: name, cmd: cmd, in: in, out: out}
	cmd.Stderr = &ip.errb
	if err := cmd.Start(); err != nil {
		return nil, err
	}
	return ip, nil
}

// Call sends one request frame and reads one response frame. A dead process yields an error
// describing how it died (exit status / signal and the tail of stderr).
func (ip *Interp) Call(req []byte, timeout time.Duration) ([]byte, error) {
	if ip.dead != nil {
		return nil, ip.dead
	}
	type res struct {
		b   []byte
		err error
	}
	ch := make(chan res, 1)
	go func() {
		var hdr [4]byte
		binary.LittleEndian.PutUint32(hdr[:], uint32(len(req)))
		if _, err := ip.in.Write(append(hdr[:], req...)); err != nil {
			ch <- res{nil, err}
			return
		}
		if _, err := io.ReadFull(ip.out, hdr[:]); err != nil {
			ch <- res{nil, err}
			return
		}
		n := binary.LittleEndian.Uint32(hdr[:])
		b := make([]byte, n)
		if _, err := io.ReadFull(ip.out, b); err != nil {
			ch <- res{nil, err}
			return
		}
		ch <- res{b, nil}
	}()
	select {
	case r := <-ch:
		if r.err != nil {
			ip.in.Close()
			werr := ip.cmd.Wait()
			ip.dead = fmt.Errorf("interpreter %s died: %v (%v); stderr: %s", ip.Name, werr, r.err, tailStr(ip.errb.String(), 600))
			return nil, ip.dead
		}
		return r.b, nil
	case <-time.After(timeout):
		ip.cmd.Process.Kill()
		ip.cmd.Wait()
		ip.dead = fmt.Errorf("interpreter %s: no answer within %v (killed); stderr: %s", ip.Name, timeout, tailStr(ip.errb.String(), 600))
		return nil, ip.dead
	}
}

func (ip *Interp) Dead() bool { return ip.dead != nil }

func (ip *Interp) Close() {
	if ip.dead == nil {
		ip.in.Close()
		done := make(chan struct{})
		go func() { ip.cmd.Wait(); close(done) }()
		select {
		case <-done:
		case <-time.After(5 * time.Second):
			ip.cmd.Process.Kill()
			<-done
		}
		ip.dead = errors.New("closed")
	}
}

func tailStr(s string, n int) string {
	if len(s) > n {
		return "…" + s[len(s)-n:]
	}
	return s
}

// ---------------------------------------------------------------------------------------------
// Whole-program differential runs (generated programs).

// Outcome of building and running one program with one toolchain configuration.
type Outcome struct {
	BuildOK  bool
	BuildOut string
	Skip     bool // llgo died inside libLLVM-14: not a result
	Out      string
	Code     int
	Timeout  bool
}

// RunGc builds the module in dir with the reference toolchain and runs it.
func (t *Toolchain) RunGc(dir string, stdin []byte, env ...string) Outcome {
	bin := filepath.Join(t.scratch("gcbin"), "prog")
	defer os.RemoveAll(filepath.Dir(bin))
	b := t.BuildGc(dir, bin)
	if !b.OK {
		return Outcome{BuildOut: b.Output}
	}
	return runOutcome(bin, stdin, env)
}

// RunLlgo builds the module in dir with the llgo under test and runs it.
func (t *Toolchain) RunLlgo(dir string, cfg Config, stdin []byte, env ...string) Outcome {
	bin := filepath.Join(t.scratch("llbin"), "prog")
	defer os.RemoveAll(filepath.Dir(bin))
	b := t.BuildLlgo(dir, bin, cfg)
	if !b.OK {
		if b.Timeout {
			// a build that hits the time budget (loaded machine) is inconclusive, never a violation
			return Outcome{BuildOut: "build timed out\n" + b.Output, Skip: true}
		}
		return Outcome{BuildOut: b.Output, Skip: b.ToolchainSkip}
	}
	return runOutcome(bin, stdin, env)
}

func runOutcome(bin string, stdin []byte, env []string) Outcome {
	cmd := exec.Command(bin)
	cmd.Env = append(os.Environ(), env...)
	if stdin != nil {
		cmd.Stdin = bytes.NewReader(stdin)
	}
	var buf bytes.Buffer
	cmd.Stdout, cmd.Stderr = &buf, &buf
	cmd.SysProcAttr = &syscall.SysProcAttr{Setpgid: true}
	o := Outcome{BuildOK: true}
	if err := cmd.Start(); err != nil {
		o.Out, o.Code = err.Error(), 127
		return o
	}
	done := make(chan error, 1)
	go func() { done <- cmd.Wait() }()
	var err error
	select {
	case err = <-done:
	case <-time.After(30 * time.Second):
		o.Timeout = true
		syscall.Kill(-cmd.Process.Pid, syscall.SIGKILL)
		err = <-done
	}
	if err != nil {
		o.Code = 1
		var ee *exec.ExitError
		if errors.As(err, &ee) {
			o.Code = ee.ExitCode()
			if ws, ok := ee.Sys().(syscall.WaitStatus); ok && ws.Signaled() {
				o.Code = 128 + int(ws.Signal())
			}
		}
	}
	o.Out = buf.String()
	return o
}

// SplitUnits cuts a program's output into per-unit blocks: lines starting with "#<n> " or "#<n>:"
// belong to unit n; anything else goes to unit -1.
func SplitUnits(out string) map[int][]string {
	m := map[int][]string{}
	for _, ln := range strings.Split(out, "\n") {
		if ln == "" {
			continue
		}
		u := -1
		if ln[0] == '#' {
			n, i := 0, 1
			if i < len(ln) && ln[i] == ' ' { // println("#", n, …) prints "# n …"
				i++
			}
			start := i
			for i < len(ln) && ln[i] >= '0' && ln[i] <= '9' {
				n = n*10 + int(ln[i]-'0')
				i++
			}
			if i > start {
				u = n
			}
		}
		m[u] = append(m[u], ln)
	}
	return m
}
