// Package cases is the C02 interpreter: every numeric operator and conversion as a separate
// non-inlined function, callable by id with raw operand bit patterns.  Import-free (unsafe only).
package cases

func rd64(p []byte, i int) uint64 {
	return uint64(p[i]) | uint64(p[i+1])<<8 | uint64(p[i+2])<<16 | uint64(p[i+3])<<24 |
		uint64(p[i+4])<<32 | uint64(p[i+5])<<40 | uint64(p[i+6])<<48 | uint64(p[i+7])<<56
}

func wr64(p []byte, v uint64) []byte {
	return append(p, byte(v), byte(v>>8), byte(v>>16), byte(v>>24), byte(v>>32), byte(v>>40), byte(v>>48), byte(v>>56))
}

// Handle serves one request frame.
//
//	op 0 (batch): n u64, then n × (id, a0, a1, b0, b1 u64)  ->  n × (r0, r1 u64, panicked u8)
//	op 1 (grid):  id, alo, ahi, nb u64, then nb × b u64      ->  checksum u64, panics u64, count u64
//	              evaluates id on every a in [alo, ahi) × every listed b (FNV-1a over r0, r1, panicked)
//	op 2 (info):  ->  number of functions u64
func Handle(req []byte) []byte {
	if len(req) == 0 {
		return nil
	}
	switch req[0] {
	case 0:
		n := int(rd64(req, 1))
		out := make([]byte, 0, n*17)
		p := 9
		for i := 0; i < n; i++ {
			id := int(rd64(req, p))
			r0, r1, pn := call(id, rd64(req, p+8), rd64(req, p+16), rd64(req, p+24), rd64(req, p+32))
			p += 40
			out = wr64(out, r0)
			out = wr64(out, r1)
			if pn {
				out = append(out, 1)
			} else {
				out = append(out, 0)
			}
		}
		return out
	case 1:
		id := int(rd64(req, 1))
		alo, ahi, nb := rd64(req, 9), rd64(req, 17), int(rd64(req, 25))
		h := uint64(14695981039346656037)
		var panics, count uint64
		mix := func(v uint64) {
			for k := 0; k < 8; k++ {
				h ^= (v >> (8 * uint(k))) & 0xff
				h *= 1099511628211
			}
		}
		for a := alo; a < ahi; a++ {
			for j := 0; j < nb; j++ {
				b := rd64(req, 33+8*j)
				r0, r1, pn := call(id, a, 0, b, 0)
				mix(r0)
				mix(r1)
				if pn {
					panics++
					mix(1)
				} else {
					mix(0)
				}
				count++
			}
		}
		out := wr64(nil, h)
		out = wr64(out, panics)
		return wr64(out, count)
	case 2:
		return wr64(nil, uint64(len(Table)))
	}
	return nil
}
