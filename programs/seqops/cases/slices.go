// Package cases is the C05 interpreter: a register machine over slices of six element types
// (sizes 0, 1, 2, 3, 8 and 24 bytes) and a set of stateless string operations. Import-free.
package cases

type E0 struct{}
type E3 [3]byte
type E24 struct{ A, B, C uint64 }

type machine[T any] struct {
	regs [8][]T
	from func(uint64) T
	to   func(T) uint64
}

var (
	m0  = machine[E0]{from: func(uint64) E0 { return E0{} }, to: func(E0) uint64 { return 0 }}
	m1  = machine[uint8]{from: func(v uint64) uint8 { return uint8(v) }, to: func(v uint8) uint64 { return uint64(v) }}
	m2  = machine[uint16]{from: func(v uint64) uint16 { return uint16(v) }, to: func(v uint16) uint64 { return uint64(v) }}
	m3  = machine[E3]{from: func(v uint64) E3 { return E3{byte(v), byte(v >> 8), byte(v >> 16)} }, to: func(v E3) uint64 { return uint64(v[0]) | uint64(v[1])<<8 | uint64(v[2])<<16 }}
	m8  = machine[uint64]{from: func(v uint64) uint64 { return v }, to: func(v uint64) uint64 { return v }}
	m24 = machine[E24]{from: func(v uint64) E24 { return E24{v, ^v, v * 3} }, to: func(v E24) uint64 {
		if v == (E24{}) {
			return 0 // zero value (make, clear)
		}
		if v.B != ^v.A || v.C != v.A*3 {
			return 0xBAD0BAD0BAD0BAD0 // torn element
		}
		return v.A
	}}
)

func rd(p []byte, i int) uint64 {
	return uint64(p[i]) | uint64(p[i+1])<<8 | uint64(p[i+2])<<16 | uint64(p[i+3])<<24 |
		uint64(p[i+4])<<32 | uint64(p[i+5])<<40 | uint64(p[i+6])<<48 | uint64(p[i+7])<<56
}

func wr(p []byte, v uint64) []byte {
	return append(p, byte(v), byte(v>>8), byte(v>>16), byte(v>>24), byte(v>>32), byte(v>>40), byte(v>>48), byte(v>>56))
}

// slice ops (req[0] = 1, req[1] = element type index 0..5, req[2] = op, then u64 arguments)
const (
	opReset = iota
	opMake      // r, len, cap
	opLit       // r, n, tok
	opNil       // r
	opAppendN   // dst, src, k, tok        dst = append(src, tok, tok+1, …)
	opAppendS   // dst, a, b, lo, hi       dst = append(a, b[lo:hi]...)
	opCopy      // a, i, b, j              n = copy(a[i:], b[j:])
	opSlice2    // dst, a, l, h            dst = a[l:h]
	opSlice3    // dst, a, l, h, m         dst = a[l:h:m]
	opClear     // r
	opStore     // r, i, tok
	opDump      // r                       -> isnil, len, cap, tokens…
	opAppendSelf1 // dst, a, lo            dst = append(a[:lo], a[lo+1:]...)  (delete idiom)
	opGrowLoop  // r, n, tok               for i<n { r = append(r, tok+i) }
	opDumpAll   //                         -> for each register: isnil, len, cap, tokens…
)

func (m *machine[T]) do(op byte, a []uint64) (out []byte, ok bool) {
	ok = true
	defer func() {
		if r := recover(); r != nil {
			out, ok = nil, false
		}
	}()
	arg := func(i int) int { return int(a[i]) }
	switch op {
	case opReset:
		for i := range m.regs {
			m.regs[i] = nil
		}
	case opMake:
		m.regs[arg(0)] = make([]T, arg(1), arg(2))
	case opLit:
		s := make([]T, 0, arg(1))
		for i := 0; i < arg(1); i++ {
			s = append(s, m.from(a[2]+uint64(i)))
		}
		m.regs[arg(0)] = s
	case opNil:
		m.regs[arg(0)] = nil
	case opAppendN:
		src := m.regs[arg(1)]
		switch arg(2) {
		case 0:
			m.regs[arg(0)] = append(src)
		case 1:
			m.regs[arg(0)] = append(src, m.from(a[3]))
		case 2:
			m.regs[arg(0)] = append(src, m.from(a[3]), m.from(a[3]+1))
		case 3:
			m.regs[arg(0)] = append(src, m.from(a[3]), m.from(a[3]+1), m.from(a[3]+2))
		default:
			vals := make([]T, arg(2))
			for i := range vals {
				vals[i] = m.from(a[3] + uint64(i))
			}
			m.regs[arg(0)] = append(src, vals...)
		}
	case opAppendS:
		m.regs[arg(0)] = append(m.regs[arg(1)], m.regs[arg(2)][arg(3):arg(4)]...)
	case opCopy:
		n := copy(m.regs[arg(0)][arg(1):], m.regs[arg(2)][arg(3):])
		out = wr(out, uint64(n))
	case opSlice2:
		m.regs[arg(0)] = m.regs[arg(1)][arg(2):arg(3)]
	case opSlice3:
		m.regs[arg(0)] = m.regs[arg(1)][arg(2):arg(3):arg(4)]
	case opClear:
		clear(m.regs[arg(0)])
	case opStore:
		m.regs[arg(0)][arg(1)] = m.from(a[2])
	case opDump:
		s := m.regs[arg(0)]
		if s == nil {
			out = wr(out, 1)
		} else {
			out = wr(out, 0)
		}
		out = wr(out, uint64(len(s)))
		out = wr(out, uint64(cap(s)))
		for _, v := range s {
			out = wr(out, m.to(v))
		}
	case opDumpAll:
		for _, s := range m.regs {
			if s == nil {
				out = wr(out, 1)
			} else {
				out = wr(out, 0)
			}
			out = wr(out, uint64(len(s)))
			out = wr(out, uint64(cap(s)))
			for _, v := range s {
				out = wr(out, m.to(v))
			}
		}
	case opAppendSelf1:
		s := m.regs[arg(1)]
		m.regs[arg(0)] = append(s[:arg(2)], s[arg(2)+1:]...)
	case opGrowLoop:
		s := m.regs[arg(0)]
		for i := 0; i < arg(1); i++ {
			s = append(s, m.from(a[2]+uint64(i)))
		}
		m.regs[arg(0)] = s
	}
	return
}

// Handle serves one request frame; response = status byte (0 ok, 1 panicked) + payload.
func Handle(req []byte) []byte {
	if len(req) < 1 {
		return nil
	}
	switch req[0] {
	case 1:
		et, op := req[1], req[2]
		var a []uint64
		for i := 3; i+8 <= len(req); i += 8 {
			a = append(a, rd(req, i))
		}
		var out []byte
		var ok bool
		switch et {
		case 0:
			out, ok = m0.do(op, a)
		case 1:
			out, ok = m1.do(op, a)
		case 2:
			out, ok = m2.do(op, a)
		case 3:
			out, ok = m3.do(op, a)
		case 4:
			out, ok = m8.do(op, a)
		default:
			out, ok = m24.do(op, a)
		}
		if !ok {
			return []byte{1}
		}
		return append([]byte{0}, out...)
	case 2:
		return strOp(req[1:])
	}
	return nil
}
