package cases

// String operations (req[0] = 2): op byte, then length-prefixed byte strings / u64 arguments.

func takeStr(p []byte, i int) (string, int) {
	n := int(rd(p, i))
	return string(p[i+8 : i+8+n]), i + 8 + n
}

func putStr(out []byte, s string) []byte {
	out = wr(out, uint64(len(s)))
	return append(out, s...)
}

func b2(b bool) byte {
	if b {
		return 1
	}
	return 0
}

const (
	sConcat   = iota // n, s1..sn            -> s1+…+sn
	sCompare         // a, b                 -> == != < <= > >=
	sIndex           // s, i                 -> s[i]
	sSlice           // s, l, h              -> s[l:h]
	sRange           // s                    -> (index, rune) pairs of for range
	sBytes           // s                    -> []byte(s) (len, cap>=len flag, bytes) then mutate copy and re-read s
	sFromBytes       // b                    -> string(b)
	sRunes           // s                    -> []rune(s)
	sFromRunes       // n, r1..rn            -> string([]rune)
	sFromRune        // r                    -> string(rune(r))
	sPlusEq          // n, s1..sn            -> t := ""; for … t += si
	sLen             // s                    -> len(s), number of runes by range
	sCompareBytes    // a, b                 -> string(ba) == string(bb), string(ba) < string(bb) on []byte operands
	sRangeIdx        // s                    -> indices only (for i := range s)
	sConcat3Byte     // a, b, c              -> a + string(b-bytes) + c via mixed conversions
	sFromInt64       // v                    -> string(rune(int64))  (out-of-range code points give "�")
)

func strOp(p []byte) (out []byte) {
	out = []byte{0}
	defer func() {
		if r := recover(); r != nil {
			out = []byte{1}
		}
	}()
	switch p[0] {
	case sConcat:
		n := int(rd(p, 1))
		i := 9
		ss := make([]string, n)
		for k := 0; k < n; k++ {
			ss[k], i = takeStr(p, i)
		}
		var r string
		switch n {
		case 0:
			r = ""
		case 1:
			r = ss[0]
		case 2:
			r = ss[0] + ss[1]
		case 3:
			r = ss[0] + ss[1] + ss[2]
		case 4:
			r = ss[0] + ss[1] + ss[2] + ss[3]
		default:
			r = ss[0] + ss[1] + ss[2] + ss[3] + ss[4]
		}
		out = putStr(out, r)
	case sCompare:
		a, i := takeStr(p, 1)
		b, _ := takeStr(p, i)
		out = append(out, b2(a == b), b2(a != b), b2(a < b), b2(a <= b), b2(a > b), b2(a >= b))
	case sIndex:
		s, i := takeStr(p, 1)
		out = append(out, s[int(rd(p, i))])
	case sSlice:
		s, i := takeStr(p, 1)
		l, h := int(rd(p, i)), int(rd(p, i+8))
		out = putStr(out, s[l:h])
		out = putStr(out, s[l:])
		out = putStr(out, s[:h])
	case sRange:
		s, _ := takeStr(p, 1)
		for i, r := range s {
			out = wr(out, uint64(i))
			out = wr(out, uint64(uint32(r)))
		}
	case sRangeIdx:
		s, _ := takeStr(p, 1)
		n := 0
		for i := range s {
			out = wr(out, uint64(i))
			n++
		}
		out = wr(out, uint64(n))
	case sBytes:
		s, _ := takeStr(p, 1)
		b := []byte(s)
		out = wr(out, uint64(len(b)))
		out = append(out, b2(cap(b) >= len(b)))
		out = append(out, b...)
		for i := range b { // the copy must not alias the string
			b[i] ^= 0xff
		}
		out = putStr(out, s)
	case sFromBytes:
		s, _ := takeStr(p, 1)
		b := []byte(s)
		t := string(b)
		for i := range b {
			b[i] = 'x'
		}
		out = putStr(out, t)
	case sRunes:
		s, _ := takeStr(p, 1)
		rs := []rune(s)
		out = wr(out, uint64(len(rs)))
		for _, r := range rs {
			out = wr(out, uint64(uint32(r)))
		}
	case sFromRunes:
		n := int(rd(p, 1))
		rs := make([]rune, n)
		for k := 0; k < n; k++ {
			rs[k] = rune(int32(uint32(rd(p, 9+8*k))))
		}
		out = putStr(out, string(rs))
	case sFromRune:
		out = putStr(out, string(rune(int32(uint32(rd(p, 1))))))
	case sFromInt64:
		v := int64(rd(p, 1))
		out = putStr(out, string(rune(v)))
		// integer-to-string conversions of wider types: values outside the valid code points give "\uFFFD"
		out = putStr(out, string(v))
		out = putStr(out, string(int(v)))
		out = putStr(out, string(uint64(v)))
		out = putStr(out, string(int32(v)))
		out = putStr(out, string(uint16(v)))
		type myInt int64
		out = putStr(out, string(myInt(v)))
	case sPlusEq:
		n := int(rd(p, 1))
		i := 9
		t := ""
		for k := 0; k < n; k++ {
			var s string
			s, i = takeStr(p, i)
			t += s
		}
		out = putStr(out, t)
	case sLen:
		s, _ := takeStr(p, 1)
		n := 0
		for range s {
			n++
		}
		out = wr(out, uint64(len(s)))
		out = wr(out, uint64(n))
	case sCompareBytes:
		a, i := takeStr(p, 1)
		b, _ := takeStr(p, i)
		ba, bb := []byte(a), []byte(b)
		out = append(out, b2(string(ba) == string(bb)), b2(string(ba) < string(bb)), b2(string(ba) == b), b2(a != string(bb)))
		m := map[string]int{a: 1}
		out = append(out, byte(m[string(bb)]))
	case sConcat3Byte:
		a, i := takeStr(p, 1)
		b, j := takeStr(p, i)
		c, _ := takeStr(p, j)
		bb := []byte(b)
		out = putStr(out, a+string(bb)+c)
		out = putStr(out, string(append([]byte(a), c...)))
	}
	return
}
