// Package cases is the C06 interpreter: one map register per key/value type pair, driven by tokens.
// Import-free; runs under llgo and natively (gc's map is the reference for point operations).
package cases

type K7 struct {
	a int16
	s string
}
type K8 struct {
	a int8
	b int64
}
type K9 struct {
	a int8
	_ int32
	f float64
}
type Big [20]int64

func itoa(v uint64) string {
	if v == 0 {
		return "0"
	}
	var b [20]byte
	i := len(b)
	for v > 0 {
		i--
		b[i] = byte('0' + v%10)
		v /= 10
	}
	return string(b[i:])
}

func atou(s string) uint64 {
	var v uint64
	for i := 0; i < len(s); i++ {
		if s[i] < '0' || s[i] > '9' {
			break
		}
		v = v*10 + uint64(s[i]-'0')
	}
	return v
}

const pad = "xxxxxxxxxxxxxxxxxxxxxxxxxxxxxxxxxxxxxxxxxxxxxxxxxxxxxxxx" // long keys share prefix and suffix

func strKey(t uint64) string {
	switch t % 3 {
	case 0:
		return "k" + itoa(t)
	case 1:
		return pad + itoa(t)
	}
	return itoa(t) + pad
}
func strTok(s string) uint64 {
	if len(s) > 0 && s[0] == 'k' {
		return atou(s[1:])
	}
	if len(s) > len(pad) && s[0] == 'x' {
		return atou(s[len(pad):])
	}
	return atou(s)
}

func f64Key(t uint64) float64 {
	switch t {
	case 0:
		return 0
	case 1:
		var z float64
		return -z // -0
	case 2:
		var z float64
		return z / z // NaN
	}
	return float64(t) / 4
}
func f64Tok(f float64) uint64 {
	if f != f {
		return 2
	}
	if f == 0 {
		return 0 // +0 and -0 are one key; which spelling the map retains is not specified
	}
	return uint64(f * 4)
}

func anyKey(t uint64) any {
	v := t / 8
	switch t % 8 {
	case 0:
		return int(v)
	case 1:
		return int64(v)
	case 2:
		return strKey(v)
	case 3:
		return f64Key(v + 3)
	case 4:
		return v%2 == 0
	case 5:
		return [2]int{int(v), 1}
	case 6:
		return K8{int8(v), int64(v)}
	}
	return uint8(v)
}
func anyTok(k any) uint64 {
	switch x := k.(type) {
	case int:
		return uint64(x) * 8
	case int64:
		return uint64(x)*8 + 1
	case string:
		return strTok(x)*8 + 2
	case float64:
		return (f64Tok(x)-3)*8 + 3
	case bool:
		if x {
			return 4
		}
		return 8 + 4
	case [2]int:
		return uint64(x[0])*8 + 5
	case K8:
		return uint64(x.b)*8 + 6
	case uint8:
		return uint64(x)*8 + 7
	}
	return ^uint64(0)
}

func bigOf(t uint64) Big {
	var b Big
	for i := range b {
		b[i] = int64(t) + int64(i)*7
	}
	return b
}
func bigTok(b Big) uint64 {
	for i := range b {
		if b[i] != b[0]+int64(i)*7 {
			return 0xBAD0BAD0BAD0BAD0
		}
	}
	return uint64(b[0])
}

func anyVal(t uint64) any {
	switch t % 4 {
	case 0:
		return int(t)
	case 1:
		return itoa(t)
	case 2:
		return nil
	}
	return bigOf(t)
}
func anyValTok(v any) uint64 {
	switch x := v.(type) {
	case int:
		return uint64(x)
	case string:
		return atou(x)
	case nil:
		return 2
	case Big:
		return bigTok(x)
	}
	return ^uint64(0)
}

type machine[K comparable, V any] struct {
	m    map[K]V
	kf   func(uint64) K
	kt   func(K) uint64
	vf   func(uint64) V
	vt   func(V) uint64
}

func rd(p []byte, i int) uint64 {
	return uint64(p[i]) | uint64(p[i+1])<<8 | uint64(p[i+2])<<16 | uint64(p[i+3])<<24 |
		uint64(p[i+4])<<32 | uint64(p[i+5])<<40 | uint64(p[i+6])<<48 | uint64(p[i+7])<<56
}
func wr(p []byte, v uint64) []byte {
	return append(p, byte(v), byte(v>>8), byte(v>>16), byte(v>>24), byte(v>>32), byte(v>>40), byte(v>>48), byte(v>>56))
}

const (
	opMake      = iota // hint                    m = make(map, hint)
	opNil              //                         m = nil
	opSet              // k, v
	opGet              // k                       -> v, ok  (both the one- and two-result forms)
	opDelete           // k
	opLen              //                         -> len
	opClear            //
	opDump             //                         -> n, (k, v)… in iteration order
	opSetRange         // k0, n, stride, v0       for i<n: m[k0+i*stride] = v0+i
	opDelRange         // k0, n, stride
	opRangeMut         // limit, nmut, (step, kind, k, v)…  -> yields (k, v)…; kind 0 set, 1 delete, 2 clear
	opLitBad           // kind                    any-keyed map only: insert an unhashable key (must panic)
	opGetMissingZero   // k                       -> zero-ness of a missing lookup
)

func (m *machine[K, V]) do(op byte, a []uint64) (out []byte, ok bool) {
	ok = true
	defer func() {
		if r := recover(); r != nil {
			out, ok = nil, false
		}
	}()
	switch op {
	case opMake:
		m.m = make(map[K]V, int(a[0]))
	case opNil:
		m.m = nil
	case opSet:
		m.m[m.kf(a[0])] = m.vf(a[1])
	case opGet:
		k := m.kf(a[0])
		v, found := m.m[k]
		v1 := m.m[k]
		out = wr(out, m.vt(v))
		out = wr(out, m.vt(v1))
		if found {
			out = wr(out, 1)
		} else {
			out = wr(out, 0)
		}
	case opDelete:
		delete(m.m, m.kf(a[0]))
	case opLen:
		out = wr(out, uint64(len(m.m)))
	case opClear:
		clear(m.m)
	case opDump:
		out = wr(out, uint64(len(m.m)))
		for k, v := range m.m {
			out = wr(out, m.kt(k))
			out = wr(out, m.vt(v))
		}
	case opSetRange:
		for i := uint64(0); i < a[1]; i++ {
			m.m[m.kf(a[0]+i*a[2])] = m.vf(a[3] + i)
		}
	case opDelRange:
		for i := uint64(0); i < a[1]; i++ {
			delete(m.m, m.kf(a[0]+i*a[2]))
		}
	case opRangeMut:
		limit, nmut := int(a[0]), int(a[1])
		step := 0
		for k, v := range m.m {
			out = wr(out, m.kt(k))
			out = wr(out, m.vt(v))
			for j := 0; j < nmut; j++ {
				if int(a[2+4*j]) != step {
					continue
				}
				switch a[3+4*j] {
				case 0:
					m.m[m.kf(a[4+4*j])] = m.vf(a[5+4*j])
				case 1:
					delete(m.m, m.kf(a[4+4*j]))
				case 2:
					clear(m.m)
				case 3: // bulk insert to force growth mid-loop
					for i := uint64(0); i < a[5+4*j]; i++ {
						m.m[m.kf(a[4+4*j]+i)] = m.vf(i)
					}
				}
			}
			step++
			if step >= limit {
				break
			}
		}
	}
	return
}

var (
	m0  = machine[int64, int]{kf: func(t uint64) int64 { return int64(t) }, kt: func(k int64) uint64 { return uint64(k) }, vf: func(t uint64) int { return int(t) }, vt: func(v int) uint64 { return uint64(v) }}
	m1  = machine[uint8, string]{kf: func(t uint64) uint8 { return uint8(t) }, kt: func(k uint8) uint64 { return uint64(k) }, vf: itoa, vt: atou}
	m2  = machine[string, int]{kf: strKey, kt: strTok, vf: func(t uint64) int { return int(t) }, vt: func(v int) uint64 { return uint64(v) }}
	m3  = machine[float64, int]{kf: f64Key, kt: f64Tok, vf: func(t uint64) int { return int(t) }, vt: func(v int) uint64 { return uint64(v) }}
	m4  = machine[complex128, struct{}]{kf: func(t uint64) complex128 { return complex(f64Key(t%5), f64Key(t/5+3)) }, kt: func(k complex128) uint64 { return (f64Tok(imag(k))-3)*5 + f64Tok(real(k)) }, vf: func(uint64) struct{} { return struct{}{} }, vt: func(struct{}) uint64 { return 0 }}
	m5  = machine[bool, Big]{kf: func(t uint64) bool { return t&1 == 1 }, kt: func(k bool) uint64 {
		if k {
			return 1
		}
		return 0
	}, vf: bigOf, vt: bigTok}
	m6  = machine[[2]int32, string]{kf: func(t uint64) [2]int32 { return [2]int32{int32(t), int32(t >> 32)} }, kt: func(k [2]int32) uint64 { return uint64(uint32(k[0])) | uint64(uint32(k[1]))<<32 }, vf: itoa, vt: atou}
	m7  = machine[K7, int]{kf: func(t uint64) K7 { return K7{int16(t % 7), strKey(t)} }, kt: func(k K7) uint64 { return strTok(k.s) }, vf: func(t uint64) int { return int(t) }, vt: func(v int) uint64 { return uint64(v) }}
	m8  = machine[K8, any]{kf: func(t uint64) K8 { return K8{int8(t % 100), int64(t)} }, kt: func(k K8) uint64 { return uint64(k.b) }, vf: anyVal, vt: anyValTok}
	m9  = machine[K9, int]{kf: func(t uint64) K9 { return K9{a: int8(t % 50), f: f64Key(t)} }, kt: func(k K9) uint64 { return f64Tok(k.f) }, vf: func(t uint64) int { return int(t) }, vt: func(v int) uint64 { return uint64(v) }}
	m10 = machine[any, int]{kf: anyKey, kt: anyTok, vf: func(t uint64) int { return int(t) }, vt: func(v int) uint64 { return uint64(v) }}
	m11 = machine[Big, Big]{kf: bigOf, kt: bigTok, vf: bigOf, vt: bigTok}
	m12 = machine[string, any]{kf: strKey, kt: strTok, vf: anyVal, vt: anyValTok}
	m13 = machine[int64, struct{}]{kf: func(t uint64) int64 { return int64(t) }, kt: func(k int64) uint64 { return uint64(k) }, vf: func(uint64) struct{} { return struct{}{} }, vt: func(struct{}) uint64 { return 0 }}
)

// NumTypes is the number of key/value type pairs.
const NumTypes = 14

// unhashable inserts a key whose dynamic type cannot be hashed into the any-keyed map.
func unhashable(kind uint64) (ok bool) {
	ok = true
	defer func() {
		if recover() != nil {
			ok = false
		}
	}()
	if m10.m == nil {
		m10.m = map[any]int{}
	}
	switch kind {
	case 0:
		m10.m[[]int{1}] = 1
	case 1:
		m10.m[map[int]int{}] = 1
	case 2:
		m10.m[func() {}] = 1
	case 3:
		m10.m[[1]any{[]int{1}}] = 1 // unhashable value nested in a hashable-looking array
	case 4:
		_ = m10.m[struct{ x any }{[]int{}}] // lookups hash the key too
	case 5: // reads and deletes hash the key even when the map is nil or empty
		var m map[[2]any]int
		_ = m[[2]any{[]int{1}, 1}]
	case 6:
		m := map[[2]any]int{}
		_ = m[[2]any{1, map[int]int{}}]
	case 7:
		m := map[[2]any]int{}
		delete(m, [2]any{func() {}, 2})
	case 8:
		var m map[struct {
			n int
			a [1]any
		}]int
		_, _ = m[struct {
			n int
			a [1]any
		}{1, [1]any{[]int{}}}]
	case 9:
		m := map[[1][1]any]string{}
		delete(m, [1][1]any{{[]string{"x"}}})
	case 10: // control: hashable dynamic values in the same key types do not panic
		var m map[[2]any]int
		_ = m[[2]any{1, "a"}]
		m2 := map[[1][1]any]string{}
		delete(m2, [1][1]any{{3}})
		ok = true
	case 11:
		m := map[any]int{}
		_ = m[[]int{1}]
	case 12:
		var m map[any]int
		delete(m, map[int]int{})
	}
	return
}

// Handle: req = type index, op, u64 args…; response = status (0 ok, 1 panicked) + payload.
func Handle(req []byte) []byte {
	if len(req) < 2 {
		return nil
	}
	ty, op := req[0], req[1]
	var a []uint64
	for i := 2; i+8 <= len(req); i += 8 {
		a = append(a, rd(req, i))
	}
	if op == opLitBad {
		if unhashable(a[0]) {
			return []byte{0}
		}
		return []byte{1}
	}
	var out []byte
	var ok bool
	switch ty {
	case 0:
		out, ok = m0.do(op, a)
	case 1:
		out, ok = m1.do(op, a)
	case 2:
		out, ok = m2.do(op, a)
	case 3:
		out, ok = m3.do(op, a)
	case 4:
		out, ok = m4.do(op, a)
	case 5:
		out, ok = m5.do(op, a)
	case 6:
		out, ok = m6.do(op, a)
	case 7:
		out, ok = m7.do(op, a)
	case 8:
		out, ok = m8.do(op, a)
	case 9:
		out, ok = m9.do(op, a)
	case 10:
		out, ok = m10.do(op, a)
	case 11:
		out, ok = m11.do(op, a)
	case 12:
		out, ok = m12.do(op, a)
	default:
		out, ok = m13.do(op, a)
	}
	if !ok {
		return []byte{1}
	}
	return append([]byte{0}, out...)
}
