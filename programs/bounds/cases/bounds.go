// Package cases is the C03 interpreter: every operation Go requires to panic, callable by id with
// operand parameters, executed `repeat` times under a deferred recover, reporting for each execution
// whether it panicked, what the recovered value was, which trace points ran and which side effects
// survived.  Import-free.
package cases

type env struct {
	arr   [8]int64
	parr  *[8]int64
	s     []int64
	s2    [][]int64
	sz    []struct{}
	str   string
	idx   uint64
	lo    uint64
	hi    uint64
	max   uint64
	m     map[int]int
	x     any
	gi    getter
	fn    func() int64
	ch    chan int
	pi    *int64
	pP0   *P0
	pP8   *P8
	pP4095 *P4095
	pP4096 *P4096
	pP64K *P64K
	pP1Mm8 *P1Mm8
	pP1M  *P1M
	pP4M  *P4M
	pP8M  *P8M
	err   error
	*limits
	side  int64
	tr    uint64 // trace bitmask
	calls uint64 // order of helper calls: base-16 digits
}

func (e *env) trace(n int) { e.tr |= 1 << uint(n) }

//go:noinline
func (e *env) f(i int) int { e.calls = e.calls<<4 | 1; return i }

//go:noinline
func (e *env) g(v int64) int64 { e.calls = e.calls<<4 | 2; e.side += v; return v }

func (e *env) arrp() []int64 { return e.arr[:] }

func (e *env) pa127() *[127]int8     { return &e.a127 }
func (e *env) pa128() *[128]int8     { return &e.a128 }
func (e *env) pa254() *[254]int8     { return &e.a254 }
func (e *env) pa255() *[255]int8     { return &e.a255 }
func (e *env) pa256() *[256]int8     { return &e.a256 }
func (e *env) pa65535() *[65535]int8 { return &e.a65535 }
func (e *env) pa65536() *[65536]int8 { return &e.a65536 }

// arrays whose lengths sit at the limits of narrow index types (shared, not re-created per execution)
type limits struct {
	a127   [127]int8
	a128   [128]int8
	a254   [254]int8
	a255   [255]int8
	a256   [256]int8
	a65535 [65535]int8
	a65536 [65536]int8
}

var glimits limits

type bErr struct{}

func (bErr) Error() string { return "b" }

var (
	vP0   P0
	vP8   P8
	vP4095 P4095
	vP4096 P4096
	vP64K P64K
	vP1Mm8 P1Mm8
	vP1M  P1M
	vP4M  P4M
	vP8M  P8M
	vInt  int64 = 42
	letters = "abcdefghijklmnopqrstuvwxyzABCDEFGHIJKLMNOPQRSTUVWXYZ0123456789abcdefghijklmnopqrstuvwxyz"
)

func rd(p []byte, i int) uint64 {
	return uint64(p[i]) | uint64(p[i+1])<<8 | uint64(p[i+2])<<16 | uint64(p[i+3])<<24 |
		uint64(p[i+4])<<32 | uint64(p[i+5])<<40 | uint64(p[i+6])<<48 | uint64(p[i+7])<<56
}
func wr(p []byte, v uint64) []byte {
	return append(p, byte(v), byte(v>>8), byte(v>>16), byte(v>>24), byte(v>>32), byte(v>>40), byte(v>>48), byte(v>>56))
}

// flags of a request
const (
	FlagNilPtr    = 1 << iota // pointers (parr, p*, pi) are nil
	FlagNilMap                // e.m is nil (otherwise an empty map)
	FlagChanClosed            // e.ch is closed (otherwise open, buffered 4)
	FlagChanNil               // e.ch is nil (only meaningful for close)
	FlagNilIface              // e.gi and e.x are nil interfaces
	FlagNilFunc               // e.fn is nil
)

func setup(e *env, ln, cp int, flags, dyn uint64) {
	for i := range e.arr {
		e.arr[i] = int64(10 + i)
	}
	if cp < ln {
		cp = ln
	}
	e.s = make([]int64, ln, cp)
	for i := range e.s {
		e.s[i] = int64(20 + i)
	}
	e.s2 = make([][]int64, ln)
	for i := range e.s2 {
		e.s2[i] = e.s
	}
	e.sz = make([]struct{}, ln, cp)
	if ln <= len(letters) {
		e.str = letters[:ln]
	} else {
		e.str = letters
	}
	if flags&FlagNilPtr == 0 {
		e.parr = &e.arr
		e.pi = &vInt
		e.pP0, e.pP8, e.pP4095, e.pP4096, e.pP64K, e.pP1Mm8, e.pP1M, e.pP4M, e.pP8M = &vP0, &vP8, &vP4095, &vP4096, &vP64K, &vP1Mm8, &vP1M, &vP4M, &vP8M
	}
	if flags&FlagNilMap == 0 {
		e.m = map[int]int{}
	}
	if flags&FlagChanNil == 0 {
		e.ch = make(chan int, 4)
		if flags&FlagChanClosed != 0 {
			close(e.ch)
		}
	}
	e.limits = &glimits
	e.a127[126], e.a128[127], e.a254[253], e.a255[254], e.a256[255], e.a65535[65534], e.a65536[65535] = 1, 2, 3, 4, 5, 6, 7
	if flags&FlagNilIface == 0 {
		e.err = bErr{}
		e.gi = &vP8
		switch dyn {
		case 0:
			e.x = 5
		case 1:
			e.x = "str"
		case 2:
			e.x = &vP8
		case 3:
			e.x = int64(5)
		case 4:
			e.x = vP8
		default:
			e.x = []int{1}
		}
	}
	if flags&FlagNilFunc == 0 {
		e.fn = func() int64 { return 3 }
	}
}

// classify the recovered value without importing anything: kind 1 = error with RuntimeError method
// (a runtime.Error), 2 = other error, 3 = string, 4 = anything else; msg is its text.
func describe(r any) (kind uint64, msg string) {
	switch v := r.(type) {
	case interface {
		RuntimeError()
		Error() string
	}:
		return 1, v.Error()
	case error:
		return 2, v.Error()
	case string:
		return 3, v
	}
	return 4, ""
}

func runOnce(id int, e *env) (res uint64, panicked bool, kind uint64, msg string) {
	defer func() {
		if r := recover(); r != nil {
			panicked = true
			kind, msg = describe(r)
		}
	}()
	res = opFuncs[id](e)
	return
}

// Handle: req = id, len, cap, lo, hi, max, idx, flags, dyn, repeat (u64 each).
// Response per execution: panicked u8, kind u8, trace u64, calls u64, side u64, res u64, msg (u64 len + bytes),
// then s[0..min(len,4)) after the operation (surviving side effects).
func Handle(req []byte) []byte {
	if len(req) < 80 {
		return wr(nil, uint64(len(opFuncs)))
	}
	id := int(rd(req, 0))
	ln, cp := int(rd(req, 8)), int(rd(req, 16))
	flags, dyn, repeat := rd(req, 56), rd(req, 64), int(rd(req, 72))
	var out []byte
	for k := 0; k < repeat; k++ {
		e := &env{lo: rd(req, 24), hi: rd(req, 32), max: rd(req, 40), idx: rd(req, 48)}
		setup(e, ln, cp, flags, dyn)
		res, panicked, kind, msg := runOnce(id, e)
		if panicked {
			out = append(out, 1)
		} else {
			out = append(out, 0)
		}
		out = append(out, byte(kind))
		out = wr(out, e.tr)
		out = wr(out, e.calls)
		out = wr(out, uint64(e.side))
		out = wr(out, res)
		out = wr(out, uint64(len(msg)))
		out = append(out, msg...)
		for i := 0; i < 4; i++ {
			if i < len(e.s) {
				out = wr(out, uint64(e.s[i]))
			} else {
				out = wr(out, 0)
			}
		}
		out = wr(out, uint64(e.arr[0])^uint64(e.arr[7]))
	}
	return out
}
