#!/bin/bash
# setup_cmd: builds the LLVM-14 shim directory and the driver from files on disk only (offline).
set -euo pipefail
cd "$(dirname "${BASH_SOURCE[0]}")"
mkdir -p .build
if [ ! -e .build/shim/lib/libuv.a ]; then ./toolchain/mkshim.sh "${VERIF_REPO:-/repo}" "$PWD/.build/shim"; fi
. ./toolchain/env.sh
go build -o "$VERIF_BUILD/vcheck" ./harness/cmd/vcheck
echo "setup ok"
