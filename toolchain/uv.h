/* Minimal uv.h stand-in: only what runtime/internal/clite/libuv/_wrap/libuv.c needs to compile.
   No libuv exists in the sandbox; every uv_* function is a stub that aborts when called. */
#ifndef VERIF_UV_H
#define VERIF_UV_H
#include <stdint.h>
typedef struct uv_loop_s { void *opaque[128]; } uv_loop_t;
typedef struct uv_async_s { void *opaque[32]; } uv_async_t;
typedef struct uv_timer_s { void *opaque[32]; } uv_timer_t;
typedef struct uv_signal_s { void *opaque[32]; } uv_signal_t;
typedef struct { void *cb; void *q[4]; unsigned pevents, events; int fd; } uv__io_t;
typedef struct uv_tcp_s { void *opaque[17]; uv__io_t io_watcher; void *tail[16]; } uv_tcp_t;
typedef void (*uv_async_cb)(uv_async_t *);
typedef void (*uv_timer_cb)(uv_timer_t *);
typedef void (*uv_signal_cb)(uv_signal_t *, int);
int uv_async_init(uv_loop_t *, uv_async_t *, uv_async_cb);
int uv_timer_start(uv_timer_t *, uv_timer_cb, uint64_t, uint64_t);
int uv_signal_start(uv_signal_t *, uv_signal_cb, int);
int uv_signal_start_oneshot(uv_signal_t *, uv_signal_cb, int);
#endif
