# source me: environment for every go / llgo invocation of the verification machinery
export VERIF_ROOT=${VERIF_ROOT:-/verif}
export VERIF_BUILD=${VERIF_BUILD:-$VERIF_ROOT/.build}
export VERIF_REPO=${VERIF_REPO:-/repo}
export SHIM=$VERIF_BUILD/shim
export GOROOT=$SHIM/goroot
export PATH=$GOROOT/bin:$PATH
export GOFLAGS=-mod=mod GOPROXY=off GOSUMDB=off GOTOOLCHAIN=local GONOSUMDB=* GONOSUMCHECK=1 GOFLAGS=-mod=mod
export GOCACHE=${GOCACHE:-/root/.cache/go-build}
export LLVM_CONFIG=$SHIM/bin/llvm-config
export CGO_ENABLED=1
