#!/bin/bash
SHIM="$(cd "$(dirname "${BASH_SOURCE[0]}")/.." && pwd)"
case "$1" in
  --bindir) echo "$SHIM/bin";;
  --cflags) echo "-I$SHIM/include";;
  *) exec /usr/lib/llvm-14/bin/llvm-config "$@";;
esac
