#!/bin/bash
# usage: mkshim.sh <repo> <outdir>   -- builds the LLVM-14 shim directory used by every llgo run.
set -euo pipefail
REPO=${1:-/repo}; OUT=${2:-/verif/.build/shim}
HERE="$(cd "$(dirname "${BASH_SOURCE[0]}")" && pwd)"
LLVM=/usr/lib/llvm-14/bin
TC=/root/go/pkg/mod/golang.org/toolchain@v0.0.1-go1.24.0.linux-amd64
mkdir -p "$OUT/bin" "$OUT/include" "$OUT/lib"
install -m 755 "$HERE/clangwrap.sh" "$OUT/bin/clang"
install -m 755 "$HERE/clangwrap.sh" "$OUT/bin/clang++"
install -m 755 "$HERE/llvm-config.sh" "$OUT/bin/llvm-config"
for t in llvm-link llvm-nm llvm-ar llvm-readelf llvm-objcopy llvm-objdump llvm-install-name-tool llvm-dis llvm-as opt llc llvm-symbolizer; do
  [ -e "$LLVM/$t" ] && ln -sf "$LLVM/$t" "$OUT/bin/$t"
done
cp "$HERE/libunwind.h" "$HERE/uv.h" "$OUT/include/"
$LLVM/clang -O1 -c "$HERE/libunwind_stub.c" -I"$OUT/include" -o "$OUT/lib/unw.o"
rm -f "$OUT/lib/libunwind.a"; $LLVM/llvm-ar rcs "$OUT/lib/libunwind.a" "$OUT/lib/unw.o"
# libuv stub: every uv_* symbol the working tree binds, minus those its own wrapper C file defines.
UVDIR="$REPO/runtime/internal/clite/libuv"
{
  echo '#include <stdio.h>'; echo '#include <stdlib.h>'
  echo 'static void verif_uv_die(const char *n){fprintf(stderr,"verif: libuv stub %s called (no libuv in sandbox)\n",n);abort();}'
  grep -rhoE 'C\.uv_[A-Za-z0-9_]+' "$UVDIR"/*.go | sed 's/^C\.//' | sort -u | while read -r s; do
    if grep -qE "^[a-z].*[ *]$s *\(" "$UVDIR/_wrap/libuv.c" 2>/dev/null; then continue; fi
    echo "long $s(void){verif_uv_die(\"$s\");return 0;}"
  done
} > "$OUT/lib/uvstub.c"
$LLVM/clang -O1 -c "$OUT/lib/uvstub.c" -o "$OUT/lib/uvstub.o"
rm -f "$OUT/lib/libuv.a"; $LLVM/llvm-ar rcs "$OUT/lib/libuv.a" "$OUT/lib/uvstub.o"
ln -sfn /usr/lib/x86_64-linux-gnu/libgc.so.1 "$OUT/lib/libgc.so"
ln -sfn "$TC" "$OUT/goroot"
echo "shim ready: $OUT ($(grep -c verif_uv_die\(\" "$OUT/lib/uvstub.c") uv stubs)"
