/* Minimal libunwind.h stand-in: enough for runtime/internal/clite/debug/_wrap/debug.c to compile.
   The stub library performs no stack walk (unw_step returns 0). */
#ifndef VERIF_LIBUNWIND_H
#define VERIF_LIBUNWIND_H
#include <stdint.h>
#include <stddef.h>
typedef uint64_t unw_word_t;
typedef struct { unw_word_t opaque[128]; } unw_cursor_t;
typedef struct { unw_word_t opaque[256]; } unw_context_t;
enum { UNW_REG_IP = 16, UNW_REG_SP = 7 };
int unw_getcontext(unw_context_t *);
int unw_init_local(unw_cursor_t *, unw_context_t *);
int unw_step(unw_cursor_t *);
int unw_get_reg(unw_cursor_t *, int, unw_word_t *);
int unw_get_proc_name(unw_cursor_t *, char *, size_t, unw_word_t *);
#endif
