#include "libunwind.h"
int unw_getcontext(unw_context_t *c) { (void)c; return 0; }
int unw_init_local(unw_cursor_t *c, unw_context_t *x) { (void)c; (void)x; return 0; }
int unw_step(unw_cursor_t *c) { (void)c; return 0; }
int unw_get_reg(unw_cursor_t *c, int r, unw_word_t *v) { (void)c; (void)r; *v = 0; return -1; }
int unw_get_proc_name(unw_cursor_t *c, char *b, size_t n, unw_word_t *o) { (void)c; if (n) b[0] = 0; *o = 0; return -1; }
