#!/bin/bash
# usage: buildllgo.sh <repo> <out-binary>  -- builds cmd/llgo from <repo>'s working tree for LLVM 14
set -euo pipefail
REPO=${1:-/repo}; OUT=$2
. "$(dirname "${BASH_SOURCE[0]}")/env.sh"
OV=$(mktemp /dev/shm/verif-ov-XXXXXX.json)
trap 'rm -f $OV' EXIT
cat > $OV <<J
{"Replace": {"$REPO/ssa/zz_verif_opaque_llvm14.go": "$VERIF_ROOT/overlay/ssa/zz_verif_opaque_llvm14.go"}}
J
cd "$REPO"
go build -buildvcs=false -tags llvm14,dev,verif -overlay $OV -o "$OUT" ./cmd/llgo
