#!/bin/bash
# clang/clang++ wrapper used by llgo in the sealed sandbox (LLVM 14, no lld/libuv/libunwind-dev).
# Selected through LLVM_CONFIG=<shim>/bin/llvm-config (llgo prepends `--bindir` to PATH).
SHIM="$(cd "$(dirname "${BASH_SOURCE[0]}")/.." && pwd)"
real=/usr/lib/llvm-14/bin/$(basename "$0")
args=()
has_ll=0; linking=1; skip=0
for a in "$@"; do
  if [ "$skip" = 1 ]; then skip=0; case "$a" in --icf=*) continue;; *) args+=("-Xlinker" "$a"); continue;; esac; fi
  case "$a" in
    -fuse-ld=lld) args+=("-fuse-ld=gold");;
    -Xlinker) skip=1;;
    -Wl,--error-limit=0) ;;
    -Wl,--icf=*) ;;
    -c|-S|-E|-emit-llvm) linking=0; args+=("$a");;
    *.ll) has_ll=1; args+=("$a");;
    *) args+=("$a");;
  esac
done
extra=("-I$SHIM/include" "-Wno-override-module")
[ "$has_ll" = 1 ] && extra+=("-mllvm" "-opaque-pointers")
if [ "$linking" = 1 ]; then
  exec "$real" "${extra[@]}" "-L$SHIM/lib" "${args[@]}" "$SHIM/lib/libunwind.a" "$SHIM/lib/libuv.a"
else
  exec "$real" "${extra[@]}" "${args[@]}"
fi
