module verif

go 1.24

require (
	pgregory.net/rapid v1.3.0
	verifstat v0.0.0
)

replace verifstat => ./vstat
